/-
Model/Datalog — the bottom-up engine (datalog/datalog.go:142-633).

Generic in the value type `V` (decidable equality) and in the expression type
`E`, which is evaluated by a parameter `ev : Bindings V → E → Outcome Bool`
(`ok true` iff the expression evaluates to the boolean `true`; `ok false` for
any other value; `err`/`panic` abort the rule, as in `combine`).

`solve` enumerates the combinations in the lexicographic order of fact indexes,
which is the order in which the odometer of `combine` (datalog.go:489-633)
emits them; `Model/Odometer` models the odometer literally and
`Proofs/Odometer` relates the two.
-/
import BiscuitModel.Model.Expr

namespace Biscuit

structure Pred (V : Type) where
  name : Bytes
  terms : List (Term V)
  deriving DecidableEq, Repr

/-- Ground fact. (Facts with variables are reachable only from crafted wire bytes
and are outside "finite Datalog programs".) -/
structure Fact (V : Type) where
  name : Bytes
  args : List V
  deriving DecidableEq, Repr

structure Rule (V E : Type) where
  head : Pred V
  body : List (Pred V)
  exprs : List E
  deriving DecidableEq, Repr

inductive RunErr
  | expr (e : ErrClass)      -- expression evaluation error: aborts the rule and the run
  | panic (s : PanicSite)
  | invalidRule              -- InvalidRuleError: head variable not bound by the body
  | limitFacts               -- ErrWorldRunLimitMaxFacts
  | limitIter                -- ErrWorldRunLimitMaxIterations
  deriving DecidableEq, Repr

section
variable {V E : Type} [DecidableEq V]

/-- `Predicate.Match` + `MatchedVariables.Insert` over one predicate/fact pair:
constants must be equal, a variable already bound must be bound to an equal
value (datalog.go:160-175, 463-470, 541-560). -/
def unifyTerms : List (Term V) → List V → Bindings V → Option (Bindings V)
  | [], [], σ => some σ
  | .const c :: ts, v :: vs, σ => if c = v then unifyTerms ts vs σ else none
  | .var n :: ts, v :: vs, σ =>
    match σ.lookup n with
    | some w => if w = v then unifyTerms ts vs σ else none
    | none => unifyTerms ts vs ((n, v) :: σ)
  | _, _, _ => none

def unifyPred (p : Pred V) (f : Fact V) (σ : Bindings V) : Option (Bindings V) :=
  if p.name = f.name then unifyTerms p.terms f.args σ else none

/-- All consistent combinations, in lexicographic order of fact indexes. An empty
body yields exactly one (empty) combination; a non-empty body over no facts
yields none (datalog.go:505-508, 601-605). -/
def solve (facts : List (Fact V)) : List (Pred V) → Bindings V → List (Bindings V)
  | [], σ => [σ]
  | p :: ps, σ =>
    facts.flatMap fun f =>
      match unifyPred p f σ with
      | some σ' => solve facts ps σ'
      | none => []

/-- Expressions of one combination, in order, stopping at the first that is not
`true` (datalog.go:566-583). -/
def checkExprs (ev : Bindings V → E → Outcome Bool) (σ : Bindings V) : List E → Outcome Bool
  | [] => .ok true
  | e :: es =>
    match ev σ e with
    | .ok true => checkExprs ev σ es
    | .ok false => .ok false
    | .err c => .err c
    | .panic s => .panic s

def substTerms (σ : Bindings V) : List (Term V) → Option (List V)
  | [] => some []
  | .const c :: ts => (substTerms σ ts).map (c :: ·)
  | .var n :: ts =>
    match σ.lookup n with
    | none => none
    | some v => (substTerms σ ts).map (v :: ·)

/-- Head instantiation (datalog.go:222-235); `none` = `InvalidRuleError`. -/
def substHead (h : Pred V) (σ : Bindings V) : Option (Fact V) :=
  (substTerms σ h.terms).map fun args => { name := h.name, args := args }

/-- `FactSet.Insert` (datalog.go:247-255). -/
def insertFact (s : List (Fact V)) (f : Fact V) : List (Fact V) :=
  if s.contains f then s else s ++ [f]

/-- `FactSet.InsertAll`. -/
def insertAll (s : List (Fact V)) : List (Fact V) → List (Fact V)
  | [] => s
  | f :: fs => insertAll (insertFact s f) fs

/-- The consumer loop of `Rule.Apply` over the emitted combinations. Returns the
accumulated new facts and, if the rule aborted, why. -/
def applyCombos (ev : Bindings V → E → Outcome Bool) (r : Rule V E) :
    List (Bindings V) → List (Fact V) → List (Fact V) × Option RunErr
  | [], acc => (acc, none)
  | σ :: rest, acc =>
    match checkExprs ev σ r.exprs with
    | .err c => (acc, some (.expr c))
    | .panic s => (acc, some (.panic s))
    | .ok false => applyCombos ev r rest acc
    | .ok true =>
      match substHead r.head σ with
      | none => (acc, some .invalidRule)
      | some f => applyCombos ev r rest (insertFact acc f)

/-- `Rule.Apply(facts, newFacts, syms)`. -/
def applyRule (ev : Bindings V → E → Outcome Bool) (r : Rule V E)
    (facts acc : List (Fact V)) : List (Fact V) × Option RunErr :=
  applyCombos ev r (solve facts r.body []) acc

/-- `World.QueryRule`: `Apply` on a fresh result set, error dropped (datalog.go:445-449). -/
def queryRule (ev : Bindings V → E → Outcome Bool) (r : Rule V E) (facts : List (Fact V)) :
    List (Fact V) :=
  (applyRule ev r facts []).1

/-- One iteration's rule loop: every rule reads the same snapshot `facts`, all
write to one `newFacts` (datalog.go:371-384). -/
def stepAll (ev : Bindings V → E → Outcome Bool) (facts : List (Fact V)) :
    List (Rule V E) → List (Fact V) → List (Fact V) × Option RunErr
  | [], acc => (acc, none)
  | r :: rs, acc =>
    match applyRule ev r facts acc with
    | (acc', none) => stepAll ev facts rs acc'
    | (acc', some e) => (acc', some e)

/-- `World.Run` without the wall-clock limit (datalog.go:360-409). Fuel is the
code's own `maxIterations`. Returns the world's facts as the code leaves them
(also on error) and the error, if any. -/
def run (ev : Bindings V → E → Outcome Bool) (maxFacts : Nat) (rules : List (Rule V E)) :
    Nat → List (Fact V) → List (Fact V) × Option RunErr
  | 0, facts => (facts, some .limitIter)
  | n + 1, facts =>
    match stepAll ev facts rules [] with
    | (_, some e) => (facts, some e)
    | (new, none) =>
      let facts' := insertAll facts new
      if facts'.length ≥ maxFacts then (facts', some .limitFacts)
      else if facts'.length = facts.length then (facts', none)
      else run ev maxFacts rules n facts'

end

end Biscuit
