/-
Model/Basic — shared vocabulary of the biscuit-go model.

Core Lean only (no Mathlib): everything under Model/ and Driver/ links into the
`driver` executable.
-/
namespace Biscuit

/-- Go strings and `[]byte` are byte sequences; so are ours. -/
abbrev Bytes := List UInt8

/-- Places where the Go code can panic; every one is an explicit outcome of the
model, never a totalised default. -/
inductive PanicSite
  | unhashableSetKey      -- map[Term] keyed with Bytes / Set   (datalog.go Set.Equal/Intersect/Union)
  | symbolIndexNegative   -- int(uint64) feeding an array index  (symbol.go Str / Var)
  | badSeedLength         -- ed25519.NewKeyFromSeed with len ≠ 32 (biscuit.go authorizerFor)
  | nilKeySeed            -- Seed() of a nil private key          (biscuit.go GenerateKey error dropped)
  | nilTerm               -- nil biscuit.Term used                (parser ExprTerm.ToExpr)
  | indexOutOfRange       -- slice index out of range
  | nilDeref              -- nil pointer dereference of an optional protobuf field
  | other
  deriving DecidableEq, Repr

/-- Error classes the correspondence check can distinguish on the Go side. -/
inductive ErrClass
  | type          -- ill-typed operands
  | overflow      -- ErrInt64Overflow
  | divzero       -- ErrExprDivByZero
  | stack         -- underflow / overflow / leftover operands
  | unknownVar    -- variable without binding
  | regex         -- regexp does not compile
  | oracleMiss    -- the model was not given the answer of an external function
  deriving DecidableEq, Repr

/-- Result of a computation that the Go code performs: a value, an error return,
or a panic at a named site. -/
inductive Outcome (α : Type)
  | ok (a : α)
  | err (e : ErrClass)
  | panic (s : PanicSite)
  deriving Repr

instance [DecidableEq α] : DecidableEq (Outcome α) := by
  intro a b
  cases a <;> cases b <;> first
    | (rename_i x y; exact if h : x = y then isTrue (by rw [h]) else isFalse (by intro h'; cases h'; exact h rfl))
    | exact isFalse (by intro h; cases h)

namespace Outcome

@[inline] def bind (x : Outcome α) (f : α → Outcome β) : Outcome β :=
  match x with
  | ok a => f a
  | err e => err e
  | panic s => panic s

instance : Monad Outcome where
  pure := ok
  bind := bind

def isPanic : Outcome α → Bool
  | panic _ => true
  | _ => false

def isOk : Outcome α → Bool
  | ok _ => true
  | _ => false

@[simp] theorem bind_ok (a : α) (f : α → Outcome β) : (ok a >>= f) = f a := rfl
@[simp] theorem bind_err (e : ErrClass) (f : α → Outcome β) : ((err e : Outcome α) >>= f) = err e := rfl
@[simp] theorem bind_panic (s : PanicSite) (f : α → Outcome β) : ((panic s : Outcome α) >>= f) = panic s := rfl
@[simp] theorem pure_eq (a : α) : (pure a : Outcome α) = ok a := rfl

end Outcome

/-- 64-bit signed range. -/
def i64Min : Int := -9223372036854775808
def i64Max : Int := 9223372036854775807

def inI64 (x : Int) : Bool := decide (i64Min ≤ x) && decide (x ≤ i64Max)

theorem inI64_iff (x : Int) : inI64 x = true ↔ i64Min ≤ x ∧ x ≤ i64Max := by
  simp [inI64]

end Biscuit
