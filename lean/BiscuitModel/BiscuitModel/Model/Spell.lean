/-
Model/Spell — spelling of lexer tokens back to characters (the inverse direction of
`Grammar.lex`).

* `spellTok t`: the characters of one token, exactly as the lexer rule that produces `t`
  consumes them (a string token gets its quotes back, a variable its `$`, a parameter its
  braces, a byte literal its `hex:` prefix).
* `spell ts`: every token followed by ONE space.  With this layout token boundaries are
  never an issue; tighter layouts are exercised by the harness, not here.

`Tok.comment` carries no text; it is spelled `//` (an empty comment).  It is not a
well-formed token for the round trip (`Props/C14Lexer`): a comment swallows the rest of the
line.
-/
import BiscuitModel.Model.Grammar

namespace Biscuit.Grammar

def spellTok : Tok → List Char
  | .keyword k => k.toList
  | .func f => f.toList
  | .hex ds => 'h' :: 'e' :: 'x' :: ':' :: ds
  | .dot => ['.']
  | .arrow => ['<', '-']
  | .orOp => ['|', '|']
  | .andOp => ['&', '&']
  | .op s => s.toList
  | .comment => ['/', '/']
  | .str s => '"' :: s ++ ['"']
  | .var n => '$' :: n.toList
  | .param n => '{' :: n.toList ++ ['}']
  | .date s => s
  | .int ds => ds
  | .bool true => ['t', 'r', 'u', 'e']
  | .bool false => ['f', 'a', 'l', 's', 'e']
  | .ident s => s.toList
  | .punct c => [c]

/-- Every token followed by one space. -/
def spell : List Tok → List Char
  | [] => []
  | t :: ts => spellTok t ++ ' ' :: spell ts

end Biscuit.Grammar
