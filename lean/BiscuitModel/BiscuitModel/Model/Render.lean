/-
Model/Render — token-level reference rendering of whole statements (facts, rules, checks,
policies, statement lists), the mirror image of `Model/Grammar.parsePred … parseItems`.

`Printer.renderTermToks` / `Printer.renderToks` render terms and expressions; this file adds
the layers above them.  Every function produces exactly the token shape the corresponding
parser function accepts:

* `renderPred`     `Name "(" (Term ("," Term)*)? ")"`   (zero arguments: `Name "(" ")"`)
* `renderBody`     `Elem ("," Elem)*`
* `renderRule`     `Pred "<-" Body`
* `renderQueries`  `Body ("or" Body)*`                  (`or` is the identifier token `or`)
* `renderCheck`    `"check if" Queries`
* `renderPolicy`   `("allow if" | "deny if") Queries`
* `renderItems`    `(Item ";")*`                        (`;` TERMINATES every item, also the last)
-/
import BiscuitModel.Model.Printer

namespace Biscuit.Render
open Biscuit Biscuit.Grammar Biscuit.Printer

/-- `x₀ sep x₁ sep … xₙ` (nothing for the empty list). -/
def joinWith (sep : Tok) : List (List Tok) → List Tok
  | [] => []
  | x :: [] => x
  | x :: y :: ys => x ++ sep :: joinWith sep (y :: ys)

/-- Terms separated by commas. -/
def renderTerms (ts : List PTerm) : List Tok := joinWith (.punct ',') (ts.map renderTermToks)

def renderPred (p : PPred) : List Tok :=
  .ident p.name :: .punct '(' :: (renderTerms p.terms ++ [.punct ')'])

def renderElem : PElem → List Tok
  | .pred p => renderPred p
  | .expr e => renderToks e

/-- Rule body / one query: elements separated by commas. -/
def renderBody (es : List PElem) : List Tok := joinWith (.punct ',') (es.map renderElem)

def renderRule (r : PRule) : List Tok := renderPred r.head ++ .arrow :: renderBody r.body

/-- Alternative queries separated by the identifier `or`. -/
def renderQueries (qs : List (List PElem)) : List Tok := joinWith (.ident "or") (qs.map renderBody)

def renderCheck (c : PCheck) : List Tok := .keyword "check if" :: renderQueries c.queries

def policyKeyword (allow : Bool) : String := if allow then "allow if" else "deny if"

def renderPolicy (p : PPolicy) : List Tok := .keyword (policyKeyword p.allow) :: renderQueries p.queries

def renderItem : PItem → List Tok
  | .fact p => renderPred p
  | .rule r => renderRule r
  | .check c => renderCheck c
  | .policy p => renderPolicy p

/-- Every item followed by `;` (what `parseItems` expects: a terminator, not a separator). -/
def renderItems : List PItem → List Tok
  | [] => []
  | it :: its => renderItem it ++ .punct ';' :: renderItems its

end Biscuit.Render
