/-
Model/Heap — Go slice semantics under `SymbolTable`, `FactSet` and `[]byte` payloads:
backing arrays with capacity, `append` in place versus reallocating, header copy versus
deep copy (datalog/symbol.go:119-122, datalog/datalog.go:451-459, biscuit.go payload
construction). Generic in the element type.

A heap is a list of backing arrays; an array is the list of ALL its cells (length =
capacity), including cells beyond the length of any slice viewing it. A slice is an array
id and a length. The growth policy of `append` is a parameter `grow` with `grow n > n`, so
the theorems hold for every policy, Go's included.
-/
namespace Biscuit.Heap

structure Slice where
  arr : Nat
  len : Nat
  deriving DecidableEq, Repr

abbrev Heap (α : Type) := List (List α)

variable {α : Type}

def cap (h : Heap α) (s : Slice) : Nat := (h.getD s.arr []).length

/-- What a reader of the slice sees. -/
def read (h : Heap α) (s : Slice) : List α := (h.getD s.arr []).take s.len

/-- Footprint events: cell `(array, index)`, write or read. -/
structure Access where
  arr : Nat
  idx : Nat
  write : Bool
  deriving DecidableEq, Repr

/-- `append(s, x)`: in place when there is spare capacity (the write lands in the shared
backing array), otherwise a fresh array of capacity `grow s.len`, copied. Returns the new
heap, the new slice header and the cells written. `pad` fills the fresh spare cells. -/
def append (grow : Nat → Nat) (pad : α) (h : Heap α) (s : Slice) (x : α) : Heap α × Slice × List Access :=
  if s.len < cap h s then
    (h.set s.arr ((h.getD s.arr []).set s.len x), { s with len := s.len + 1 }, [{ arr := s.arr, idx := s.len, write := true }])
  else
    let fresh := read h s ++ [x] ++ List.replicate (grow s.len - (s.len + 1)) pad
    (h ++ [fresh], { arr := h.length, len := s.len + 1 },
     (List.range (s.len + 1)).map fun i => { arr := h.length, idx := i, write := true })

/-- `newTable := *t` — the pinned `SymbolTable.Clone` / `World.Clone`: same backing array. -/
def cloneHeader (h : Heap α) (s : Slice) : Heap α × Slice := (h, s)

/-- `make + copy` — the repaired `Clone`: a fresh array holding exactly the elements. -/
def cloneDeep (h : Heap α) (s : Slice) : Heap α × Slice := (h ++ [read h s], { arr := h.length, len := s.len })

/-! ### The family machine of C08 / C19: tokens and builders holding symbol tables -/

/-- Operations that touch symbol tables. Objects are referred to by position in the
lists of live tokens / builders. -/
inductive Op (α : Type)
  | createBlock (tok : Nat)             -- builder := Clone(token table)
  | addSymbol (builder : Nat) (x : α)   -- builder table := append(table, x)
  | getBlockID (tok : Nat) (x : α)      -- tmp := Clone(token table); append(tmp, x); tmp dropped
  | appendToken (tok : Nat) (builder : Nat)  -- new token table := Clone(token table) extended by the builder's new symbols
  deriving Repr

structure State (α : Type) where
  heap : Heap α
  tokens : List Slice
  builders : List (Slice × Nat)         -- table and `symbolsStart`
  deriving Repr

/-- `deep = true`: repaired `Clone`. Returns the new state and the cells written. -/
def step (deep : Bool) (grow : Nat → Nat) (pad : α) (st : State α) : Op α → State α × List Access
  | .createBlock t =>
    match st.tokens[t]? with
    | none => (st, [])
    | some s =>
      let r := if deep then cloneDeep st.heap s else cloneHeader st.heap s
      ({ st with heap := r.1, builders := st.builders ++ [(r.2, s.len)] }, [])
  | .addSymbol b x =>
    match st.builders[b]? with
    | none => (st, [])
    | some (s, start) =>
      let r := append grow pad st.heap s x
      ({ st with heap := r.1, builders := st.builders.set b (r.2.1, start) }, r.2.2)
  | .getBlockID t x =>
    match st.tokens[t]? with
    | none => (st, [])
    | some s =>
      let c := if deep then cloneDeep st.heap s else cloneHeader st.heap s
      let r := append grow pad c.1 c.2 x
      ({ st with heap := r.1 }, r.2.2)
  | .appendToken t b =>
    match st.tokens[t]?, st.builders[b]? with
    | some s, some (bs, start) =>
      let c := if deep then cloneDeep st.heap s else cloneHeader st.heap s
      -- Extend: append each new symbol of the builder
      let new := (read st.heap bs).drop start
      let r := new.foldl (fun (acc : Heap α × Slice × List Access) x =>
        let a := append grow pad acc.1 acc.2.1 x
        (a.1, a.2.1, acc.2.2 ++ a.2.2)) (c.1, c.2, [])
      ({ st with heap := r.1, tokens := st.tokens ++ [r.2.1] }, r.2.2)
    | _, _ => (st, [])

def run (deep : Bool) (grow : Nat → Nat) (pad : α) : State α → List (Op α) → State α
  | st, [] => st
  | st, op :: ops => run deep grow pad (step deep grow pad st op).1 ops

/-- Cells reachable from the live tokens (what other goroutines may be reading). -/
def sharedCells (st : State α) : List (Nat × Nat) :=
  st.tokens.flatMap fun s => (List.range s.len).map fun i => (s.arr, i)

/-- Distinct live objects own distinct backing arrays, all allocated, lengths within capacity. -/
def Owned (st : State α) : Prop :=
  let all := st.tokens ++ st.builders.map (·.1)
  (all.map (·.arr)).Nodup ∧ ∀ s ∈ all, s.arr < st.heap.length ∧ s.len ≤ cap st.heap s

/-! ### Payload construction (C19): `append(block.Block[:], alg...)` versus a fresh buffer -/

/-- The pinned verification payload: appends the 4 algorithm bytes and the key to the
stored block slice — in place if the stored slice has spare capacity. -/
def payloadPinned (grow : Nat → Nat) (pad : α) (h : Heap α) (block : Slice) (extra : List α) : Heap α × List Access :=
  let r := extra.foldl (fun (acc : Heap α × Slice × List Access) x =>
    let a := append grow pad acc.1 acc.2.1 x
    (a.1, a.2.1, acc.2.2 ++ a.2.2)) (h, block, [])
  (r.1, r.2.2)

/-- The repaired payload: a fresh buffer; the stored slice is only read. -/
def payloadFresh (h : Heap α) (block : Slice) (extra : List α) : Heap α × List Access :=
  (h ++ [read h block ++ extra],
   (List.range (block.len + extra.length)).map fun i => { arr := h.length, idx := i, write := true })

/-! ### Interleavings (C19) -/

structure Event where
  thread : Nat
  arr : Nat
  idx : Nat
  write : Bool
  deriving DecidableEq, Repr

/-- Two accesses conflict: different threads, same cell, at least one write. -/
def Conflict (a b : Event) : Prop :=
  a.thread ≠ b.thread ∧ a.arr = b.arr ∧ a.idx = b.idx ∧ (a.write = true ∨ b.write = true)

end Biscuit.Heap
