/-
Model/Wire — the protobuf wire format as used by pb/biscuit.proto (proto2).

Generic layer: varints, tags, wire types 0 (varint) and 2 (length-delimited),
field lists. Schema layer: one structure per message of the published schema with
an encoder (fields in field-number order, exactly what `proto.Marshal` emits for
these map-free messages) and a decoder written from the schema: singular fields
take their last occurrence, repeated fields accumulate in order, unknown field
numbers are skipped, required fields must be present, a `oneof` takes the last
member set. Field numbers and enum values are tied to pb/biscuit.proto by
`Generated.protoSchema` (Props/Tables).

This is the "independent decoder" of C07/C17: nothing here comes from biscuit-go
or from google.golang.org/protobuf.
-/
import BiscuitModel.Model.Basic

namespace Biscuit.Wire
open Biscuit

/-! ## Generic layer -/

inductive WVal
  | varint (n : Nat)
  | bytes (b : Bytes)
  deriving DecidableEq, Repr

structure Field where
  num : Nat
  val : WVal
  deriving DecidableEq, Repr

/-- Base-128 little-endian varint. -/
def encodeVarint (n : Nat) : Bytes :=
  if h : n < 128 then [UInt8.ofNat n]
  else UInt8.ofNat (n % 128 + 128) :: encodeVarint (n / 128)
termination_by n
decreasing_by omega

/-- Decode a varint of at most `fuel` bytes (protobuf: at most 10). -/
def decodeVarintAux : Nat → Bytes → Option (Nat × Bytes)
  | 0, _ => none
  | _, [] => none
  | fuel + 1, b :: rest =>
    if b.toNat < 128 then some (b.toNat, rest)
    else match decodeVarintAux fuel rest with
      | none => none
      | some (hi, rest') => some ((b.toNat - 128) + 128 * hi, rest')

def decodeVarint (bs : Bytes) : Option (Nat × Bytes) := decodeVarintAux 10 bs

def encodeField (f : Field) : Bytes :=
  match f.val with
  | .varint n => encodeVarint (f.num * 8) ++ encodeVarint n
  | .bytes b => encodeVarint (f.num * 8 + 2) ++ encodeVarint b.length ++ b

def encodeFields (fs : List Field) : Bytes := fs.flatMap encodeField

/-- Parse a field list. Wire types other than 0 and 2 do not occur in this schema and
are rejected. Fuel is the input length (every field consumes at least one byte). -/
def decodeFieldsAux : Nat → Bytes → Option (List Field)
  | _, [] => some []
  | 0, _ :: _ => none
  | fuel + 1, bs =>
    match decodeVarint bs with
    | none => none
    | some (tag, rest) =>
      let num := tag / 8
      if tag % 8 = 0 then
        match decodeVarint rest with
        | none => none
        | some (n, rest') =>
          match decodeFieldsAux fuel rest' with
          | none => none
          | some fs => some ({ num := num, val := .varint (n % 2^64) } :: fs)
      else if tag % 8 = 2 then
        match decodeVarint rest with
        | none => none
        | some (len, rest') =>
          if len ≤ rest'.length then
            match decodeFieldsAux fuel (rest'.drop len) with
            | none => none
            | some fs => some ({ num := num, val := .bytes (rest'.take len) } :: fs)
          else none
      else none

def decodeFields (bs : Bytes) : Option (List Field) := decodeFieldsAux bs.length bs

/-! ### Field-list accessors (schema-directed decoding) -/

/-- Last varint occurrence of field `k`. -/
def lastVarint (k : Nat) (fs : List Field) : Option Nat :=
  fs.foldl (fun acc f => if f.num = k then (match f.val with | .varint n => some n | _ => acc) else acc) none

/-- Last length-delimited occurrence of field `k`. -/
def lastBytes (k : Nat) (fs : List Field) : Option Bytes :=
  fs.foldl (fun acc f => if f.num = k then (match f.val with | .bytes b => some b | _ => acc) else acc) none

/-- All length-delimited occurrences of field `k`, in order. -/
def allBytes (k : Nat) (fs : List Field) : List Bytes :=
  fs.filterMap fun f => if f.num = k then (match f.val with | .bytes b => some b | _ => none) else none

/-- A field of number `k` occurs with the wrong wire type. -/
def wrongType (k : Nat) (wantVarint : Bool) (fs : List Field) : Bool :=
  fs.any fun f => f.num = k && (match f.val with | .varint _ => !wantVarint | .bytes _ => wantVarint)

def vField (k n : Nat) : Field := { num := k, val := .varint n }
def bField (k : Nat) (b : Bytes) : Field := { num := k, val := .bytes b }

def optV (k : Nat) : Option Nat → List Field
  | none => []
  | some n => [vField k n]

def optB (k : Nat) : Option Bytes → List Field
  | none => []
  | some b => [bField k b]

/-- int64 two's complement ↔ varint payload. -/
def int64ToVarint (i : Int) : Nat := if i ≥ 0 then i.toNat else (i + 2^64).toNat
def varintToInt64 (n : Nat) : Int := if n < 2^63 then (n : Int) else (n : Int) - 2^64

/-! ## Schema layer: block content (index level) -/

/-- Non-set term (`TermV2` without `set`). -/
inductive IAtom
  | variable (n : Nat)     -- uint32, field 1
  | integer (i : Int)      -- int64,  field 2
  | string (n : Nat)       -- uint64, field 3
  | date (n : Nat)         -- uint64, field 4
  | bytes (b : Bytes)      --         field 5
  | bool (b : Bool)        --         field 6
  deriving DecidableEq, Repr

inductive ITerm
  | atom (a : IAtom)
  | set (l : List IAtom)   -- TermSet, field 7
  deriving DecidableEq, Repr

structure IPred where
  name : Nat
  terms : List ITerm
  deriving DecidableEq, Repr

inductive IOp
  | value (t : ITerm)      -- field 1
  | unary (kind : Nat)     -- field 2 { kind = 1 }
  | binary (kind : Nat)    -- field 3 { kind = 1 }
  deriving DecidableEq, Repr

structure IRule where
  head : IPred
  body : List IPred
  exprs : List (List IOp)
  deriving DecidableEq, Repr

structure ICheck where
  queries : List IRule
  deriving DecidableEq, Repr

structure BlockMsg where
  symbols : List Bytes
  context : Option Bytes
  version : Option Nat
  facts : List IPred
  rules : List IRule
  checks : List ICheck
  deriving DecidableEq, Repr

def encAtom : IAtom → List Field
  | .variable n => [vField 1 n]
  | .integer i => [vField 2 (int64ToVarint i)]
  | .string n => [vField 3 n]
  | .date n => [vField 4 n]
  | .bytes b => [bField 5 b]
  | .bool b => [vField 6 (if b then 1 else 0)]

def encTerm : ITerm → List Field
  | .atom a => encAtom a
  | .set l => [bField 7 (encodeFields (l.map fun a => bField 1 (encodeFields (encAtom a))))]

def encPred (p : IPred) : List Field :=
  vField 1 p.name :: p.terms.map fun t => bField 2 (encodeFields (encTerm t))

def encOp : IOp → List Field
  | .value t => [bField 1 (encodeFields (encTerm t))]
  | .unary k => [bField 2 (encodeFields [vField 1 k])]
  | .binary k => [bField 3 (encodeFields [vField 1 k])]

def encExpr (e : List IOp) : List Field := e.map fun o => bField 1 (encodeFields (encOp o))

def encRule (r : IRule) : List Field :=
  bField 1 (encodeFields (encPred r.head)) ::
    (r.body.map fun p => bField 2 (encodeFields (encPred p))) ++
    (r.exprs.map fun e => bField 3 (encodeFields (encExpr e)))

def encCheck (c : ICheck) : List Field := c.queries.map fun q => bField 1 (encodeFields (encRule q))

def encFact (p : IPred) : List Field := [bField 1 (encodeFields (encPred p))]

def encBlock (b : BlockMsg) : List Field :=
  (b.symbols.map fun s => bField 1 s) ++ optB 2 b.context ++ optV 3 b.version ++
  (b.facts.map fun f => bField 4 (encodeFields (encFact f))) ++
  (b.rules.map fun r => bField 5 (encodeFields (encRule r))) ++
  (b.checks.map fun c => bField 6 (encodeFields (encCheck c)))

def encodeBlock (b : BlockMsg) : Bytes := encodeFields (encBlock b)

/-- The last member of the `oneof Content` of `TermV2` that is set, restricted to atoms. -/
def decAtomField (f : Field) : Option (Option IAtom) :=
  match f.num, f.val with
  | 1, .varint n => some (some (.variable (n % 2^32)))
  | 2, .varint n => some (some (.integer (varintToInt64 n)))
  | 3, .varint n => some (some (.string n))
  | 4, .varint n => some (some (.date n))
  | 5, .bytes b => some (some (.bytes b))
  | 6, .varint n => some (some (.bool (n != 0)))
  | 7, _ => none                      -- a set where an atom is required
  | 1, _ | 2, _ | 3, _ | 4, _ | 5, _ | 6, _ => none   -- wrong wire type
  | _, _ => some none                 -- unknown field: skipped

/-- Decode an atom from its field list: last known member wins; at least one required
(`protoIDToTokenIDV2` rejects a term without content). -/
def decAtomFields (fs : List Field) : Option IAtom :=
  let step := fun (acc : Option (Option IAtom)) (f : Field) =>
    match acc with
    | none => none
    | some cur => match decAtomField f with
      | none => none
      | some none => some cur
      | some (some a) => some (some a)
  match fs.foldl step (some none) with
  | some (some a) => some a
  | _ => none

def decAtom (bs : Bytes) : Option IAtom := (decodeFields bs).bind decAtomFields

/-- Is the (last) content member of this term a set? -/
def lastContentIsSet (fs : List Field) : Bool :=
  match (fs.filter fun f => 1 ≤ f.num && f.num ≤ 7).getLast? with
  | some f => f.num = 7
  | none => false

/-- `TermSet { repeated TermV2 set = 1 }`: non-empty, atoms only, one element type
(converters_v2.go:139-190). -/
def sameKind : IAtom → IAtom → Bool
  | .variable _, .variable _ | .integer _, .integer _ | .string _, .string _
  | .date _, .date _ | .bytes _, .bytes _ | .bool _, .bool _ => true
  | _, _ => false

def decSet (bs : Bytes) : Option (List IAtom) := do
  let fs ← decodeFields bs
  let elts ← (allBytes 1 fs).mapM decAtom
  match elts with
  | [] => none
  | a :: rest =>
    match a with
    | .variable _ => none
    | _ => if rest.all (sameKind a) then some elts else none

def decTermFields (fs : List Field) : Option ITerm :=
  if lastContentIsSet fs then
    match lastBytes 7 fs with
    | some b => (decSet b).map ITerm.set
    | none => none
  else (decAtomFields fs).map ITerm.atom

def decTerm (bs : Bytes) : Option ITerm := (decodeFields bs).bind decTermFields

def decPred (bs : Bytes) : Option IPred := do
  let fs ← decodeFields bs
  if wrongType 1 true fs || wrongType 2 false fs then none
  let name ← lastVarint 1 fs
  let terms ← (allBytes 2 fs).mapM decTerm
  pure { name := name, terms := terms }

def decKind (bs : Bytes) : Option Nat := do
  let fs ← decodeFields bs
  lastVarint 1 fs

def decOp (bs : Bytes) : Option IOp := do
  let fs ← decodeFields bs
  match (fs.filter fun f => 1 ≤ f.num && f.num ≤ 3).getLast? with
  | some { num := 1, val := .bytes b } => (decTerm b).map IOp.value
  | some { num := 2, val := .bytes b } => (decKind b).map IOp.unary
  | some { num := 3, val := .bytes b } => (decKind b).map IOp.binary
  | _ => none

def decExpr (bs : Bytes) : Option (List IOp) := do
  let fs ← decodeFields bs
  (allBytes 1 fs).mapM decOp

def decRule (bs : Bytes) : Option IRule := do
  let fs ← decodeFields bs
  let hb ← lastBytes 1 fs
  let head ← decPred hb
  let body ← (allBytes 2 fs).mapM decPred
  let exprs ← (allBytes 3 fs).mapM decExpr
  pure { head := head, body := body, exprs := exprs }

def decCheck (bs : Bytes) : Option ICheck := do
  let fs ← decodeFields bs
  let qs ← (allBytes 1 fs).mapM decRule
  pure { queries := qs }

def decFact (bs : Bytes) : Option IPred := do
  let fs ← decodeFields bs
  let pb ← lastBytes 1 fs
  decPred pb

def decodeBlock (bs : Bytes) : Option BlockMsg := do
  let fs ← decodeFields bs
  let facts ← (allBytes 4 fs).mapM decFact
  let rules ← (allBytes 5 fs).mapM decRule
  let checks ← (allBytes 6 fs).mapM decCheck
  pure { symbols := allBytes 1 fs, context := lastBytes 2 fs,
         version := (lastVarint 3 fs).map (· % 2^32),
         facts := facts, rules := rules, checks := checks }

/-! ## Schema layer: envelope -/

structure PublicKeyMsg where
  algorithm : Nat
  key : Bytes
  deriving DecidableEq, Repr

structure SignedBlockMsg where
  block : Bytes
  nextKey : PublicKeyMsg
  signature : Bytes
  deriving DecidableEq, Repr

inductive ProofMsg
  | nextSecret (b : Bytes)
  | finalSignature (b : Bytes)
  | empty
  deriving DecidableEq, Repr

structure BiscuitMsg where
  rootKeyId : Option Nat
  authority : SignedBlockMsg
  blocks : List SignedBlockMsg
  proof : ProofMsg
  deriving DecidableEq, Repr

def encPublicKey (k : PublicKeyMsg) : List Field := [vField 1 k.algorithm, bField 2 k.key]

def encSignedBlock (sb : SignedBlockMsg) : List Field :=
  [bField 1 sb.block, bField 2 (encodeFields (encPublicKey sb.nextKey)), bField 3 sb.signature]

def encProof : ProofMsg → List Field
  | .nextSecret b => [bField 1 b]
  | .finalSignature b => [bField 2 b]
  | .empty => []

def encBiscuit (e : BiscuitMsg) : List Field :=
  optV 1 e.rootKeyId ++ [bField 2 (encodeFields (encSignedBlock e.authority))] ++
  (e.blocks.map fun sb => bField 3 (encodeFields (encSignedBlock sb))) ++
  [bField 4 (encodeFields (encProof e.proof))]

def encodeBiscuit (e : BiscuitMsg) : Bytes := encodeFields (encBiscuit e)

def decPublicKey (bs : Bytes) : Option PublicKeyMsg := do
  let fs ← decodeFields bs
  let alg ← lastVarint 1 fs
  let key ← lastBytes 2 fs
  pure { algorithm := alg, key := key }

def decSignedBlock (bs : Bytes) : Option SignedBlockMsg := do
  let fs ← decodeFields bs
  let block ← lastBytes 1 fs
  let nk ← lastBytes 2 fs
  let nextKey ← decPublicKey nk
  let sig ← lastBytes 3 fs
  pure { block := block, nextKey := nextKey, signature := sig }

def decProof (bs : Bytes) : Option ProofMsg := do
  let fs ← decodeFields bs
  match (fs.filter fun f => f.num = 1 || f.num = 2).getLast? with
  | some { num := 1, val := .bytes b } => some (.nextSecret b)
  | some { num := 2, val := .bytes b } => some (.finalSignature b)
  | some _ => none
  | none => some .empty

def decodeBiscuit (bs : Bytes) : Option BiscuitMsg := do
  let fs ← decodeFields bs
  let ab ← lastBytes 2 fs
  let authority ← decSignedBlock ab
  let blocks ← (allBytes 3 fs).mapM decSignedBlock
  let pb ← lastBytes 4 fs
  let proof ← decProof pb
  pure { rootKeyId := (lastVarint 1 fs).map (· % 2^32), authority := authority, blocks := blocks, proof := proof }

/-! ## Schema layer: authorizer snapshot (`AuthorizerPolicies`) -/

structure IPolicy where
  kind : Nat                 -- Allow = 0, Deny = 1, field 2
  queries : List IRule       -- field 1
  deriving DecidableEq, Repr

structure PoliciesMsg where
  symbols : List Bytes       -- 1
  version : Option Nat       -- 2
  facts : List IPred         -- 3
  rules : List IRule         -- 4
  checks : List ICheck       -- 5
  policies : List IPolicy    -- 6
  deriving DecidableEq, Repr

def encPolicy (p : IPolicy) : List Field :=
  (p.queries.map fun q => bField 1 (encodeFields (encRule q))) ++ [vField 2 p.kind]

def encPolicies (m : PoliciesMsg) : List Field :=
  (m.symbols.map fun s => bField 1 s) ++ optV 2 m.version ++
  (m.facts.map fun f => bField 3 (encodeFields (encFact f))) ++
  (m.rules.map fun r => bField 4 (encodeFields (encRule r))) ++
  (m.checks.map fun c => bField 5 (encodeFields (encCheck c))) ++
  (m.policies.map fun p => bField 6 (encodeFields (encPolicy p)))

def encodePolicies (m : PoliciesMsg) : Bytes := encodeFields (encPolicies m)

def decPolicy (bs : Bytes) : Option IPolicy := do
  let fs ← decodeFields bs
  let qs ← (allBytes 1 fs).mapM decRule
  let kind ← lastVarint 2 fs
  pure { kind := kind, queries := qs }

def decodePolicies (bs : Bytes) : Option PoliciesMsg := do
  let fs ← decodeFields bs
  let facts ← (allBytes 3 fs).mapM decFact
  let rules ← (allBytes 4 fs).mapM decRule
  let checks ← (allBytes 5 fs).mapM decCheck
  let policies ← (allBytes 6 fs).mapM decPolicy
  pure { symbols := allBytes 1 fs, version := (lastVarint 2 fs).map (· % 2^32),
         facts := facts, rules := rules, checks := checks, policies := policies }

end Biscuit.Wire
