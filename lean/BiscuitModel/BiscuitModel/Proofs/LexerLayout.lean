/-
Proofs/LexerLayout — lemmas for the round trip of the lexer over arbitrary layouts
(`Props/C14Layout`).

`Proofs/Lexer` shows that the sub-lexers never look past a SPACE.  Here the same is shown for
any remaining input `rest` that the sub-lexer in question cannot enter: `stopAt p rest` says that
`rest` is empty or starts with a character outside `p`.

* stop locality (`*_stop`): `spanWhile`, `stripLit`, `firstWord`, `takeDigits`, `lexDate` on
  `s ++ rest` do what they do on `s`, with `rest` appended to the remainder (`padW`).
* one lemma per token class (`lexOne_*_ok`): `lexOne` on the spelling followed by `rest`.
* blank runs (`lexOne_blank`, `blank_run`): a step at a blank character elides a run of blanks.
* `Lexes cs ts`: the fuel-free reading of `lexAux`; `lex_of_Lexes`.
-/
import BiscuitModel.Proofs.Lexer
import BiscuitModel.Model.Layout

namespace Biscuit.Grammar

/-! ### Stop conditions -/

/-- `rest` is empty or starts with a character outside `p`. -/
def stopAt (p : Char → Bool) : List Char → Bool
  | [] => true
  | c :: _ => !p c

def padW {α : Type} (rest : List Char) (p : α × List Char) : α × List Char := (p.1, p.2 ++ rest)

@[simp] theorem padW_fst {α : Type} (rest : List Char) (p : α × List Char) : (padW rest p).1 = p.1 := rfl
@[simp] theorem padW_snd {α : Type} (rest : List Char) (p : α × List Char) : (padW rest p).2 = p.2 ++ rest := rfl
@[simp] theorem padW_nil {α : Type} (p : α × List Char) : padW [] p = p := by simp [padW]

theorem map_padW_nil {α : Type} (o : Option (α × List Char)) : o.map (padW []) = o := by
  cases o <;> simp

theorem stopAt_mono {p q : Char → Bool} (h : ∀ c, q c = true → p c = true) {rest : List Char}
    (hr : stopAt p rest = true) : stopAt q rest = true := by
  cases rest with
  | nil => rfl
  | cons x r =>
    simp only [stopAt, Bool.not_eq_true'] at hr ⊢
    cases hq : q x with
    | false => rfl
    | true => rw [h x hq] at hr; cases hr

theorem stopAt_cons {p : Char → Bool} {x : Char} {r : List Char} : stopAt p (x :: r) = !p x := rfl

theorem stopAt_eq_cons {c x : Char} {r : List Char} (h : stopAt (· == c) (x :: r) = true) : ¬ c = x := by
  simp only [stopAt, Bool.not_eq_true', beq_eq_false_iff_ne, ne_eq] at h
  exact fun e => h e.symm

theorem isNameChar_of_isWordChar (c : Char) (h : isWordChar c = true) : isNameChar c = true := by
  simp only [isWordChar, isNameChar, Bool.or_eq_true] at h ⊢
  exact Or.inl h

theorem stopAt_word_of_name {rest : List Char} (h : stopAt isNameChar rest = true) :
    stopAt isWordChar rest = true :=
  stopAt_mono isNameChar_of_isWordChar h

theorem atWordEnd_eq_stopAt (rest : List Char) : atWordEnd rest = stopAt isWordChar rest := by
  cases rest <;> rfl

/-! ### spanWhile / stripLit / firstWord -/

theorem spanWhile_stop (p : Char → Bool) (s rest : List Char) (hr : stopAt p rest = true) :
    spanWhile p (s ++ rest) = padW rest (spanWhile p s) := by
  induction s with
  | nil =>
    cases rest with
    | nil => rfl
    | cons x r =>
      simp only [stopAt, Bool.not_eq_true'] at hr
      simp [spanWhile, hr, padW]
  | cons c s ih =>
    simp only [List.cons_append, spanWhile]
    split
    · simp [ih, padW]
    · simp [padW]

theorem spanWhile_all (p : Char → Bool) (s : List Char) (hs : s.all p = true) :
    spanWhile p s = (s, []) := by
  induction s with
  | nil => rfl
  | cons c s ih =>
    simp only [List.all_cons, Bool.and_eq_true] at hs
    simp [spanWhile, hs.1, ih hs.2]

theorem spanWhile_append_stopAt (p : Char → Bool) (s rest : List Char) (hs : s.all p = true)
    (hr : stopAt p rest = true) : spanWhile p (s ++ rest) = (s, rest) := by
  rw [spanWhile_stop p s rest hr, spanWhile_all p s hs]; rfl

theorem stripLit_stop (p : Char → Bool) (l s rest : List Char) (hl : l.all p = true)
    (hr : stopAt p rest = true) : stripLit l (s ++ rest) = (stripLit l s).map (· ++ rest) := by
  induction l generalizing s with
  | nil => simp [stripLit]
  | cons a l ih =>
    simp only [List.all_cons, Bool.and_eq_true] at hl
    cases s with
    | nil =>
      cases rest with
      | nil => simp [stripLit]
      | cons x r =>
        simp only [stopAt, Bool.not_eq_true'] at hr
        simp [stripLit, ne_of_pred hl.1 hr]
    | cons c s =>
      simp only [List.cons_append, stripLit]
      split
      · exact ih s hl.2
      · rfl

theorem atWordEnd_stop (r rest : List Char) (hr : stopAt isWordChar rest = true) :
    atWordEnd (r ++ rest) = atWordEnd r := by
  cases r with
  | nil => rw [List.nil_append, atWordEnd_eq_stopAt, hr]; rfl
  | cons c r => rfl

theorem firstWord_stop (p : Char → Bool) (lits : List String) (s rest : List Char)
    (hl : ∀ l ∈ lits, l.toList.all p = true) (hr : stopAt p rest = true)
    (hw : stopAt isWordChar rest = true) :
    firstWord lits (s ++ rest) = (firstWord lits s).map (padW rest) := by
  induction lits with
  | nil => simp [firstWord]
  | cons l lits ih =>
    have ih := ih (fun l' h' => hl l' (List.mem_cons_of_mem _ h'))
    simp only [firstWord]
    rw [stripLit_stop p _ _ _ (hl l (List.mem_cons_self ..)) hr]
    cases h : stripLit l.toList s with
    | none => simpa using ih
    | some r =>
      simp only [Option.map_some, atWordEnd_stop _ _ hw]
      split
      · simp [padW]
      · exact ih

/-- A literal with a space inside (`check if`) does not match `s ++ rest`, `s` a name other than
the part before the space, `rest` not continuing the name. -/
theorem stripLit_space_lit_stop (a b s rest : List Char) (ha : a.all isNameChar = true)
    (hs : s.all isNameChar = true) (hne : s ≠ a) (hr : stopAt isNameChar rest = true) :
    stripLit (a ++ ' ' :: b) (s ++ rest) = none := by
  induction a generalizing s with
  | nil =>
    cases s with
    | nil => exact absurd rfl hne
    | cons c s =>
      simp only [List.all_cons, Bool.and_eq_true] at hs
      have : ' ' ≠ c := (ne_of_pred hs.1 (by decide : isNameChar ' ' = false)).symm
      simp [stripLit, this]
  | cons x a ih =>
    simp only [List.all_cons, Bool.and_eq_true] at ha
    cases s with
    | nil =>
      cases rest with
      | nil => simp [stripLit]
      | cons y r =>
        simp only [stopAt, Bool.not_eq_true'] at hr
        simp [stripLit, ne_of_pred ha.1 hr]
    | cons c s =>
      simp only [List.all_cons, Bool.and_eq_true] at hs
      simp only [List.cons_append, stripLit]
      split
      · rename_i hxc
        have hxc : x = c := by simpa using hxc
        exact ih s ha.2 hs.2 (fun e => hne (by rw [hxc, e]))
      · rfl

theorem firstLit_keyword_stop (s rest : List Char) (hs : s.all isNameChar = true)
    (hk : s ∉ keywordHeads) (hr : stopAt isNameChar rest = true) :
    firstLit keywordLits (s ++ rest) = none := by
  simp only [keywordHeads, List.mem_cons, List.not_mem_nil, or_false, not_or] at hk
  have e1 := stripLit_space_lit_stop "check".toList "if".toList s rest (by decide) hs hk.1 hr
  have e2 := stripLit_space_lit_stop "allow".toList "if".toList s rest (by decide) hs hk.2.1 hr
  have e3 := stripLit_space_lit_stop "deny".toList "if".toList s rest (by decide) hs hk.2.2 hr
  rw [show "check".toList ++ ' ' :: "if".toList = "check if".toList from by decide] at e1
  rw [show "allow".toList ++ ' ' :: "if".toList = "allow if".toList from by decide] at e2
  rw [show "deny".toList ++ ' ' :: "if".toList = "deny if".toList from by decide] at e3
  simp only [keywordLits, firstLit, e1, e2, e3]

/-! ### Date -/

theorem takeDigits_stop (n : Nat) (s rest : List Char) (hr : stopAt isDigit rest = true) :
    takeDigits n (s ++ rest) = (takeDigits n s).map (padW rest) := by
  cases rest with
  | nil => rw [List.append_nil, map_padW_nil]
  | cons x r =>
    simp only [stopAt, Bool.not_eq_true'] at hr
    unfold takeDigits
    by_cases h : n ≤ s.length
    · simp only [List.take_append_of_le_length h, List.drop_append_of_le_length h]
      split <;> simp [padW]
    · have h' : s.length < n := by omega
      have h1 : decide ((s.take n).length = n) = false := by simp [List.length_take]; omega
      have h2 : ((s ++ x :: r).take n).all isDigit = false := by
        obtain ⟨k, hk⟩ : ∃ k, n - s.length = k + 1 := ⟨n - s.length - 1, by omega⟩
        rw [List.take_append, hk, List.take_succ_cons]
        simp [hr]
      simp only [h1, h2, Bool.and_false, Bool.false_and, Bool.false_eq_true, if_false, Option.map_none]

theorem stripLit1_stop (c : Char) (s rest : List Char) (hr : stopAt (· == c) rest = true) :
    stripLit [c] (s ++ rest) = (stripLit [c] s).map (· ++ rest) :=
  stripLit_stop (· == c) _ _ _ (by simp) hr

theorem dateFrac_nil : dateFrac [] = ([], []) := rfl

theorem dateFrac_stop (r rest : List Char) (h1 : stopAt isDigit rest = true)
    (h2 : stopAt (· == '.') rest = true) : dateFrac (r ++ rest) = padW rest (dateFrac r) := by
  cases r with
  | nil =>
    cases rest with
    | nil => rfl
    | cons x r =>
      have : x ≠ '.' := by simpa [stopAt] using h2
      rw [List.nil_append, dateFrac_ne _ _ this]; rfl
  | cons c r' =>
    by_cases hc : c = '.'
    · subst hc
      rw [List.cons_append, dateFrac_dot, dateFrac_dot, spanWhile_stop isDigit _ _ h1]
      by_cases he : (spanWhile isDigit r').1.isEmpty = true
      · simp [he, padW]
      · simp [he, padW]
    · rw [List.cons_append, dateFrac_ne _ _ hc, dateFrac_ne _ _ hc]; rfl

theorem dateZone_stop (r rest : List Char) (h1 : stopAt isDigit rest = true)
    (h2 : stopAt (· == ':') rest = true) (h3 : stopAt (· == 'Z') rest = true)
    (h4 : stopAt (· == '+') rest = true) (h5 : stopAt (· == '-') rest = true) :
    dateZone (r ++ rest) = padW rest (dateZone r) := by
  cases r with
  | nil =>
    cases rest with
    | nil => rfl
    | cons x r =>
      have a3 : x ≠ 'Z' := by simpa [stopAt] using h3
      have a4 : x ≠ '+' := by simpa [stopAt] using h4
      have a5 : x ≠ '-' := by simpa [stopAt] using h5
      simp [dateZone, padW, a4, a5]
  | cons c r' =>
    by_cases hc : c = 'Z'
    · subst hc; simp [dateZone, padW]
    · have e3 := fun s => stripLit1_stop ':' s rest h2
      simp only [dateZone, List.cons_append, takeDigits_stop _ _ _ h1]
      split
      · cases takeDigits 2 r' with
        | none => simp [padW]
        | some p =>
          obtain ⟨zh, r2⟩ := p
          simp only [Option.map_some, e3, padW]
          cases stripLit [':'] r2 with
          | none => simp
          | some r3 =>
            simp only [Option.map_some, takeDigits_stop _ _ _ h1]
            cases takeDigits 2 r3 with
            | none => simp
            | some q => simp [padW]
      · simp [padW]

theorem stopAt_dateCont {rest : List Char} (h : stopAt dateCont rest = true) :
    stopAt isDigit rest = true ∧ stopAt (· == '-') rest = true ∧ stopAt (· == 'T') rest = true ∧
    stopAt (· == ':') rest = true ∧ stopAt (· == '.') rest = true ∧ stopAt (· == 'Z') rest = true ∧
    stopAt (· == '+') rest = true := by
  cases rest with
  | nil => simp [stopAt]
  | cons x r =>
    simp only [stopAt, dateCont, Bool.not_eq_true', Bool.or_eq_false_iff] at h ⊢
    obtain ⟨⟨⟨⟨⟨⟨a1, a2⟩, a3⟩, a4⟩, a5⟩, a6⟩, a7⟩ := h
    exact ⟨a1, a2, a3, a4, a5, a6, a7⟩

theorem dateFin_stop (b r rest : List Char) (h : stopAt dateCont rest = true) :
    dateFin b (r ++ rest) = padW rest (dateFin b r) := by
  obtain ⟨a1, a2, a3, a4, a5, a6, a7⟩ := stopAt_dateCont h
  simp [dateFin, dateFrac_stop _ _ a1 a5, dateZone_stop _ _ a1 a4 a6 a7 a2, padW]

theorem lexDate_stop (s rest : List Char) (h : stopAt dateCont rest = true) :
    lexDate (s ++ rest) = (lexDate s).map (padW rest) := by
  obtain ⟨a1, a2, a3, a4, a5, a6, a7⟩ := stopAt_dateCont h
  have e0 := fun n s => takeDigits_stop n s rest a1
  have e1 := fun s => stripLit1_stop '-' s rest a2
  have e2 := fun s => stripLit1_stop 'T' s rest a3
  have e3 := fun s => stripLit1_stop ':' s rest a4
  have e4 := fun b r => dateFin_stop b r rest h
  simp only [lexDate_eq, lexDate', e0, e1, e2, e3, Option.bind_map, Option.map_bind, Function.comp_def,
    e4, Option.map_some, padW_fst, padW_snd]

/-! ### Literal tokens -/

theorem lexOne_keyword_ok (k : String) (hk : k ∈ keywordLits) (rest : List Char) :
    lexOne (k.toList ++ rest) = some (some (.keyword k), rest) := by
  simp only [keywordLits, List.mem_cons, List.not_mem_nil, or_false] at hk
  rcases hk with rfl | rfl | rfl <;> simp [lexOne, firstLit, stripLit]

theorem lexOne_func_ok (f : String) (hf : f ∈ funcLits) (rest : List Char)
    (hr : stopAt isWordChar rest = true) :
    lexOne (f.toList ++ rest) = some (some (.func f), rest) := by
  rw [← atWordEnd_eq_stopAt] at hr
  simp only [funcLits, List.mem_cons, List.not_mem_nil, or_false] at hf
  rcases hf with rfl | rfl | rfl | rfl | rfl <;>
    simp [lexOne, firstLit, firstWord, stripLit, hr]

theorem lexOne_dot_ok (rest : List Char) : lexOne ('.' :: rest) = some (some .dot, rest) := by
  simp [lexOne, firstLit, firstWord, stripLit]
theorem lexOne_arrow_ok (rest : List Char) : lexOne ('<' :: '-' :: rest) = some (some .arrow, rest) := by
  simp [lexOne, firstLit, firstWord, stripLit]
theorem lexOne_orOp_ok (rest : List Char) : lexOne ('|' :: '|' :: rest) = some (some .orOp, rest) := by
  simp [lexOne, firstLit, firstWord, stripLit]
theorem lexOne_andOp_ok (rest : List Char) : lexOne ('&' :: '&' :: rest) = some (some .andOp, rest) := by
  simp [lexOne, firstLit, firstWord, stripLit]

theorem stopAt_opFollow {s : String} {rest : List Char} (h : okAfter (.op s) rest = true) :
    (s = "<" → stopAt (· == '-') rest = true ∧ stopAt (· == '=') rest = true) ∧
    (s = ">" → stopAt (· == '=') rest = true) := by
  cases rest with
  | nil => simp [stopAt]
  | cons x r =>
    simp only [okAfter, canFollow, opFollow] at h
    constructor
    · rintro rfl
      simpa [stopAt] using h
    · rintro rfl
      simpa [stopAt] using h

theorem lexOne_op_ok (o : String) (ho : o ∈ opLits) (rest : List Char)
    (hr : okAfter (.op o) rest = true) :
    lexOne (o.toList ++ rest) = some (some (.op o), rest) := by
  obtain ⟨h1, h2⟩ := stopAt_opFollow hr
  simp only [opLits, List.mem_cons, List.not_mem_nil, or_false] at ho
  rcases ho with rfl | rfl | rfl | rfl | rfl | rfl | rfl | rfl
  · simp [lexOne, firstLit, firstWord, stripLit]
  · simp [lexOne, firstLit, firstWord, stripLit]
  · simp [lexOne, firstLit, firstWord, stripLit]
  · have := h2 rfl
    cases rest with
    | nil => simp [lexOne, firstLit, firstWord, stripLit]
    | cons x r =>
      have hx : ¬ '=' = x := stopAt_eq_cons this
      simp [lexOne, firstLit, firstWord, stripLit, hx]
  · have := h1 rfl
    cases rest with
    | nil => simp [lexOne, firstLit, firstWord, stripLit]
    | cons x r =>
      have hx : ¬ '=' = x := stopAt_eq_cons this.2
      have hy : ¬ '-' = x := stopAt_eq_cons this.1
      simp [lexOne, firstLit, firstWord, stripLit, hx, hy]
  · simp [lexOne, firstLit, firstWord, stripLit]
  · simp [lexOne, firstLit, firstWord, stripLit]
  · simp [lexOne, firstLit, firstWord, stripLit]

theorem lexOne_true_ok (rest : List Char) (hr : stopAt isWordChar rest = true) :
    lexOne ('t' :: 'r' :: 'u' :: 'e' :: rest) = some (some (.bool true), rest) := by
  rw [← atWordEnd_eq_stopAt] at hr
  simp [lexOne, firstLit, firstWord, stripLit, lexDate_nondigit, isDigit, hr]
theorem lexOne_false_ok (rest : List Char) (hr : stopAt isWordChar rest = true) :
    lexOne ('f' :: 'a' :: 'l' :: 's' :: 'e' :: rest) = some (some (.bool false), rest) := by
  rw [← atWordEnd_eq_stopAt] at hr
  simp [lexOne, firstLit, firstWord, stripLit, lexDate_nondigit, isDigit, hr]

/-! ### Tokens with a payload -/

/-- The Hex rule cannot go on into `rest`. -/
def hexStop : List Char → Bool
  | a :: b :: _ => !(isHexDigit a && isHexDigit b)
  | _ => true

theorem hexPairs_hexStop (rest : List Char) (h : hexStop rest = true) : hexPairs rest = ([], rest) := by
  match rest, h with
  | [], _ => rfl
  | [_], _ => rfl
  | a :: b :: r, h =>
    simp only [hexStop, Bool.not_eq_true'] at h
    simp [hexPairs, h]

theorem hexPairs_append_stop (ds : List Char) (rest : List Char) (hr : hexStop rest = true) :
    ∀ n, ds.length = 2 * n → ds.all isHexDigit = true → hexPairs (ds ++ rest) = (ds, rest) := by
  intro n
  induction n generalizing ds with
  | zero =>
    intro hl _
    have : ds = [] := List.eq_nil_of_length_eq_zero (by omega)
    subst this
    exact hexPairs_hexStop rest hr
  | succ n ih =>
    intro hl ha
    match ds, hl, ha with
    | a :: b :: ds', hl, ha =>
      simp only [List.all_cons, Bool.and_eq_true] at ha
      simp only [List.length_cons] at hl
      have := ih ds' (by omega) ha.2.2
      simp [hexPairs, ha.1, ha.2.1, this]

theorem lexOne_hex_ok (ds : List Char) (hd : ds.all isHexDigit = true) (he : ds.length % 2 = 0)
    (rest : List Char) (hr : hexStop rest = true) :
    lexOne ('h' :: 'e' :: 'x' :: ':' :: ds ++ rest) = some (some (.hex ds), rest) := by
  have hp := hexPairs_append_stop ds rest hr (ds.length / 2) (by omega) hd
  have h1 : firstLit ["check if", "allow if", "deny if"] ('h' :: 'e' :: 'x' :: ':' :: ds ++ rest) = none := by
    simp [firstLit, stripLit]
  have h2 : firstWord ["prefix", "suffix", "matches", "length", "contains"]
      ('h' :: 'e' :: 'x' :: ':' :: ds ++ rest) = none := by
    simp [firstWord, stripLit]
  have h3 : stripLit "hex:".toList ('h' :: 'e' :: 'x' :: ':' :: ds ++ rest) = some (ds ++ rest) := by
    simp [stripLit]
  unfold lexOne
  simp only [h1, h2, h3, hp]

theorem lexOne_str_ok (s : List Char) (hs : s.all (· != '"') = true) (rest : List Char) :
    lexOne ('"' :: s ++ '"' :: rest) = some (some (.str s), rest) := by
  rw [List.cons_append, lexOne_nonlower _ _ (by decide) (by decide)]
  have := spanWhile_append_stop (· != '"') s '"' rest hs (by decide)
  simp [lexTail, this]

theorem lexOne_var_ok (n : List Char) (hn : n ≠ []) (ha : n.all isNameChar = true) (rest : List Char)
    (hr : stopAt isNameChar rest = true) :
    lexOne ('$' :: n ++ rest) = some (some (.var (String.ofList n)), rest) := by
  rw [List.cons_append, lexOne_nonlower _ _ (by decide) (by decide)]
  have := spanWhile_append_stopAt isNameChar n rest ha hr
  simp [lexTail, this, hn]

theorem lexOne_param_ok (n : List Char) (hn : n ≠ []) (ha : n.all isNameChar = true) (rest : List Char) :
    lexOne ('{' :: n ++ '}' :: rest) = some (some (.param (String.ofList n)), rest) := by
  rw [List.cons_append, lexOne_nonlower _ _ (by decide) (by decide)]
  have := spanWhile_append_stop isNameChar n '}' rest ha (by decide)
  have hne : n.isEmpty = false := by cases n with | nil => exact absurd rfl hn | cons _ _ => rfl
  simp [lexTail, this, hne]

theorem lexOne_date_ok (s : List Char) (hs : lexDate s = some (s, [])) (rest : List Char)
    (hr : stopAt dateCont rest = true) :
    lexOne (s ++ rest) = some (some (.date s), rest) := by
  obtain ⟨c, r, rfl, hc⟩ := lexDate_head s _ hs
  have hd := lexDate_stop (c :: r) rest hr
  rw [hs] at hd
  rw [List.cons_append] at hd ⊢
  rw [lexOne_nonlower _ _ (isLower_of_isDigit hc) (isOpStart_of_isDigit hc),
    lexTail_plain _ _ (fun d hd => ne_of_pred hc ((by decide : ∀ d ∈ tailStartChars, isDigit d = false) d hd)), hd]
  simp [padW]

/-- Digits followed by a non-digit do not start a date, unless there are exactly four of them and
a `-` follows. -/
theorem lexDate_digits_none_stop (ds : List Char) (hd : ds.all isDigit = true) (rest : List Char)
    (hr : stopAt isDigit rest = true) (h4 : ds.length ≠ 4 ∨ stopAt (· == '-') rest = true) :
    lexDate (ds ++ rest) = none := by
  rw [lexDate_eq, lexDate', takeDigits_stop _ _ _ hr]
  cases h : takeDigits 4 ds with
  | none => rfl
  | some p =>
    have hp := takeDigits_some h
    have hdrop : ∀ x xs, List.drop 4 ds = x :: xs → isDigit x = true := fun x xs hr' =>
      (List.all_eq_true.mp hd) x (List.mem_of_mem_drop (hr' ▸ List.mem_cons_self ..))
    have : stripLit ['-'] (p.2 ++ rest) = none := by
      rw [hp]
      cases hr' : List.drop 4 ds with
      | nil =>
        rcases h4 with h4 | h4
        · exfalso
          unfold takeDigits at h
          have hlen : ds.length ≤ 4 := by simpa using hr'
          have : (List.take 4 ds).length = ds.length := by simp [List.length_take]; omega
          simp only [this] at h
          split at h
          · rename_i hh
            simp only [Bool.and_eq_true, decide_eq_true_eq] at hh
            exact h4 hh.1
          · cases h
        · rw [List.nil_append]
          cases rest with
          | nil => rfl
          | cons y r =>
            have : ¬ '-' = y := stopAt_eq_cons h4
            simp [stripLit, this]
      | cons x xs =>
        have := hdrop x xs hr'
        have hne : '-' ≠ x := (ne_of_pred this (by decide : isDigit '-' = false)).symm
        simp [stripLit, hne]
    simp [padW, this]

theorem lexOne_int_ok (ds : List Char) (hn : ds ≠ []) (hd : ds.all isDigit = true) (rest : List Char)
    (hr : stopAt isDigit rest = true) (h4 : ds.length ≠ 4 ∨ stopAt (· == '-') rest = true) :
    lexOne (ds ++ rest) = some (some (.int ds), rest) := by
  have hdate := lexDate_digits_none_stop ds hd rest hr h4
  have hsp := spanWhile_append_stopAt isDigit ds rest hd hr
  cases ds with
  | nil => exact absurd rfl hn
  | cons c r =>
    have hc : isDigit c = true := by simp only [List.all_cons, Bool.and_eq_true] at hd; exact hd.1
    rw [List.cons_append] at hdate hsp ⊢
    rw [lexOne_nonlower _ _ (isLower_of_isDigit hc) (isOpStart_of_isDigit hc),
      lexTail_plain _ _ (fun d hd => ne_of_pred hc ((by decide : ∀ d ∈ tailStartChars, isDigit d = false) d hd)), hdate]
    simp only [hc, if_true, hsp]

/-! ### Identifiers -/

theorem lexOne_ident_ok (c : Char) (r : List Char) (hc : isLower c = true) (hr : r.all isNameChar = true)
    (hk : c :: r ∉ keywordHeads) (hf : firstWord funcLits (c :: r) = none)
    (hh : stripLit "hex:".toList (c :: r) = none) (hb : firstWord boolLits (c :: r) = none)
    (rest : List Char) (hs : stopAt isNameChar rest = true) :
    lexOne (c :: r ++ rest) = some (some (.ident (String.ofList (c :: r))), rest) := by
  have hname : isNameChar c = true := by simp [isNameChar, hc]
  have hall : (c :: r).all isNameChar = true := by simp [hname, hr]
  have hw := stopAt_word_of_name hs
  have h1 := firstLit_keyword_stop (c :: r) rest hall hk hs
  have h2 := firstWord_stop isNameChar funcLits (c :: r) rest (by decide) hs hw
  have h3 := stripLit_stop isNameChar "hex:".toList (c :: r) rest (by decide) hs
  have h4 := firstWord_stop isNameChar boolLits (c :: r) rest (by decide) hs hw
  rw [hf] at h2; rw [hh] at h3; rw [hb] at h4
  have hspan := spanWhile_append_stopAt isNameChar r rest hr hs
  rw [List.cons_append] at h1 h2 h3 h4 ⊢
  rw [lexOne_tail _ _ h1 h2 h3 (isOpStart_of_isLower hc),
    lexTail_plain _ _ (fun d hd => ne_of_pred hc ((by decide : ∀ d ∈ tailStartChars, isLower d = false) d hd)),
    lexDate_nondigit _ _ (isDigit_of_isLower hc), h4]
  simp only [isDigit_of_isLower hc, Option.map_none, hc, if_true, hspan, Bool.false_eq_true, if_false]

/-! ### Punctuation -/

theorem stripLit2_none (a b c : Char) (rest : List Char)
    (h : c = a → stopAt (· == b) rest = true) : stripLit [a, b] (c :: rest) = none := by
  by_cases hca : c = a
  · subst hca
    cases rest with
    | nil => simp [stripLit]
    | cons x r => simp [stripLit, stopAt_eq_cons (h rfl)]
  · have : ¬ a = c := fun e => hca e.symm
    simp [stripLit, this]

theorem stopAt_punctFollow {c : Char} {rest : List Char} (h : okAfter (.punct c) rest = true) :
    ((c = '$' ∨ c = '{') → stopAt isNameChar rest = true) ∧
    (∀ d ∈ ['&', '|', '=', '/'], c = d → stopAt (· == d) rest = true) := by
  cases rest with
  | nil => simp [stopAt]
  | cons x r =>
    simp only [okAfter, canFollow, punctFollow] at h
    constructor
    · rintro (rfl | rfl) <;> simpa [stopAt] using h
    · intro d hd hcd
      subst hcd
      simp only [List.mem_cons, List.not_mem_nil, or_false] at hd
      rcases hd with rfl | rfl | rfl | rfl <;> simpa [stopAt] using h

theorem lexOne_punct_ok (c : Char) (hc : c ∈ wfPunct) (rest : List Char)
    (hr : okAfter (.punct c) rest = true) : lexOne (c :: rest) = some (some (.punct c), rest) := by
  have H1 : ∀ c ∈ wfPunct, isLower c = false ∧ isDigit c = false ∧ c ≠ '"' ∧ c ≠ ' ' ∧ c ≠ '\t' ∧
      c ≠ '\n' ∧ c ≠ '\r' ∧ c ∈ punctChars := by decide
  have H2 : ∀ c ∈ wfPunct, '.' ≠ c ∧ '<' ≠ c ∧ '>' ≠ c ∧ '+' ≠ c ∧ '-' ≠ c ∧ '*' ≠ c := by decide
  obtain ⟨a1, a2, a3, a4, a5, a6, a7, a8⟩ := H1 c hc
  obtain ⟨b1, b2, b3, b4, b5, b6⟩ := H2 c hc
  obtain ⟨h1, h2, h3⟩ := pre_nonlower c rest a1
  obtain ⟨hn, hd⟩ := stopAt_punctFollow hr
  have e3 : stripLit "||".toList (c :: rest) = none := by
    rw [show "||".toList = ['|', '|'] from by decide]
    exact stripLit2_none _ _ _ _ (hd '|' (by decide))
  have e4 : stripLit "&&".toList (c :: rest) = none := by
    rw [show "&&".toList = ['&', '&'] from by decide]
    exact stripLit2_none _ _ _ _ (hd '&' (by decide))
  have e6 : stripLit "//".toList (c :: rest) = none := by
    rw [show "//".toList = ['/', '/'] from by decide]
    exact stripLit2_none _ _ _ _ (hd '/' (by decide))
  have e5' : stripLit ['=', '='] (c :: rest) = none := stripLit2_none _ _ _ _ (hd '=' (by decide))
  have e5 : firstLit opLits (c :: rest) = none := by
    have e5'' : stripLit "==".toList (c :: rest) = none := by
      rw [show "==".toList = ['=', '='] from by decide]; exact e5'
    simp only [opLits, firstLit, e5'']
    simp [stripLit, b2, b3, b4, b5, b6]
  rw [lexOne_tail' c _ h1 h2 h3 (by simpa using Ne.symm b1) (by simp [stripLit, b2]) e3 e4 e5 e6]
  by_cases h1 : c = '$'
  · subst h1
    have := spanWhile_append_stopAt isNameChar [] rest rfl (hn (Or.inl rfl))
    simp only [List.nil_append] at this
    simp [lexTail, this]
  by_cases h2 : c = '{'
  · subst h2
    have := spanWhile_append_stopAt isNameChar [] rest rfl (hn (Or.inr rfl))
    simp only [List.nil_append] at this
    simp [lexTail, this]
  rw [lexTail_plain _ _ (by simp [tailStartChars, a3, h1, h2]), lexDate_nondigit _ _ a2,
    firstWord_bool_none _ _ a1]
  simp [a1, a2, a4, a5, a6, a7, a8]

/-! ### Blank runs -/

theorem isBlank_cases {c : Char} (hc : isBlank c = true) : c = ' ' ∨ c = '\t' ∨ c = '\n' ∨ c = '\r' := by
  simp only [isBlank, Bool.or_eq_true, beq_iff_eq] at hc
  rcases hc with ((h | h) | h) | h
  · exact Or.inl h
  · exact Or.inr (Or.inl h)
  · exact Or.inr (Or.inr (Or.inl h))
  · exact Or.inr (Or.inr (Or.inr h))

theorem lexOne_blank (c : Char) (hc : isBlank c = true) (rest : List Char) :
    lexOne (c :: rest) = some (none,
      if c == ' ' || c == '\t' then (spanWhile (fun x => x == ' ' || x == '\t') (c :: rest)).2
      else (spanWhile (fun x => x == '\n' || x == '\r') (c :: rest)).2) := by
  have hcases := isBlank_cases hc
  rcases hcases with rfl | rfl | rfl | rfl <;>
  · rw [lexOne_nonlower _ _ (by decide) (by decide), lexTail_plain _ _ (by decide),
      lexDate_nondigit _ _ (by decide), firstWord_bool_none _ _ (by decide)]
    simp [isDigit, isLower, spanWhile]

/-- The remainder of a span inside a blank prefix: a shorter blank prefix. -/
theorem spanWhile_blank_prefix (q : Char → Bool) (hq : ∀ c, q c = true → isBlank c = true)
    (g rest : List Char) (hg : g.all isBlank = true) (hr : stopAt isBlank rest = true) :
    ∃ g', (spanWhile q (g ++ rest)).2 = g' ++ rest ∧ g'.all isBlank = true ∧ g'.length ≤ g.length := by
  induction g with
  | nil =>
    refine ⟨[], ?_, rfl, Nat.le_refl _⟩
    have := spanWhile_append_stopAt q [] rest rfl (stopAt_mono hq hr)
    simpa using congrArg Prod.snd this
  | cons c g ih =>
    simp only [List.all_cons, Bool.and_eq_true] at hg
    obtain ⟨g', h1, h2, h3⟩ := ih hg.2
    simp only [List.cons_append, spanWhile]
    split
    · exact ⟨g', h1, h2, by simp only [List.length_cons]; omega⟩
    · exact ⟨c :: g, rfl, by simp [hg.1, hg.2], Nat.le_refl _⟩

/-- One step at a blank character elides a run of blanks of the prefix. -/
theorem lexOne_blank_prefix (c : Char) (g rest : List Char) (hc : isBlank c = true)
    (hg : g.all isBlank = true) (hr : stopAt isBlank rest = true) :
    ∃ g', lexOne (c :: g ++ rest) = some (none, g' ++ rest) ∧ g'.all isBlank = true ∧
      g'.length ≤ g.length := by
  rw [List.cons_append, lexOne_blank c hc]
  have hcases := isBlank_cases hc
  have q1 : ∀ x, (x == ' ' || x == '\t') = true → isBlank x = true := by
    intro x hx; simp only [Bool.or_eq_true] at hx; simp only [isBlank, Bool.or_eq_true]
    exact Or.inl (Or.inl hx)
  have q2 : ∀ x, (x == '\n' || x == '\r') = true → isBlank x = true := by
    intro x hx; simp only [Bool.or_eq_true] at hx; simp only [isBlank, Bool.or_eq_true]
    rcases hx with h | h
    · exact Or.inl (Or.inr h)
    · exact Or.inr h
  obtain ⟨g1, e1, f1, l1⟩ := spanWhile_blank_prefix _ q1 g rest hg hr
  obtain ⟨g2, e2, f2, l2⟩ := spanWhile_blank_prefix _ q2 g rest hg hr
  rcases hcases with rfl | rfl | rfl | rfl
  · exact ⟨g1, by simpa [spanWhile] using e1, f1, l1⟩
  · exact ⟨g1, by simpa [spanWhile] using e1, f1, l1⟩
  · exact ⟨g2, by simpa [spanWhile] using e2, f2, l2⟩
  · exact ⟨g2, by simpa [spanWhile] using e2, f2, l2⟩

/-! ### Fuel-free lexing -/

/-- `lexAux` without the fuel: the steps of `lexOne`, each consuming at least one character. -/
inductive Lexes : List Char → List Tok → Prop
  | nil : Lexes [] []
  | tok {cs rest : List Char} {t : Tok} {ts : List Tok} :
      lexOne cs = some (some t, rest) → rest.length < cs.length → Lexes rest ts → Lexes cs (t :: ts)
  | skip {cs rest : List Char} {ts : List Tok} :
      lexOne cs = some (none, rest) → rest.length < cs.length → Lexes rest ts → Lexes cs ts

theorem lexAux_of_Lexes {cs : List Char} {ts : List Tok} (h : Lexes cs ts) :
    ∀ fuel, cs.length < fuel → lexAux fuel cs = some ts := by
  induction h with
  | nil => intro fuel _; cases fuel <;> rfl
  | @tok cs rest t ts h1 hlen _ ih =>
    intro fuel hf
    obtain ⟨f, rfl⟩ : ∃ f, fuel = f + 1 := ⟨fuel - 1, by omega⟩
    cases cs with
    | nil => simp at hlen
    | cons c cs =>
      simp only [lexAux, h1, if_pos hlen, ih f (by omega)]
  | @skip cs rest ts h1 hlen _ ih =>
    intro fuel hf
    obtain ⟨f, rfl⟩ : ∃ f, fuel = f + 1 := ⟨fuel - 1, by omega⟩
    cases cs with
    | nil => simp at hlen
    | cons c cs =>
      simp only [lexAux, h1, if_pos hlen, ih f (by omega)]

theorem lex_of_Lexes {cs : List Char} {ts : List Tok} (h : Lexes cs ts) : lex cs = some ts :=
  lexAux_of_Lexes h _ (Nat.lt_succ_self _)

/-- A blank prefix is elided (the next token, if any, does not start with a blank). -/
theorem Lexes_blank_prefix (rest : List Char) (ts : List Tok) (hr : stopAt isBlank rest = true)
    (h : Lexes rest ts) : ∀ n (g : List Char), g.length ≤ n → g.all isBlank = true → Lexes (g ++ rest) ts := by
  intro n
  induction n with
  | zero =>
    intro g hl _
    have : g = [] := List.eq_nil_of_length_eq_zero (by omega)
    subst this; exact h
  | succ n ih =>
    intro g hl hg
    cases g with
    | nil => exact h
    | cons c g =>
      simp only [List.all_cons, Bool.and_eq_true] at hg
      simp only [List.length_cons] at hl
      obtain ⟨g', e, hg', hl'⟩ := lexOne_blank_prefix c g rest hg.1 hg.2 hr
      refine Lexes.skip e ?_ (ih g' (by omega) hg')
      simp only [List.length_append, List.length_cons]
      omega

end Biscuit.Grammar
