/-
Proofs/Authorizer — helper lemmas for C02, C03, C11, C13 (authorizer state machine).
-/
import BiscuitModel.Model.Authorizer
import BiscuitModel.Proofs.Datalog

namespace Biscuit

end Biscuit
