/-
Proofs/Authorizer — helper lemmas for C02, C03, C11, C13 (authorizer state machine).
-/
import BiscuitModel.Model.Authorizer
import BiscuitModel.Proofs.Datalog

namespace Biscuit

set_option linter.unusedSectionVars false

/-! ### Engine: bounds, monotonicity, error provenance -/

section Engine
variable {V E : Type} [DecidableEq V]

/-- The rule consumer never reports a run limit. -/
theorem applyCombos_err_ne_limit (ev : Bindings V → E → Outcome Bool) (r : Rule V E) :
    ∀ (cs : List (Bindings V)) (acc out : List (Fact V)) (e : RunErr),
    applyCombos ev r cs acc = (out, some e) → e ≠ .limitIter ∧ e ≠ .limitFacts := by
  intro cs
  induction cs with
  | nil => intro acc out e h; simp [applyCombos] at h
  | cons σ rest ih =>
    intro acc out e h
    simp only [applyCombos] at h
    split at h
    · simp only [Prod.mk.injEq, Option.some.injEq] at h
      obtain ⟨_, rfl⟩ := h
      exact ⟨nofun, nofun⟩
    · simp only [Prod.mk.injEq, Option.some.injEq] at h
      obtain ⟨_, rfl⟩ := h
      exact ⟨nofun, nofun⟩
    · exact ih _ _ _ h
    · split at h
      · simp only [Prod.mk.injEq, Option.some.injEq] at h
        obtain ⟨_, rfl⟩ := h
        exact ⟨nofun, nofun⟩
      · exact ih _ _ _ h

theorem stepAll_err_ne_limit (ev : Bindings V → E → Outcome Bool) (S : List (Fact V)) :
    ∀ (P : List (Rule V E)) (acc out : List (Fact V)) (e : RunErr),
    stepAll ev S P acc = (out, some e) → e ≠ .limitIter ∧ e ≠ .limitFacts := by
  intro P
  induction P with
  | nil => intro acc out e h; simp [stepAll] at h
  | cons r rs ih =>
    intro acc out e h
    simp only [stepAll] at h
    split at h
    · exact ih _ _ _ h
    · next acc' e' hr =>
      simp only [Prod.mk.injEq, Option.some.injEq] at h
      obtain ⟨_, rfl⟩ := h
      exact applyCombos_err_ne_limit ev r _ _ _ _ hr

theorem length_le_insertAll (s new : List (Fact V)) : s.length ≤ (insertAll s new).length := by
  obtain ⟨t, ht⟩ := insertAll_prefix new s
  rw [ht, List.length_append]; omega

/-- The world only grows during a run, whatever the outcome. -/
theorem run_subset (ev : Bindings V → E → Outcome Bool) (mf : Nat) (P : List (Rule V E)) :
    ∀ (n : Nat) (F W : List (Fact V)) (e : Option RunErr),
    run ev mf P n F = (W, e) → ∀ f ∈ F, f ∈ W := by
  intro n
  induction n with
  | zero =>
    intro F W e h f hf
    simp only [run, Prod.mk.injEq] at h
    rw [← h.1]; exact hf
  | succ n ih =>
    intro F W e h f hf
    simp only [run] at h
    split at h
    · simp only [Prod.mk.injEq] at h
      rw [← h.1]; exact hf
    · next new hs =>
      have hmem : f ∈ insertAll F new := (mem_insertAll new F f).2 (Or.inl hf)
      split at h
      · simp only [Prod.mk.injEq] at h
        rw [← h.1]; exact hmem
      · split at h
        · simp only [Prod.mk.injEq] at h
          rw [← h.1]; exact hmem
        · exact ih _ W e h f hmem

/-- Success stays strictly below the fact limit. -/
theorem run_ok_lt (ev : Bindings V → E → Outcome Bool) (mf : Nat) (P : List (Rule V E)) :
    ∀ (n : Nat) (F W : List (Fact V)), run ev mf P n F = (W, none) → W.length < mf := by
  intro n
  induction n with
  | zero => intro F W h; simp [run] at h
  | succ n ih =>
    intro F W h
    simp only [run] at h
    split at h
    · simp at h
    · next new hs =>
      split at h
      · simp at h
      · next hlt =>
        split at h
        · simp only [Prod.mk.injEq, and_true] at h
          subst h; omega
        · exact ih _ W h

/-- The fact-limit error is raised only when the limit was really reached. -/
theorem run_limitFacts_ge (ev : Bindings V → E → Outcome Bool) (mf : Nat) (P : List (Rule V E)) :
    ∀ (n : Nat) (F W : List (Fact V)), run ev mf P n F = (W, some .limitFacts) → W.length ≥ mf := by
  intro n
  induction n with
  | zero => intro F W h; simp [run] at h
  | succ n ih =>
    intro F W h
    simp only [run] at h
    split at h
    · next e hs =>
      simp only [Prod.mk.injEq, Option.some.injEq] at h
      obtain ⟨_, rfl⟩ := h
      exact absurd rfl (stepAll_err_ne_limit ev F P [] _ _ hs).2
    · next new hs =>
      split at h
      · next hge =>
        simp only [Prod.mk.injEq, and_true] at h
        subst h; exact hge
      · split at h
        · simp at h
        · exact ih _ W h

/-- A run that ends with the iteration limit has grown by at least one fact per round. -/
theorem run_limitIter_growth (ev : Bindings V → E → Outcome Bool) (mf : Nat) (P : List (Rule V E)) :
    ∀ (n : Nat) (F W : List (Fact V)), run ev mf P n F = (W, some .limitIter) →
      W.length ≥ F.length + n := by
  intro n
  induction n with
  | zero =>
    intro F W h
    simp only [run, Prod.mk.injEq, and_true] at h
    subst h; omega
  | succ n ih =>
    intro F W h
    simp only [run] at h
    split at h
    · next e hs =>
      simp only [Prod.mk.injEq, Option.some.injEq] at h
      obtain ⟨_, rfl⟩ := h
      exact absurd rfl (stepAll_err_ne_limit ev F P [] _ _ hs).1
    · next new hs =>
      split at h
      · simp at h
      · split at h
        · simp at h
        · next hne =>
          have h1 := ih _ W h
          have h2 := length_le_insertAll F new
          omega

end Engine

/-! ### Checks and single blocks -/

section Auth
variable (cfg : EvalCfg)

theorem failedFrom_map (facts : List DFact) (mk : Nat → CheckId) (f : CheckId → CheckId) :
    ∀ (cs : List Check) (i : Nat),
    (failedFrom cfg facts mk cs i).map f = failedFrom cfg facts (fun n => f (mk n)) cs i
  | [], _ => rfl
  | c :: cs, i => by
    simp only [failedFrom]
    split
    · exact failedFrom_map facts mk f cs (i + 1)
    · simp only [List.map_cons, failedFrom_map facts mk f cs (i + 1)]

theorem failedFrom_forall (facts : List DFact) (mk : Nat → CheckId) (Q : CheckId → Prop)
    (hmk : ∀ n, Q (mk n)) :
    ∀ (cs : List Check) (i : Nat), ∀ x ∈ failedFrom cfg facts mk cs i, Q x
  | [], _ => by intro x hx; simp [failedFrom] at hx
  | c :: cs, i => by
    intro x hx
    simp only [failedFrom] at hx
    split at hx
    · exact failedFrom_forall facts mk Q hmk cs (i + 1) x hx
    · rcases List.mem_cons.mp hx with rfl | hx
      · exact hmk i
      · exact failedFrom_forall facts mk Q hmk cs (i + 1) x hx

theorem failedChecks_map (facts : List DFact) (mk : Nat → CheckId) (f : CheckId → CheckId)
    (cs : List Check) :
    (failedChecks cfg facts mk cs).map f = failedChecks cfg facts (fun n => f (mk n)) cs :=
  failedFrom_map cfg facts mk f cs 0

/-- The failures of block `idx` are all tagged `block idx _`. -/
theorem evalBlock_ok_forall (lim : Limits) (base : List DFact) (b : Block) (idx : Nat)
    (l : List CheckId) (h : evalBlock cfg lim base b idx = .ok l) :
    ∀ x ∈ l, ∃ c, x = CheckId.block idx c := by
  simp only [evalBlock] at h
  split at h
  · cases h
  · simp only [Except.ok.injEq] at h
    subst h
    exact failedFrom_forall cfg _ _ _ (fun n => ⟨n, rfl⟩) _ _

/-- A block's evaluation succeeds only if its run completed. -/
theorem evalBlock_ok_run (lim : Limits) (base : List DFact) (b : Block) (idx : Nat)
    (l : List CheckId) (h : evalBlock cfg lim base b idx = .ok l) :
    (runWorld cfg lim { facts := insertAll base b.facts, rules := b.rules }).2 = none := by
  simp only [evalBlock] at h
  split at h
  · cases h
  · next heq => rw [heq]

theorem evalBlock_nochecks (lim : Limits) (base : List DFact) (b : Block) (idx : Nat)
    (hb : b.checks = []) (l : List CheckId) (h : evalBlock cfg lim base b idx = .ok l) : l = [] := by
  simp only [evalBlock] at h
  split at h
  · cases h
  · simp only [Except.ok.injEq] at h
    subst h
    rw [hb]; rfl

/-- Renumbering: the result of a block at position `idx` is the result at position
`idx'` with the block tag rewritten. -/
theorem evalBlock_shift (lim : Limits) (base : List DFact) (b : Block) (idx idx' : Nat)
    (f : CheckId → CheckId) (hf : ∀ c, f (.block idx' c) = .block idx c) :
    evalBlock cfg lim base b idx = Except.map (List.map f) (evalBlock cfg lim base b idx') := by
  simp only [evalBlock]
  split
  · rfl
  · simp only [Except.map, failedChecks_map]
    congr 2
    funext n
    exact (hf n).symm

/-! ### The block loop -/

theorem blockPhase_append (lim : Limits) (base : List DFact) :
    ∀ (bs bs' : List Block) (idx : Nat) (acc : List CheckId),
    blockPhase cfg lim base (bs ++ bs') idx acc =
      match blockPhase cfg lim base bs idx acc with
      | .error e => .error e
      | .ok acc' => blockPhase cfg lim base bs' (idx + bs.length) acc'
  | [], bs', idx, acc => by simp [blockPhase]
  | b :: bs, bs', idx, acc => by
    simp only [List.cons_append, blockPhase, List.length_cons]
    cases evalBlock cfg lim base b idx with
    | error e => rfl
    | ok failed =>
      simp only
      rw [blockPhase_append lim base bs bs' (idx + 1) (acc ++ failed)]
      have : idx + 1 + bs.length = idx + (bs.length + 1) := by omega
      rw [this]

/-- Failures only accumulate. -/
theorem blockPhase_prefix (lim : Limits) (base : List DFact) :
    ∀ (bs : List Block) (idx : Nat) (acc out : List CheckId),
    blockPhase cfg lim base bs idx acc = .ok out → acc <+: out
  | [], idx, acc, out, h => by
    simp only [blockPhase, Except.ok.injEq] at h
    subst h; exact List.prefix_refl _
  | b :: bs, idx, acc, out, h => by
    simp only [blockPhase] at h
    split at h
    · cases h
    · next failed _ =>
      exact (List.prefix_append acc failed).trans (blockPhase_prefix lim base bs _ _ _ h)

/-- The accumulator is only a prefix: what the loop appends does not depend on it. -/
theorem blockPhase_acc (lim : Limits) (base : List DFact) :
    ∀ (bs : List Block) (idx : Nat) (acc : List CheckId),
    blockPhase cfg lim base bs idx acc =
      Except.map (acc ++ ·) (blockPhase cfg lim base bs idx [])
  | [], idx, acc => by simp [blockPhase, Except.map]
  | b :: bs, idx, acc => by
    simp only [blockPhase]
    cases evalBlock cfg lim base b idx with
    | error e => rfl
    | ok failed =>
      simp only
      rw [blockPhase_acc lim base bs (idx + 1) (acc ++ failed),
        blockPhase_acc lim base bs (idx + 1) ([] ++ failed)]
      cases blockPhase cfg lim base bs (idx + 1) [] with
      | error e => rfl
      | ok t => simp [Except.map]

/-- A successful loop performed every block's run to completion. -/
theorem blockPhase_ok_runs (lim : Limits) (base : List DFact) :
    ∀ (bs : List Block) (idx : Nat) (acc out : List CheckId),
    blockPhase cfg lim base bs idx acc = .ok out →
    ∀ b ∈ bs, (runWorld cfg lim { facts := insertAll base b.facts, rules := b.rules }).2 = none
  | [], _, _, _, _ => by intro b hb; cases hb
  | b :: bs, idx, acc, out, h => by
    simp only [blockPhase] at h
    split at h
    · cases h
    · next failed he =>
      intro b' hb'
      rcases List.mem_cons.mp hb' with rfl | hb'
      · exact evalBlock_ok_run cfg lim base _ idx failed he
      · exact blockPhase_ok_runs lim base bs _ _ _ h b' hb'

/-- Decomposition of a successful loop around one block. -/
theorem blockPhase_mid (lim : Limits) (base : List DFact) (pre post : List Block) (b : Block)
    (idx : Nat) (acc out : List CheckId)
    (h : blockPhase cfg lim base (pre ++ b :: post) idx acc = .ok out) :
    ∃ a fb t, blockPhase cfg lim base pre idx acc = .ok a ∧
      evalBlock cfg lim base b (idx + pre.length) = .ok fb ∧
      blockPhase cfg lim base post (idx + pre.length + 1) [] = .ok t ∧
      out = a ++ fb ++ t := by
  rw [blockPhase_append] at h
  cases hpre : blockPhase cfg lim base pre idx acc with
  | error e => rw [hpre] at h; cases h
  | ok a =>
    rw [hpre] at h
    simp only [blockPhase] at h
    cases hb : evalBlock cfg lim base b (idx + pre.length) with
    | error e => rw [hb] at h; cases h
    | ok fb =>
      rw [hb] at h
      simp only at h
      rw [blockPhase_acc] at h
      cases ht : blockPhase cfg lim base post (idx + pre.length + 1) [] with
      | error e => rw [ht] at h; cases h
      | ok t =>
        rw [ht] at h
        simp only [Except.map, Except.ok.injEq] at h
        exact ⟨a, fb, t, rfl, rfl, rfl, h.symm⟩

/-- Renumbering the later blocks down by one. -/
theorem blockPhase_shift (lim : Limits) (base : List DFact) (f : CheckId → CheckId) :
    ∀ (bs : List Block) (idx : Nat) (acc : List CheckId),
    (∀ j c, idx ≤ j → f (.block (j + 1) c) = .block j c) →
    Except.map (List.map f) (blockPhase cfg lim base bs (idx + 1) acc) =
      blockPhase cfg lim base bs idx (acc.map f)
  | [], idx, acc, _ => by simp [blockPhase, Except.map]
  | b :: bs, idx, acc, hf => by
    simp only [blockPhase]
    rw [evalBlock_shift cfg lim base b idx (idx + 1) f (fun c => hf idx c (Nat.le_refl _))]
    cases evalBlock cfg lim base b (idx + 1) with
    | error e => rfl
    | ok failed =>
      simp only [Except.map]
      have := blockPhase_shift lim base f bs (idx + 1) (acc ++ failed)
        (fun j c hj => hf j c (by omega))
      rw [List.map_append] at this
      exact this

/-- A relabelling that fixes the tags of the blocks of a loop fixes its result. -/
theorem blockPhase_map_id (lim : Limits) (base : List DFact) (f : CheckId → CheckId) :
    ∀ (bs : List Block) (idx : Nat) (acc out : List CheckId),
    blockPhase cfg lim base bs idx acc = .ok out →
    (∀ j c, idx ≤ j → j < idx + bs.length → f (.block j c) = .block j c) →
    acc.map f = acc → out.map f = out
  | [], idx, acc, out, h, _, hacc => by
    simp only [blockPhase, Except.ok.injEq] at h
    subst h; exact hacc
  | b :: bs, idx, acc, out, h, hf, hacc => by
    simp only [blockPhase] at h
    split at h
    · cases h
    · next failed he =>
      refine blockPhase_map_id lim base f bs (idx + 1) (acc ++ failed) out h
        (fun j c h1 h2 => hf j c (by omega) (by simp only [List.length_cons]; omega)) ?_
      rw [List.map_append, hacc]
      congr 1
      have hall := evalBlock_ok_forall cfg lim base b idx failed he
      have : ∀ x ∈ failed, f x = x := by
        intro x hx
        obtain ⟨c, rfl⟩ := hall x hx
        exact hf idx c (Nat.le_refl _) (by simp only [List.length_cons]; omega)
      calc failed.map f = failed.map id := List.map_congr_left this
        _ = failed := List.map_id _

/-! ### `Authorize` -/

/-- Verdict from the policy result and the outcome of the block loop. -/
def finish (pol : Option PolicyKind) : Except RunErr (List CheckId) → Verdict
  | .error e => .runError e
  | .ok failed => if !failed.isEmpty then .checksFailed failed else policyVerdict pol

theorem authorizeWith_snd_ok (p : Bool) (tok : Token) (s : AuthState) (w : World)
    (ap : AuthorityPhase) (h : authorityPhase cfg tok.authority s = (w, .ok ap)) :
    (authorizeWith cfg p tok s).2 =
      finish ap.policy (blockPhase cfg s.limits w.facts tok.blocks 1 ap.failed) := by
  simp only [authorizeWith, h]
  cases blockPhase cfg s.limits w.facts tok.blocks 1 ap.failed with
  | error e => rfl
  | ok failed =>
    simp only [finish]
    split <;> rfl

theorem authorizeWith_snd_err (p : Bool) (tok : Token) (s : AuthState) (w : World)
    (e : RunErr) (h : authorityPhase cfg tok.authority s = (w, .error e)) :
    (authorizeWith cfg p tok s).2 = .runError e := by
  simp only [authorizeWith, h]

/-- The state left by the repaired `Authorize` is decided by the authority phase alone. -/
theorem authorizeWith_fst_false (tok : Token) (s : AuthState) :
    (authorizeWith cfg false tok s).1 =
      match authorityPhase cfg tok.authority s with
      | (w, .error _) => { s with world := w, dirty := true }
      | (w, .ok _) => { s with world := w, dirty := true } := by
  unfold authorizeWith
  split
  · next heq => rw [heq]
  · next heq =>
    rw [heq]
    simp only
    split
    · rfl
    · split <;> rfl

theorem authorizeWith_limits (p : Bool) (tok : Token) (s : AuthState) :
    (authorizeWith cfg p tok s).1.limits = s.limits := by
  unfold authorizeWith
  split
  · rfl
  · simp only
    split
    · rfl
    · split
      · rfl
      · cases p <;> rfl

theorem authorizeWith_baseWorld_false (tok : Token) (s : AuthState) :
    (authorizeWith cfg false tok s).1.baseWorld = s.baseWorld := by
  rw [authorizeWith_fst_false]
  split <;> rfl

theorem finish_eq_ok (pol : Option PolicyKind) (r : Except RunErr (List CheckId))
    (h : finish pol r = .ok) : r = .ok [] ∧ policyVerdict pol = .ok := by
  cases r with
  | error e => cases h
  | ok failed =>
    simp only [finish] at h
    split at h
    · cases h
    · next hne =>
      cases failed with
      | nil => exact ⟨rfl, h⟩
      | cons a l => simp at hne

theorem policyVerdict_ne_checksFailed (pol : Option PolicyKind) (ids : List CheckId) :
    policyVerdict pol ≠ .checksFailed ids := by
  cases pol with
  | none => nofun
  | some k => cases k <;> nofun

theorem policyVerdict_ne_runError (pol : Option PolicyKind) (e : RunErr) :
    policyVerdict pol ≠ .runError e := by
  cases pol with
  | none => nofun
  | some k => cases k <;> nofun

theorem finish_eq_checksFailed (pol : Option PolicyKind) (r : Except RunErr (List CheckId))
    (ids : List CheckId) (h : finish pol r = .checksFailed ids) : r = .ok ids := by
  cases r with
  | error e => cases h
  | ok failed =>
    simp only [finish] at h
    split at h
    · cases h; rfl
    · exact absurd h (policyVerdict_ne_checksFailed pol ids)

theorem finish_eq_runError (pol : Option PolicyKind) (r : Except RunErr (List CheckId))
    (e : RunErr) (h : finish pol r = .runError e) : r = .error e := by
  cases r with
  | error e' => cases h; rfl
  | ok failed =>
    simp only [finish] at h
    split at h
    · cases h
    · exact absurd h (policyVerdict_ne_runError pol e)

/-- Dropping a suffix of the later blocks keeps an acceptance. -/
theorem authorize_suffix_ok (A : Block) (bs Bs : List Block) (s : AuthState) :
    (authorize cfg ⟨A, bs ++ Bs⟩ s).2 = .ok → (authorize cfg ⟨A, bs⟩ s).2 = .ok := by
  intro h
  cases hap : authorityPhase cfg A s with
  | mk w r =>
    cases r with
    | error e =>
      rw [authorize, authorizeWith_snd_err cfg false ⟨A, bs ++ Bs⟩ s w e hap] at h
      cases h
    | ok ap =>
      rw [authorize, authorizeWith_snd_ok cfg false ⟨A, bs ++ Bs⟩ s w ap hap] at h
      rw [authorize, authorizeWith_snd_ok cfg false ⟨A, bs⟩ s w ap hap]
      obtain ⟨hb, hp⟩ := finish_eq_ok _ _ h
      simp only at hb
      rw [blockPhase_append] at hb
      cases hpre : blockPhase cfg s.limits w.facts bs 1 ap.failed with
      | error e => rw [hpre] at hb; cases hb
      | ok acc =>
        rw [hpre] at hb
        have hnil : acc = [] := List.prefix_nil.mp (blockPhase_prefix cfg _ _ _ _ _ _ hb)
        subst hnil
        simpa [finish] using hp

/-- The failures of the authority phase carry only `authorizer _` and `block 0 _` tags. -/
theorem authorityPhase_failed_map (A : Block) (s : AuthState) (w : World) (ap : AuthorityPhase)
    (h : authorityPhase cfg A s = (w, .ok ap)) (f : CheckId → CheckId)
    (hA : ∀ c, f (.authorizer c) = .authorizer c) (h0 : ∀ c, f (.block 0 c) = .block 0 c) :
    ap.failed.map f = ap.failed := by
  simp only [authorityPhase] at h
  split at h
  · simp at h
  · simp only [Prod.mk.injEq, Except.ok.injEq] at h
    obtain ⟨_, rfl⟩ := h
    simp only [List.map_append, failedChecks_map, hA, h0]

theorem query_limits (s : AuthState) (q : DRule) : (query cfg s q).1.limits = s.limits := by
  unfold query
  split <;> rfl

theorem query_baseWorld (s : AuthState) (q : DRule) :
    (query cfg s q).1.baseWorld = s.baseWorld := by
  unfold query
  split <;> rfl

/-! ### Histories -/

theorem stepOpSeq_limits (p : Bool) (toks : List Token) (st : SeqState) (op : AuthOp) :
    (stepOpSeq cfg p toks st op).1.auth.limits = st.auth.limits := by
  cases op with
  | addFact f => rfl
  | addRule r => rfl
  | addCheck c => rfl
  | addPolicy p => rfl
  | authorize => exact authorizeWith_limits cfg p _ _
  | query q =>
    have := query_limits cfg st.auth q
    simp only [stepOpSeq]
    split <;> (next heq => rw [heq] at this; exact this)
  | reset => rfl
  | saveLoad j =>
    simp only [stepOpSeq]
    split <;> rfl
  | loadSnap snap => rfl

/-- With the repaired `Authorize`, an empty base world stays empty. -/
theorem stepOpSeq_baseWorld (toks : List Token) (st : SeqState) (op : AuthOp)
    (h : st.auth.baseWorld = World.empty) :
    (stepOpSeq cfg false toks st op).1.auth.baseWorld = World.empty := by
  cases op with
  | addFact f => exact h
  | addRule r => exact h
  | addCheck c => exact h
  | addPolicy p => exact h
  | authorize => exact (authorizeWith_baseWorld_false cfg _ _).trans h
  | query q =>
    have := query_baseWorld cfg st.auth q
    simp only [stepOpSeq]
    split <;> (next heq => rw [heq] at this; exact this.trans h)
  | reset => exact h
  | saveLoad j =>
    simp only [stepOpSeq]
    split
    · exact h
    · rfl
  | loadSnap snap => exact h

/-- Final state of a history (same recursion as `C13.finalState`). -/
def seqFinal (p : Bool) (toks : List Token) : SeqState → List AuthOp → SeqState
  | st, [] => st
  | st, op :: ops => seqFinal p toks (stepOpSeq cfg p toks st op).1 ops

theorem seqFinal_invariant (toks : List Token) :
    ∀ (h : List AuthOp) (st : SeqState), st.auth.baseWorld = World.empty →
      (seqFinal cfg false toks st h).auth.baseWorld = World.empty ∧
      (seqFinal cfg false toks st h).auth.limits = st.auth.limits
  | [], st, hb => ⟨hb, rfl⟩
  | op :: ops, st, hb => by
    simp only [seqFinal]
    obtain ⟨h1, h2⟩ := seqFinal_invariant toks ops _ (stepOpSeq_baseWorld cfg toks st op hb)
    exact ⟨h1, h2.trans (stepOpSeq_limits cfg false toks st op)⟩

theorem runSeq_append (p : Bool) (toks : List Token) :
    ∀ (h k : List AuthOp) (st : SeqState),
    runSeq cfg p toks st (h ++ k) = runSeq cfg p toks st h ++ runSeq cfg p toks (seqFinal cfg p toks st h) k
  | [], k, st => rfl
  | op :: ops, k, st => by
    simp only [List.cons_append, runSeq, seqFinal, runSeq_append p toks ops k]

theorem reset_of_base (s : AuthState) (lim : Limits) (hb : s.baseWorld = World.empty)
    (hl : s.limits = lim) : reset s = AuthState.fresh lim := by
  simp only [reset, AuthState.fresh, hb, hl]

end Auth

end Biscuit
