/-
Proofs/SymbolsLemmas — symbol-table interning / resolution (C07 §3-5, C18 wire level).
-/
import BiscuitModel.Model.Symbols
import BiscuitModel.Spec.WireWF

namespace Biscuit
open Wire

/-! ## Operator codes -/

theorem sym_unary_code_roundtrip (u : UnOp) : unaryOfCode (unaryCode u) = some u := by
  cases u <;> rfl

theorem sym_binary_code_roundtrip (b : BinOp) : binaryOfCode (binaryCode b) = some b := by
  cases b <;> rfl

theorem sym_unary_code_unique (k : Nat) (u : UnOp) (h : unaryOfCode k = some u) : unaryCode u = k := by
  unfold unaryOfCode at h
  split at h <;> first | (cases h; rfl) | cases h

theorem sym_binary_code_unique (k : Nat) (b : BinOp) (h : binaryOfCode k = some b) : binaryCode b = k := by
  unfold binaryOfCode at h
  split at h <;> first | (cases h; rfl) | cases h

theorem sym_policyKind_roundtrip (k : PolicyKind) : policyKindOfCode (policyKindCode k) = some k := by
  cases k <;> rfl

theorem sym_version_gate (v : Option Nat) : versionOk v = true ↔ v = some 3 := by
  cases v with
  | none => simp [versionOk, minSchemaVersion, maxSchemaVersion]
  | some n =>
    simp only [versionOk, minSchemaVersion, maxSchemaVersion, Option.getD_some, Bool.and_eq_true,
      Option.some.injEq]
    constructor
    · rintro ⟨h1, h2⟩
      have := of_decide_eq_true h1; have := of_decide_eq_true h2; omega
    · intro h; subst h; exact ⟨rfl, rfl⟩

/-! ## Symbol tables -/

theorem sym_defaultSymbols_length : defaultSymbols.length = 28 := by
  simp [defaultSymbols, defaultSymbolNames]

theorem sym_idxOf?_some {l : List Bytes} {s : Bytes} {i : Nat} (h : l.idxOf? s = some i) :
    l[i]? = some s := by
  unfold List.idxOf? at h
  obtain ⟨hi, hp, _⟩ := List.findIdx?_eq_some_iff_getElem.mp h
  rw [List.getElem?_eq_getElem hi]
  simpa using hp

theorem sym_append_prefix_stable (t ext : SymTable) (i : Nat) (x : Bytes) (h : symStr t i = some x) :
    symStr (t ++ ext) i = some x := by
  unfold symStr at h ⊢
  split
  · rename_i hi; rwa [if_pos hi] at h
  · rename_i hi
    rw [if_neg hi] at h
    have hlt : i - symOffset < t.length := by
      rcases Nat.lt_or_ge (i - symOffset) t.length with h' | h'
      · exact h'
      · rw [List.getElem?_eq_none h'] at h; cases h
    rw [List.getElem?_append_left hlt]; exact h

theorem sym_symIndex_some {t : SymTable} {s : Bytes} {i : Nat} (h : symIndex t s = some i) :
    symStr t i = some s := by
  unfold symIndex at h
  split at h
  · rename_i _ j hj
    cases h
    have := sym_idxOf?_some hj
    have hlt : i < defaultSymbols.length := by
      rcases Nat.lt_or_ge i defaultSymbols.length with h' | h'
      · exact h'
      · rw [List.getElem?_eq_none h'] at this; cases this
    rw [sym_defaultSymbols_length] at hlt
    unfold symStr
    rw [if_pos (by unfold symOffset; omega)]; exact this
  · cases hj : t.idxOf? s with
    | none => rw [hj] at h; cases h
    | some j =>
      rw [hj] at h
      simp only [Option.map_some, Option.some.injEq] at h
      subst h
      unfold symStr
      rw [if_neg (by omega), Nat.add_sub_cancel]
      exact sym_idxOf?_some hj

theorem sym_symIndex_none {t : SymTable} {s : Bytes} (h : symIndex t s = none) :
    s ∉ defaultSymbols ∧ s ∉ t := by
  unfold symIndex at h
  split at h
  · cases h
  · rename_i hd
    constructor
    · exact List.idxOf?_eq_none_iff.mp hd
    · cases hj : t.idxOf? s with
      | none => exact List.idxOf?_eq_none_iff.mp hj
      | some j => rw [hj] at h; cases h

theorem sym_symInsert_ext (t : SymTable) (s : Bytes) : ∃ ext, (symInsert t s).1 = t ++ ext := by
  unfold symInsert
  split
  · exact ⟨[], by simp⟩
  · exact ⟨[s], rfl⟩

theorem sym_symInsert_resolves (t : SymTable) (s : Bytes) (h : TableOK t) :
    symStr (symInsert t s).1 (symInsert t s).2 = some s ∧ TableOK (symInsert t s).1 := by
  unfold symInsert
  split
  · rename_i i hi
    exact ⟨sym_symIndex_some hi, h⟩
  · rename_i hn
    obtain ⟨hd, ht⟩ := sym_symIndex_none hn
    constructor
    · simp only [symStr]
      rw [if_neg (by omega), Nat.add_sub_cancel_left]
      simp
    · constructor
      · rw [List.nodup_append]
        refine ⟨h.1, by simp, ?_⟩
        intro a ha b hb
        rw [List.mem_singleton] at hb; subst hb
        intro hab; subst hab; exact ht ha
      · intro x hx
        rcases List.mem_append.mp hx with hx | hx
        · exact h.2 x hx
        · rw [List.mem_singleton] at hx; subst hx; exact hd

theorem sym_symInsert_prefix_stable (t : SymTable) (s : Bytes) (i : Nat) (x : Bytes)
    (h : symStr t i = some x) : symStr (symInsert t s).1 i = some x := by
  obtain ⟨ext, he⟩ := sym_symInsert_ext t s
  rw [he]; exact sym_append_prefix_stable t ext i x h

/-! ## Interning against resolution -/

theorem sym_tableOK_nil : TableOK [] := ⟨List.nodup_nil, by intro s hs; cases hs⟩

/-- Combined specification of an interning function against a resolver. -/
def SymInternOK {α β : Type} (intern : SymTable → α → SymTable × β) (resolve : SymTable → β → Option α) : Prop :=
  ∀ t x, TableOK t → (∃ ext, (intern t x).1 = t ++ ext) ∧ TableOK (intern t x).1 ∧
    ∀ ext', resolve ((intern t x).1 ++ ext') (intern t x).2 = some x

def symInternList {α β : Type} (f : SymTable → α → SymTable × β) : SymTable → List α → SymTable × List β
  | t, [] => (t, [])
  | t, x :: xs =>
    let r := f t x
    let rs := symInternList f r.1 xs
    (rs.1, r.2 :: rs.2)

theorem sym_internList_ok {α β : Type} {f : SymTable → α → SymTable × β} {g : SymTable → β → Option α}
    (h : SymInternOK f g) : SymInternOK (symInternList f) (fun t l => l.mapM (g t)) := by
  intro t l
  induction l generalizing t with
  | nil => intro ht; exact ⟨⟨[], by simp [symInternList]⟩, ht, fun _ => rfl⟩
  | cons x xs ih =>
    intro ht
    obtain ⟨⟨e1, he1⟩, hok1, hr1⟩ := h t x ht
    obtain ⟨⟨e2, he2⟩, hok2, hr2⟩ := ih (f t x).1 hok1
    dsimp only at hr2
    refine ⟨⟨e1 ++ e2, ?_⟩, hok2, ?_⟩
    · simp only [symInternList]; rw [he2, he1, List.append_assoc]
    · intro ext'
      simp only [symInternList, List.mapM_cons]
      rw [hr2 ext']
      rw [he2, List.append_assoc, hr1]
      rfl

theorem sym_symInsert_ok : SymInternOK symInsert symStr := by
  intro t s ht
  obtain ⟨h1, h2⟩ := sym_symInsert_resolves t s ht
  exact ⟨sym_symInsert_ext t s, h2, fun ext' => sym_append_prefix_stable _ _ _ _ h1⟩

theorem sym_internAtoms_eq : internAtoms = symInternList internAtom := by
  funext t l
  induction l generalizing t with
  | nil => rfl
  | cons a as ih => simp only [internAtoms, symInternList, ih]

theorem sym_internAtom_ok : SymInternOK internAtom resolveAtom := by
  intro t a ht
  cases a with
  | str s =>
    obtain ⟨h1, h2, h3⟩ := sym_symInsert_ok t s ht
    refine ⟨h1, h2, fun ext' => ?_⟩
    simp only [internAtom, resolveAtom, h3 ext']; rfl
  | int i => exact ⟨⟨[], by simp [internAtom]⟩, ht, fun _ => rfl⟩
  | date i => exact ⟨⟨[], by simp [internAtom]⟩, ht, fun _ => rfl⟩
  | bytes i => exact ⟨⟨[], by simp [internAtom]⟩, ht, fun _ => rfl⟩
  | bool i => exact ⟨⟨[], by simp [internAtom]⟩, ht, fun _ => rfl⟩

theorem sym_internAtoms_ok : SymInternOK internAtoms (fun t l => l.mapM (resolveAtom t)) := by
  rw [sym_internAtoms_eq]; exact sym_internList_ok sym_internAtom_ok

theorem sym_resolveTerm_atom (t : SymTable) (a : Atom) (t0 : SymTable) :
    resolveTerm t (.atom (internAtom t0 a).2) = (resolveAtom t (internAtom t0 a).2).map fun x => Term.const (.atom x) := by
  cases a <;> rfl

theorem sym_internTerm_ok : SymInternOK internTerm resolveTerm := by
  intro t x ht
  match x with
  | .var n =>
    obtain ⟨h1, h2, h3⟩ := sym_symInsert_ok t n ht
    refine ⟨h1, h2, fun ext' => ?_⟩
    simp only [internTerm, resolveTerm, h3 ext']; rfl
  | .const (.atom a) =>
    obtain ⟨h1, h2, h3⟩ := sym_internAtom_ok t a ht
    refine ⟨h1, h2, fun ext' => ?_⟩
    simp only [internTerm, sym_resolveTerm_atom, h3 ext']; rfl
  | .const (.set l) =>
    obtain ⟨h1, h2, h3⟩ := sym_internAtoms_ok t l ht
    dsimp only at h3
    refine ⟨h1, h2, fun ext' => ?_⟩
    simp only [internTerm, resolveTerm, h3 ext']; rfl

theorem sym_internTerms_eq : internTerms = symInternList internTerm := by
  funext t l
  induction l generalizing t with
  | nil => rfl
  | cons a as ih => simp only [internTerms, symInternList, ih]

theorem sym_internTerms_ok : SymInternOK internTerms (fun t l => l.mapM (resolveTerm t)) := by
  rw [sym_internTerms_eq]; exact sym_internList_ok sym_internTerm_ok

theorem sym_internPred_ok : SymInternOK internPred resolvePred := by
  intro t p ht
  obtain ⟨⟨e1, he1⟩, hok1, hr1⟩ := sym_internTerms_ok t p.terms ht
  dsimp only at hr1
  obtain ⟨⟨e2, he2⟩, hok2, hr2⟩ := sym_symInsert_ok (internTerms t p.terms).1 p.name hok1
  refine ⟨⟨e1 ++ e2, ?_⟩, hok2, fun ext' => ?_⟩
  · simp only [internPred]; rw [he2, he1, List.append_assoc]
  · simp only [internPred, resolvePred, hr2 ext']
    rw [he2, List.append_assoc, hr1]
    rfl



theorem sym_mapM_termGround (args : List Val) : (args.map Term.const).mapM termGround = some args := by
  induction args with
  | nil => rfl
  | cons a as ih => simp only [List.map_cons, List.mapM_cons, termGround, ih]; rfl

theorem sym_internFact_ok : SymInternOK internFact resolveFact := by
  intro t f ht
  obtain ⟨h1, h2, h3⟩ := sym_internPred_ok t { name := f.name, terms := f.args.map Term.const } ht
  refine ⟨h1, h2, fun ext' => ?_⟩
  simp only [internFact, resolveFact, h3 ext', Option.bind_eq_bind, Option.bind_some, sym_mapM_termGround]
  rfl

theorem sym_internPreds_eq : internPreds = symInternList internPred := by
  funext t l
  induction l generalizing t with
  | nil => rfl
  | cons a as ih => simp only [internPreds, symInternList, ih]

theorem sym_internPreds_ok : SymInternOK internPreds (fun t l => l.mapM (resolvePred t)) := by
  rw [sym_internPreds_eq]; exact sym_internList_ok sym_internPred_ok

theorem sym_internOp_ok : SymInternOK internOp resolveOp := by
  intro t o ht
  cases o with
  | value x =>
    obtain ⟨h1, h2, h3⟩ := sym_internTerm_ok t x ht
    refine ⟨h1, h2, fun ext' => ?_⟩
    simp only [internOp, resolveOp, h3 ext']; rfl
  | unary u =>
    refine ⟨⟨[], by simp [internOp]⟩, ht, fun _ => ?_⟩
    simp only [internOp, resolveOp, sym_unary_code_roundtrip]; rfl
  | binary b =>
    refine ⟨⟨[], by simp [internOp]⟩, ht, fun _ => ?_⟩
    simp only [internOp, resolveOp, sym_binary_code_roundtrip]; rfl

theorem sym_internExpr_eq : internExpr = symInternList internOp := by
  funext t l
  induction l generalizing t with
  | nil => rfl
  | cons a as ih => simp only [internExpr, symInternList, ih]

theorem sym_internExpr_ok : SymInternOK internExpr (fun t (e : List IOp) => e.mapM (resolveOp t)) := by
  rw [sym_internExpr_eq]; exact sym_internList_ok sym_internOp_ok

theorem sym_internExprs_eq : internExprs = symInternList internExpr := by
  funext t l
  induction l generalizing t with
  | nil => rfl
  | cons a as ih => simp only [internExprs, symInternList, ih]

theorem sym_internExprs_ok :
    SymInternOK internExprs (fun t (l : List (List IOp)) => l.mapM fun e => e.mapM (resolveOp t)) := by
  rw [sym_internExprs_eq]; exact sym_internList_ok sym_internExpr_ok

theorem sym_internRule_ok : SymInternOK internRule resolveRule := by
  intro t r ht
  obtain ⟨⟨e1, he1⟩, hok1, hr1⟩ := sym_internPreds_ok t r.body ht
  obtain ⟨⟨e2, he2⟩, hok2, hr2⟩ := sym_internExprs_ok (internPreds t r.body).1 r.exprs hok1
  obtain ⟨⟨e3, he3⟩, hok3, hr3⟩ := sym_internPred_ok (internExprs (internPreds t r.body).1 r.exprs).1 r.head hok2
  dsimp only at hr1 hr2
  refine ⟨⟨e1 ++ e2 ++ e3, ?_⟩, hok3, fun ext' => ?_⟩
  · simp only [internRule]; rw [he3, he2, he1]; simp only [List.append_assoc]
  · simp only [internRule, resolveRule, hr3 ext', Option.bind_eq_bind, Option.bind_some]
    rw [he3, List.append_assoc, hr2, he2, List.append_assoc, hr1]
    rfl

theorem sym_internRules_eq : internRules = symInternList internRule := by
  funext t l
  induction l generalizing t with
  | nil => rfl
  | cons a as ih => simp only [internRules, symInternList, ih]

theorem sym_internRules_ok : SymInternOK internRules (fun t l => l.mapM (resolveRule t)) := by
  rw [sym_internRules_eq]; exact sym_internList_ok sym_internRule_ok

theorem sym_internCheck_ok : SymInternOK internCheck resolveCheck := by
  intro t c ht
  obtain ⟨h1, h2, h3⟩ := sym_internRules_ok t c.queries ht
  dsimp only at h3
  refine ⟨h1, h2, fun ext' => ?_⟩
  simp only [internCheck, resolveCheck, h3 ext']; rfl

theorem sym_internChecks_eq : internChecks = symInternList internCheck := by
  funext t l
  induction l generalizing t with
  | nil => rfl
  | cons a as ih => simp only [internChecks, symInternList, ih]

theorem sym_internChecks_ok : SymInternOK internChecks (fun t l => l.mapM (resolveCheck t)) := by
  rw [sym_internChecks_eq]; exact sym_internList_ok sym_internCheck_ok

theorem sym_internFacts_eq : internFacts = symInternList internFact := by
  funext t l
  induction l generalizing t with
  | nil => rfl
  | cons a as ih => simp only [internFacts, symInternList, ih]

theorem sym_internFacts_ok : SymInternOK internFacts (fun t l => l.mapM (resolveFact t)) := by
  rw [sym_internFacts_eq]; exact sym_internList_ok sym_internFact_ok

theorem sym_internPolicy_ok : SymInternOK internPolicy resolvePolicy := by
  intro t p ht
  obtain ⟨h1, h2, h3⟩ := sym_internRules_ok t p.queries ht
  dsimp only at h3
  refine ⟨h1, h2, fun ext' => ?_⟩
  simp only [internPolicy, resolvePolicy, h3 ext', sym_policyKind_roundtrip]; rfl

theorem sym_internPolicies_eq : internPolicies = symInternList internPolicy := by
  funext t l
  induction l generalizing t with
  | nil => rfl
  | cons a as ih => simp only [internPolicies, symInternList, ih]

theorem sym_internPolicies_ok : SymInternOK internPolicies (fun t l => l.mapM (resolvePolicy t)) := by
  rw [sym_internPolicies_eq]; exact sym_internList_ok sym_internPolicy_ok



theorem sym_fresh_of_tableOK (t ext : SymTable) (h : TableOK (t ++ ext)) : freshSymbols t ext = true := by
  obtain ⟨hnd, hdef⟩ := h
  rw [List.nodup_append] at hnd
  obtain ⟨_, hne, hdisj⟩ := hnd
  simp only [freshSymbols, Bool.and_eq_true, List.all_eq_true, Bool.not_eq_true', decide_eq_true_eq]
  refine ⟨fun s hs => ⟨?_, ?_⟩, hne⟩
  · have := hdef s (List.mem_append_right _ hs)
    simpa using this
  · have : s ∉ t := fun hst => hdisj s hst s hs rfl
    simpa using this

theorem sym_buildBlock_resolves (t : SymTable) (ht : TableOK t) (c : BlockContent) :
    (buildBlockMsg t c).1 = t ++ (buildBlockMsg t c).2.symbols ∧ TableOK (buildBlockMsg t c).1 ∧
    freshSymbols t (buildBlockMsg t c).2.symbols = true ∧
    (buildBlockMsg t c).2.version = some 3 ∧ resolveBlock (buildBlockMsg t c).1 (buildBlockMsg t c).2 = some c := by
  obtain ⟨⟨e1, he1⟩, hok1, hr1⟩ := sym_internFacts_ok t c.block.facts ht
  obtain ⟨⟨e2, he2⟩, hok2, hr2⟩ := sym_internRules_ok (internFacts t c.block.facts).1 c.block.rules hok1
  obtain ⟨⟨e3, he3⟩, hok3, hr3⟩ := sym_internChecks_ok (internRules (internFacts t c.block.facts).1 c.block.rules).1 c.block.checks hok2
  dsimp only at hr1 hr2 hr3
  have hk : (internChecks (internRules (internFacts t c.block.facts).1 c.block.rules).1 c.block.checks).1 = t ++ (e1 ++ e2 ++ e3) := by
    rw [he3, he2, he1]; simp only [List.append_assoc]
  have hsym : (buildBlockMsg t c).2.symbols = e1 ++ e2 ++ e3 := by
    simp only [buildBlockMsg]; rw [hk, List.drop_left]
  have h1 : (buildBlockMsg t c).1 = t ++ (e1 ++ e2 ++ e3) := hk
  refine ⟨by rw [hsym, h1], hok3, ?_, rfl, ?_⟩
  · rw [hsym]; apply sym_fresh_of_tableOK; rw [← hk]; exact hok3
  · simp only [buildBlockMsg, resolveBlock]
    have hv : versionOk (some 3) = true := (sym_version_gate _).mpr rfl
    have f3 := hr3 []
    have f2 := hr2 (e3 ++ [])
    have f1 := hr1 (e2 ++ (e3 ++ []))
    rw [← List.append_assoc, ← he3] at f2
    rw [← List.append_assoc, ← he2, ← List.append_assoc, ← he3] at f1
    simp only [List.append_nil] at f1 f2 f3
    simp only [hv, f1, f2, f3, Option.bind_eq_bind, Option.bind_some, Bool.not_true, Bool.false_eq_true, if_false]
    rfl

theorem sym_build_then_resolve (cs : List BlockContent) : ∀ (t : SymTable), TableOK t →
    resolveBlocks t (buildBlockMsgs t cs) = some cs := by
  induction cs with
  | nil => intro t _; rfl
  | cons c cs ih =>
    intro t ht
    obtain ⟨h1, h2, h3, _, h5⟩ := sym_buildBlock_resolves t ht c
    simp only [buildBlockMsgs, resolveBlocks, h3, if_true]
    rw [← h1, h5]
    simp only [ih _ h2]
    rfl

theorem sym_snapshot_build_then_resolve (snap : Snapshot) :
    resolveSnapshot (buildSnapshotMsg snap) = some snap := by
  obtain ⟨⟨e1, he1⟩, hok1, hr1⟩ := sym_internFacts_ok [] snap.facts sym_tableOK_nil
  obtain ⟨⟨e2, he2⟩, hok2, hr2⟩ := sym_internRules_ok (internFacts [] snap.facts).1 snap.rules hok1
  obtain ⟨⟨e3, he3⟩, hok3, hr3⟩ := sym_internChecks_ok (internRules (internFacts [] snap.facts).1 snap.rules).1 snap.checks hok2
  obtain ⟨⟨e4, he4⟩, hok4, hr4⟩ := sym_internPolicies_ok
    (internChecks (internRules (internFacts [] snap.facts).1 snap.rules).1 snap.checks).1 snap.policies hok3
  dsimp only at hr1 hr2 hr3 hr4
  have f4 := hr4 []
  have f3 := hr3 (e4 ++ [])
  have f2 := hr2 (e3 ++ (e4 ++ []))
  have f1 := hr1 (e2 ++ (e3 ++ (e4 ++ [])))
  rw [← List.append_assoc, ← he4] at f3
  rw [← List.append_assoc, ← he3, ← List.append_assoc, ← he4] at f2
  rw [← List.append_assoc, ← he2, ← List.append_assoc, ← he3, ← List.append_assoc, ← he4] at f1
  simp only [List.append_nil] at f1 f2 f3 f4
  have hfresh : freshSymbols [] (internPolicies
      (internChecks (internRules (internFacts [] snap.facts).1 snap.rules).1 snap.checks).1 snap.policies).1 = true := by
    apply sym_fresh_of_tableOK
    rw [List.nil_append]; exact hok4
  simp only [buildSnapshotMsg, resolveSnapshot, hfresh, f1, f2, f3, f4, Option.bind_eq_bind, Option.bind_some,
    Bool.not_true, Bool.false_eq_true, if_false, ne_eq, not_true_eq_false]
  rfl

theorem sym_load_rejects_other_versions (m : PoliciesMsg) (h : m.version ≠ some 3) : resolveSnapshot m = none := by
  simp only [resolveSnapshot, h, ne_eq, not_false_eq_true, if_true]
  rfl


end Biscuit
