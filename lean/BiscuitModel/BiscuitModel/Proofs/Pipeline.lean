/-
Proofs/Pipeline — helper lemmas for C10.
-/
import BiscuitModel.Model.Pipeline
import BiscuitModel.Proofs.Expr
import BiscuitModel.Proofs.Authorizer

namespace Biscuit

end Biscuit
