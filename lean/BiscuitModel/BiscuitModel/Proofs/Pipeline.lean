/-
Proofs/Pipeline — helper lemmas for C10.
-/
import BiscuitModel.Model.Pipeline
import BiscuitModel.Proofs.Expr
import BiscuitModel.Proofs.Authorizer

namespace Biscuit
open Wire

/-! ### Resolution never panics in the repaired code -/

theorem symStrGo_false_no_panic (t : SymTable) (i : Nat) : (symStrGo false t i).isPanic = false := by
  simp [symStrGo, Outcome.isPanic]

theorem mapMOutcome_no_panic {α β : Type} (f : α → Outcome β) (hf : ∀ a, (f a).isPanic = false) :
    ∀ l : List α, (mapMOutcome f l).isPanic = false := by
  intro l
  induction l with
  | nil => rfl
  | cons x xs ih =>
    simp only [mapMOutcome]
    exact Outcome.isPanic_bind (hf x) fun _ => Outcome.isPanic_bind ih fun _ => rfl

theorem resolveAtomL_no_panic (t : SymTable) (a : IAtom) : (resolveAtomL false t a).isPanic = false := by
  cases a <;> simp only [resolveAtomL] <;>
    first
    | rfl
    | exact Outcome.isPanic_bind (symStrGo_false_no_panic t _) fun _ => rfl

theorem resolveTermL_no_panic (t : SymTable) (x : ITerm) : (resolveTermL false t x).isPanic = false := by
  cases x with
  | atom a =>
    cases a <;> simp only [resolveTermL] <;>
      first
      | exact Outcome.isPanic_bind (symStrGo_false_no_panic t _) fun _ => rfl
      | exact Outcome.isPanic_bind (resolveAtomL_no_panic t _) fun _ => rfl
  | set l =>
    simp only [resolveTermL]
    exact Outcome.isPanic_bind (mapMOutcome_no_panic _ (resolveAtomL_no_panic t) l) fun _ => rfl

theorem resolvePredL_no_panic (t : SymTable) (q : IPred) : (resolvePredL false t q).isPanic = false := by
  unfold resolvePredL
  exact Outcome.isPanic_bind (symStrGo_false_no_panic t _) fun _ =>
    Outcome.isPanic_bind (mapMOutcome_no_panic _ (resolveTermL_no_panic t) _) fun _ => rfl

theorem resolveFactL_no_panic (t : SymTable) (q : IPred) : (resolveFactL false t q).isPanic = false := by
  unfold resolveFactL
  exact Outcome.isPanic_bind (resolvePredL_no_panic t q) fun _ => rfl

theorem resolveOpL_no_panic (t : SymTable) (o : IOp) : (resolveOpL false t o).isPanic = false := by
  cases o with
  | value x =>
    simp only [resolveOpL]
    exact Outcome.isPanic_bind (resolveTermL_no_panic t x) fun _ => rfl
  | unary k => rfl
  | binary k => rfl

theorem resolveRuleL_no_panic (t : SymTable) (r : IRule) : (resolveRuleL false t r).isPanic = false := by
  unfold resolveRuleL
  exact Outcome.isPanic_bind (resolvePredL_no_panic t _) fun _ =>
    Outcome.isPanic_bind (mapMOutcome_no_panic _ (resolvePredL_no_panic t) _) fun _ =>
    Outcome.isPanic_bind
      (mapMOutcome_no_panic _ (fun e => mapMOutcome_no_panic _ (resolveOpL_no_panic t) e) _) fun _ => rfl

theorem resolveCheckL_no_panic (t : SymTable) (c : ICheck) : (resolveCheckL false t c).isPanic = false := by
  unfold resolveCheckL
  exact Outcome.isPanic_bind (mapMOutcome_no_panic _ (resolveRuleL_no_panic t) _) fun _ => rfl

theorem resolveBlockL_no_panic (t : SymTable) (m : BlockMsg) : (resolveBlockL false t m).isPanic = false := by
  unfold resolveBlockL
  exact Outcome.isPanic_bind (mapMOutcome_no_panic _ (resolveFactL_no_panic t) _) fun _ =>
    Outcome.isPanic_bind (mapMOutcome_no_panic _ (resolveRuleL_no_panic t) _) fun _ =>
    Outcome.isPanic_bind (mapMOutcome_no_panic _ (resolveCheckL_no_panic t) _) fun _ => rfl

theorem resolveTokenL_no_panic (msgs : List BlockMsg) : (resolveTokenL false msgs).isPanic = false := by
  unfold resolveTokenL
  exact mapMOutcome_no_panic _ (resolveBlockL_no_panic _) msgs

/-! ### Proof check -/

theorem verifyProofGo_false_no_panic (S : SigScheme) (current : Bytes) (e : BiscuitMsg) :
    (verifyProofGo false S current e).isPanic = false := by
  unfold verifyProofGo
  split
  · split <;> rfl
  · rfl

/-! ### Engine: a panic of the run is a panic of an expression -/

section Engine
variable {V E : Type} [DecidableEq V]

omit [DecidableEq V] in
theorem checkExprs_ne_panic (ev : Bindings V → E → Outcome Bool)
    (hev : ∀ σ e, (ev σ e).isPanic = false) (σ : Bindings V) (site : PanicSite) :
    ∀ es : List E, checkExprs ev σ es ≠ .panic site := by
  intro es
  induction es with
  | nil => intro h; cases h
  | cons e es ih =>
    intro h
    simp only [checkExprs] at h
    have he := hev σ e
    split at h
    · exact ih h
    · cases h
    · cases h
    · next s hs => rw [hs] at he; cases he

theorem applyCombos_ne_panic (ev : Bindings V → E → Outcome Bool)
    (hev : ∀ σ e, (ev σ e).isPanic = false) (r : Rule V E) (site : PanicSite) :
    ∀ (cs : List (Bindings V)) (acc out : List (Fact V)),
    applyCombos ev r cs acc ≠ (out, some (.panic site)) := by
  intro cs
  induction cs with
  | nil => intro acc out h; simp [applyCombos] at h
  | cons σ rest ih =>
    intro acc out h
    simp only [applyCombos] at h
    split at h
    · simp only [Prod.mk.injEq, Option.some.injEq] at h
      cases h.2
    · next s hs => exact checkExprs_ne_panic ev hev σ s _ hs
    · exact ih _ _ h
    · split at h
      · simp only [Prod.mk.injEq, Option.some.injEq] at h
        cases h.2
      · exact ih _ _ h

theorem stepAll_ne_panic (ev : Bindings V → E → Outcome Bool)
    (hev : ∀ σ e, (ev σ e).isPanic = false) (S : List (Fact V)) (site : PanicSite) :
    ∀ (P : List (Rule V E)) (acc out : List (Fact V)),
    stepAll ev S P acc ≠ (out, some (.panic site)) := by
  intro P
  induction P with
  | nil => intro acc out h; simp [stepAll] at h
  | cons r rs ih =>
    intro acc out h
    simp only [stepAll] at h
    split at h
    · exact ih _ _ h
    · next acc' e' hr =>
      simp only [Prod.mk.injEq, Option.some.injEq] at h
      obtain ⟨_, rfl⟩ := h
      exact applyCombos_ne_panic ev hev r site _ _ _ hr

theorem run_ne_panic (ev : Bindings V → E → Outcome Bool)
    (hev : ∀ σ e, (ev σ e).isPanic = false) (mf : Nat) (P : List (Rule V E)) (site : PanicSite) :
    ∀ (mi : Nat) (F W : List (Fact V)), run ev mf P mi F ≠ (W, some (.panic site)) := by
  intro mi
  induction mi with
  | zero => intro F W h; simp [run] at h
  | succ n ih =>
    intro F W h
    simp only [run] at h
    split at h
    · next out e hst =>
      simp only [Prod.mk.injEq, Option.some.injEq] at h
      obtain ⟨_, rfl⟩ := h
      exact stepAll_ne_panic ev hev F site _ _ _ hst
    · split at h
      · simp only [Prod.mk.injEq, Option.some.injEq] at h
        cases h.2
      · split at h
        · simp at h
        · exact ih _ _ h

end Engine

/-! ### Authorizer -/

theorem evalBool_no_panic (cfg : EvalCfg) (hs : cfg.sets = .loops) (σ : Bindings Val) (e : Expr) :
    (evalBool cfg σ e).isPanic = false := by
  unfold evalBool
  exact Outcome.isPanic_bind (eval_no_panic' cfg hs σ e) fun _ => rfl

theorem runWorld_ne_panic (cfg : EvalCfg) (hs : cfg.sets = .loops) (lim : Limits) (w w' : World)
    (site : PanicSite) : runWorld cfg lim w ≠ (w', some (.panic site)) := by
  intro h
  simp only [runWorld, Prod.mk.injEq] at h
  exact run_ne_panic (evalBool cfg) (evalBool_no_panic cfg hs) lim.maxFacts w.rules site lim.maxIter
    w.facts _ (Prod.ext rfl h.2)

theorem evalBlock_ne_panic (cfg : EvalCfg) (hs : cfg.sets = .loops) (lim : Limits) (base : List DFact)
    (b : Block) (idx : Nat) (site : PanicSite) : evalBlock cfg lim base b idx ≠ .error (.panic site) := by
  intro h
  simp only [evalBlock] at h
  split at h
  · next w' e hr =>
    cases h
    exact runWorld_ne_panic cfg hs _ _ _ site hr
  · cases h

theorem blockPhase_ne_panic (cfg : EvalCfg) (hs : cfg.sets = .loops) (lim : Limits) (base : List DFact)
    (site : PanicSite) :
    ∀ (bs : List Block) (idx : Nat) (acc : List CheckId),
    blockPhase cfg lim base bs idx acc ≠ .error (.panic site) := by
  intro bs
  induction bs with
  | nil => intro idx acc h; cases h
  | cons b bs ih =>
    intro idx acc h
    simp only [blockPhase] at h
    split at h
    · next e he =>
      cases h
      exact evalBlock_ne_panic cfg hs lim base b idx site he
    · exact ih _ _ h

theorem authorityPhase_ne_panic (cfg : EvalCfg) (hs : cfg.sets = .loops) (A : Block) (s : AuthState)
    (w : World) (site : PanicSite) : authorityPhase cfg A s ≠ (w, .error (.panic site)) := by
  intro h
  simp only [authorityPhase] at h
  split at h
  · next w2 e hr =>
    simp only [Prod.mk.injEq, Except.error.injEq] at h
    obtain ⟨_, rfl⟩ := h
    exact runWorld_ne_panic cfg hs _ _ _ site hr
  · simp at h

theorem authorizeWith_ne_panic (cfg : EvalCfg) (hs : cfg.sets = .loops) (p : Bool) (tok : Token)
    (s : AuthState) (site : PanicSite) : (authorizeWith cfg p tok s).2 ≠ .runError (.panic site) := by
  intro h
  simp only [authorizeWith] at h
  split at h
  · next w e ha =>
    simp only [Verdict.runError.injEq] at h
    subst h
    exact authorityPhase_ne_panic cfg hs _ _ _ site ha
  · next w ap ha =>
    split at h
    · next e hb =>
      simp only [Verdict.runError.injEq] at h
      subst h
      exact blockPhase_ne_panic cfg hs _ _ site _ _ _ hb
    · split at h
      · cases h
      · exact policyVerdict_ne_runError _ _ h

end Biscuit
