/-
Proofs/Chan — helper lemmas for C11d.
-/
import BiscuitModel.Model.Chan

namespace Biscuit.Chan

/-! ## APPLY, repaired -/

/-- A returned consumer has either closed `stop` or seen the producer finish. -/
def ApplyInv (c : ApplyCfg) : Prop :=
  c.cons = .returned → (c.stopClosed = true ∨ c.prod = .finished)

theorem applyInv_step {c c' : ApplyCfg} (hi : ApplyInv c) (h : c' ∈ applyStep true c) :
    ApplyInv c' := by
  obtain ⟨p, k, s⟩ := c
  unfold ApplyInv at hi ⊢
  revert c'
  rcases p with (_ | n) | _ <;> rcases k with (_ | _ | k) | _ <;> cases s <;>
    simp_all [applyStep]

theorem applyInv_reach {c0 c : ApplyCfg} (h0 : ApplyInv c0) (hr : ApplyReach true c0 c) :
    ApplyInv c := by
  induction hr with
  | refl => exact h0
  | step _ hs ih => exact applyInv_step ih hs

theorem applyInv_terminal {c : ApplyCfg} (hi : ApplyInv c) (ht : applyTerminal true c) :
    applyAllDone c := by
  obtain ⟨p, k, s⟩ := c
  unfold ApplyInv at hi
  unfold applyTerminal at ht
  unfold applyAllDone
  rcases p with (_ | n) | _ <;> rcases k with (_ | _ | k) | _ <;>
    simp [applyStep] at ht hi ⊢ <;> simp_all

/-! ## APPLY, pinned, consumer never returns early -/

def ApplyInvNone (c : ApplyCfg) : Prop :=
  c.cons = .taking none ∨ (c.cons = .returned ∧ c.prod = .finished)

theorem applyInvNone_step {c c' : ApplyCfg} (hi : ApplyInvNone c) (h : c' ∈ applyStep false c) :
    ApplyInvNone c' := by
  obtain ⟨p, k, s⟩ := c
  unfold ApplyInvNone at hi ⊢
  revert c'
  rcases p with (_ | n) | _ <;> rcases k with (_ | _ | k) | _ <;> cases s <;>
    simp_all [applyStep]

theorem applyInvNone_reach {c0 c : ApplyCfg} (h0 : ApplyInvNone c0) (hr : ApplyReach false c0 c) :
    ApplyInvNone c := by
  induction hr with
  | refl => exact h0
  | step _ hs ih => exact applyInvNone_step ih hs

theorem applyInvNone_terminal {c : ApplyCfg} (hi : ApplyInvNone c) (ht : applyTerminal false c) :
    applyAllDone c := by
  obtain ⟨p, k, s⟩ := c
  unfold ApplyInvNone at hi
  unfold applyTerminal at ht
  unfold applyAllDone
  rcases p with (_ | n) | _ <;> rcases k with (_ | _ | k) | _ <;>
    simp [applyStep] at ht hi ⊢

/-! ## RUN, repaired -/

theorem run_terminal_done {c : RunCfg} (ht : runTerminal true c) :
    c.worker = .exited ∧ c.caller = .returned := by
  obtain ⟨w, k, t, b⟩ := c
  unfold runTerminal at ht
  cases w <;> cases k <;> cases t <;> cases b <;> simp [runStep] at ht ⊢

end Biscuit.Chan
