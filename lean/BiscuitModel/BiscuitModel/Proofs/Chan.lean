/-
Proofs/Chan — helper lemmas for C11d.
-/
import BiscuitModel.Model.Chan

namespace Biscuit.Chan

end Biscuit.Chan
