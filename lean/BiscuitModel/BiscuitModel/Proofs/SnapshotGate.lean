/-
Proofs/SnapshotGate — lemmas for Props/C18Gate: the declared-symbols gate of
`LoadPolicies` (authorizer.go `loadPoliciesV2`, since fix 9b20311) against the model's
reading of the snapshot format (`resolveSnapshot`, Model/Symbols).

`loadPoliciesV2` builds its table as `baseSymbols.Clone()` (a fresh authorizer: nothing
but the default table) `Extend`ed by the snapshot's own table, puts the snapshot's facts,
rules, checks and policy queries into a scratch `Block` and hands it to the same
`checkDeclaredSymbols` (builder.go) that `Unmarshal`, `New` and `Append` apply to token
blocks. `snapshotDeclared` says exactly that, with the gate predicates of Model/Unmarshal.

Method: every resolver of Model/Symbols answers `some _` exactly when its argument is
declared in the table (the gate predicate) AND has the right shape (a predicate that does
not look at the table: no variable inside a set, ground facts, known operator and policy
codes). Stated as Bool equations `(resolve t x).isSome = (declared t x && shapeOK x)`, so
that they pass through `mapM` (`mapM_isSome`) and `bind` (`bind_isSome`).
-/
import BiscuitModel.Proofs.GateBuilder

namespace Biscuit
open Wire

/-! ### The gate of `LoadPolicies` -/

/-- The table `loadPoliciesV2` checks against: a clone of the authorizer's base table
(empty: default symbols only) extended by the snapshot's table. `Extend` skips default
symbols and repeats. -/
def snapshotTable (m : PoliciesMsg) : SymTable := extendTable [] m.symbols

/-- What `loadPoliciesV2` asks of a snapshot since 9b20311: facts, rules, check queries
and policy queries refer only to declared indexes (predicate names, strings, variable
numbers, also inside sets and expressions). -/
def snapshotDeclared (m : PoliciesMsg) : Bool :=
  let t := snapshotTable m
  m.facts.all (predDeclared t) && m.rules.all (ruleDeclared t) &&
  m.checks.all (fun c => c.queries.all (ruleDeclared t)) &&
  m.policies.all (fun p => p.queries.all (ruleDeclared t))

/-- The same over an explicit table. -/
def contentDeclared (t : SymTable) (m : PoliciesMsg) : Bool :=
  m.facts.all (predDeclared t) && m.rules.all (ruleDeclared t) &&
  m.checks.all (fun c => c.queries.all (ruleDeclared t)) &&
  m.policies.all (fun p => p.queries.all (ruleDeclared t))

theorem snapshotDeclared_eq (m : PoliciesMsg) :
    snapshotDeclared m = contentDeclared (extendTable [] m.symbols) m := rfl

/-! ### The other conditions `resolveSnapshot` checks (none looks at the table) -/

def atomNotVar : IAtom → Bool
  | .variable _ => false
  | _ => true

/-- A set holds no variable (converters_v2.go: "set cannot contains variable"). -/
def termShapeOK : ITerm → Bool
  | .atom _ => true
  | .set l => l.all atomNotVar

def termIsGround : ITerm → Bool
  | .atom (.variable _) => false
  | _ => true

def predShapeOK (p : IPred) : Bool := p.terms.all termShapeOK

/-- A fact has no variable term. -/
def factShapeOK (p : IPred) : Bool := predShapeOK p && p.terms.all termIsGround

/-- Operator codes are those of the published enums. -/
def opShapeOK : IOp → Bool
  | .value v => termShapeOK v
  | .unary k => (unaryOfCode k).isSome
  | .binary k => (binaryOfCode k).isSome

def ruleShapeOK (r : IRule) : Bool :=
  predShapeOK r.head && r.body.all predShapeOK && r.exprs.all fun (e : List IOp) => e.all opShapeOK

def checkShapeOK (c : ICheck) : Bool := c.queries.all ruleShapeOK

/-- The policy kind is Allow = 0 or Deny = 1. -/
def policyShapeOK (p : IPolicy) : Bool :=
  (policyKindOfCode p.kind).isSome && p.queries.all ruleShapeOK

/-- Everything `resolveSnapshot` asks besides declared indexes: version 3; the saved
table holds no default symbol and no string twice (so that `Extend` adopts it as it is —
the model does not follow `LoadPolicies` outside this domain); sets without variables,
ground facts, known operator codes and policy kinds. -/
def snapshotShapeOK (m : PoliciesMsg) : Bool :=
  decide (m.version = some 3) && freshSymbols [] m.symbols &&
  m.facts.all factShapeOK && m.rules.all ruleShapeOK && m.checks.all checkShapeOK &&
  m.policies.all policyShapeOK

/-! ### `Extend` adopts a fresh table as it is -/

theorem symIndex_none_of_fresh (t : SymTable) (s : Bytes) (hd : s ∉ defaultSymbols) (ht : s ∉ t) :
    symIndex t s = none := by
  unfold symIndex
  rw [List.idxOf?_eq_none_iff.mpr hd, List.idxOf?_eq_none_iff.mpr ht]
  rfl

theorem extendTable_of_fresh (new : List Bytes) : ∀ t : SymTable,
    freshSymbols t new = true → extendTable t new = t ++ new := by
  induction new with
  | nil => intro t _; simp [extendTable]
  | cons s e ih =>
    intro t h
    simp only [freshSymbols, List.all_cons, Bool.and_eq_true, Bool.not_eq_true',
      decide_eq_true_eq, List.nodup_cons] at h
    obtain ⟨⟨⟨hd, ht⟩, hall⟩, hse, hnd⟩ := h
    have hd' : s ∉ defaultSymbols := by simpa using hd
    have ht' : s ∉ t := by simpa using ht
    have h1 : (symInsert t s).1 = t ++ [s] := by
      simp [symInsert, symIndex_none_of_fresh t s hd' ht']
    rw [extendTable_cons, h1]
    have hf : freshSymbols (t ++ [s]) e = true := by
      simp only [freshSymbols, Bool.and_eq_true, List.all_eq_true, Bool.not_eq_true',
        decide_eq_true_eq]
      refine ⟨fun x hx => ?_, hnd⟩
      have hx' := List.all_eq_true.mp hall x hx
      simp only [Bool.and_eq_true, Bool.not_eq_true'] at hx'
      refine ⟨hx'.1, ?_⟩
      have hxt : x ∉ t := by simpa using hx'.2
      have hxs : x ≠ s := fun hxs => hse (hxs ▸ hx)
      simp [hxt, hxs]
    rw [ih (t ++ [s]) hf, List.append_assoc]
    rfl

/-- Within the model's domain the table `LoadPolicies` checks against is the saved table. -/
theorem snapshotTable_of_fresh (m : PoliciesMsg) (h : freshSymbols [] m.symbols = true) :
    snapshotTable m = m.symbols := by
  unfold snapshotTable
  rw [extendTable_of_fresh m.symbols [] h, List.nil_append]

/-! ### `isSome` through `bind`, `map`, `mapM`, `all` -/

theorem bind_isSome {α β : Type} (x : Option α) (f : α → Option β) (b : Bool)
    (h : ∀ a, x = some a → (f a).isSome = b) : (x.bind f).isSome = (x.isSome && b) := by
  cases x with
  | none => rfl
  | some a => exact h a rfl

theorem mapM_isSome {α β : Type} (f : α → Option β) (l : List α) :
    (l.mapM f).isSome = l.all fun x => (f x).isSome := by
  induction l with
  | nil => rfl
  | cons x xs ih =>
    rw [List.mapM_cons, List.all_cons, ← ih]
    cases f x with
    | none => rfl
    | some y => cases xs.mapM f <;> rfl

theorem mapM_isSome_of {α β : Type} (f : α → Option β) (d : α → Bool) (h : ∀ x, (f x).isSome = d x)
    (l : List α) : (l.mapM f).isSome = l.all d := by
  rw [mapM_isSome]
  congr 1
  funext x
  exact h x

theorem all_and' {α : Type} (p q : α → Bool) (l : List α) :
    (l.all fun x => p x && q x) = (l.all p && l.all q) := by
  induction l with
  | nil => rfl
  | cons x xs ih =>
    simp only [List.all_cons, ih]
    cases p x <;> cases q x <;> cases xs.all p <;> cases xs.all q <;> rfl

/-- A second `mapM` over the result of a first one. -/
theorem mapM_mapM_isSome {α β γ : Type} (f : α → Option β) (g : β → Option γ) (d : α → Bool)
    (h : ∀ x y, f x = some y → (g y).isSome = d x) :
    ∀ (l : List α) (ys : List β), l.mapM f = some ys → (ys.mapM g).isSome = l.all d := by
  intro l
  induction l with
  | nil =>
    intro ys hys
    rw [List.mapM_nil] at hys
    cases hys
    rfl
  | cons x xs ih =>
    intro ys hys
    rw [List.mapM_cons] at hys
    cases hx : f x with
    | none => rw [hx] at hys; cases hys
    | some y =>
      cases hxs : xs.mapM f with
      | none => rw [hx, hxs] at hys; cases hys
      | some zs =>
        rw [hx, hxs] at hys
        cases hys
        rw [mapM_isSome, List.all_cons, List.all_cons, ← mapM_isSome, ih zs hxs, h x y hx]

/-! ### Every resolver: `some` exactly for declared content of the right shape -/

theorem resolveAtom_isSome (t : SymTable) (a : IAtom) :
    (resolveAtom t a).isSome = (atomDeclared t a && atomNotVar a) := by
  cases a with
  | «variable» n => simp [resolveAtom, atomNotVar]
  | string n => simp [resolveAtom, atomNotVar, atomDeclared, symDeclared]
  | integer i => rfl
  | date d => rfl
  | bytes b => rfl
  | bool b => rfl

theorem resolveTerm_isSome (t : SymTable) (x : ITerm) :
    (resolveTerm t x).isSome = (termDeclared t x && termShapeOK x) := by
  match x with
  | .atom (.variable n) => simp [resolveTerm, termDeclared, atomDeclared, symDeclared, termShapeOK]
  | .atom (.string n) => simp [resolveTerm, resolveAtom, termDeclared, atomDeclared, symDeclared, termShapeOK]
  | .atom (.integer i) => rfl
  | .atom (.date d) => rfl
  | .atom (.bytes b) => rfl
  | .atom (.bool b) => rfl
  | .set l =>
    show ((l.mapM (resolveAtom t)).map _).isSome = (l.all (atomDeclared t) && l.all atomNotVar)
    rw [Option.isSome_map, mapM_isSome_of _ _ (resolveAtom_isSome t), all_and']

theorem resolvePred_isSome (t : SymTable) (p : IPred) :
    (resolvePred t p).isSome = (predDeclared t p && predShapeOK p) := by
  have h2 : (p.terms.mapM (resolveTerm t)).isSome = (p.terms.all (termDeclared t) && p.terms.all termShapeOK) := by
    rw [mapM_isSome_of _ _ (resolveTerm_isSome t), all_and']
  show ((symStr t p.name).bind fun name => (p.terms.mapM (resolveTerm t)).bind fun terms =>
    some ({ name := name, terms := terms } : Pred Val)).isSome = _
  rw [bind_isSome _ _ ((p.terms.mapM (resolveTerm t)).isSome)
    (fun a _ => by rw [bind_isSome _ _ true (fun _ _ => rfl), Bool.and_true]), h2]
  simp only [predDeclared, predShapeOK, symDeclared, Bool.and_assoc]

/-- The resolved term is a variable exactly when the wire term is one. -/
theorem termGround_of_resolve (t : SymTable) (x : ITerm) (y : Term Val) (h : resolveTerm t x = some y) :
    (termGround y).isSome = termIsGround x := by
  match x with
  | .atom (.variable n) =>
    simp only [resolveTerm, Option.map_eq_some_iff] at h
    obtain ⟨s, _, rfl⟩ := h
    rfl
  | .atom (.string n) =>
    simp only [resolveTerm, Option.map_eq_some_iff] at h
    obtain ⟨s, _, rfl⟩ := h
    rfl
  | .atom (.integer i) => simp only [resolveTerm, resolveAtom, Option.map_some, Option.some.injEq] at h; subst h; rfl
  | .atom (.date d) => simp only [resolveTerm, resolveAtom, Option.map_some, Option.some.injEq] at h; subst h; rfl
  | .atom (.bytes b) => simp only [resolveTerm, resolveAtom, Option.map_some, Option.some.injEq] at h; subst h; rfl
  | .atom (.bool b) => simp only [resolveTerm, resolveAtom, Option.map_some, Option.some.injEq] at h; subst h; rfl
  | .set l =>
    simp only [resolveTerm, Option.map_eq_some_iff] at h
    obtain ⟨s, _, rfl⟩ := h
    rfl

theorem resolvePred_terms (t : SymTable) (p : IPred) (q : Pred Val) (h : resolvePred t p = some q) :
    p.terms.mapM (resolveTerm t) = some q.terms := by
  have h' : ((symStr t p.name).bind fun name => (p.terms.mapM (resolveTerm t)).bind fun terms =>
    some ({ name := name, terms := terms } : Pred Val)) = some q := h
  cases h1 : symStr t p.name with
  | none => rw [h1] at h'; cases h'
  | some n =>
    cases h2 : p.terms.mapM (resolveTerm t) with
    | none => rw [h1, h2] at h'; cases h'
    | some ts => rw [h1, h2] at h'; cases h'; rfl

theorem resolveFact_isSome (t : SymTable) (p : IPred) :
    (resolveFact t p).isSome = (predDeclared t p && factShapeOK p) := by
  show ((resolvePred t p).bind fun q => (q.terms.mapM termGround).bind fun args =>
    some ({ name := q.name, args := args } : DFact)).isSome = _
  rw [bind_isSome _ _ (p.terms.all termIsGround) (fun q hq => by
    rw [bind_isSome _ _ true (fun _ _ => rfl), Bool.and_true]
    exact mapM_mapM_isSome _ _ _ (termGround_of_resolve t) _ _ (resolvePred_terms t p q hq)),
    resolvePred_isSome]
  simp only [factShapeOK, Bool.and_assoc]

/-- The gate's clause for one operation of an expression (the `match` inside `ruleDeclared`). -/
def opDeclared (t : SymTable) : IOp → Bool
  | .value v => termDeclared t v
  | _ => true

theorem ruleDeclared_eq (t : SymTable) (r : IRule) :
    ruleDeclared t r = (predDeclared t r.head && r.body.all (predDeclared t) &&
      r.exprs.all fun (e : List IOp) => e.all (opDeclared t)) := by
  rfl

theorem resolveOp_isSome (t : SymTable) (o : IOp) :
    (resolveOp t o).isSome = (opDeclared t o && opShapeOK o) := by
  cases o with
  | value v =>
    show ((resolveTerm t v).map _).isSome = _
    rw [Option.isSome_map, resolveTerm_isSome]; rfl
  | unary k =>
    show ((unaryOfCode k).map _).isSome = _
    rw [Option.isSome_map]; rfl
  | binary k =>
    show ((binaryOfCode k).map _).isSome = _
    rw [Option.isSome_map]; rfl

theorem bool_shuffle3 : ∀ a b c d e f : Bool,
    ((a && d) && ((b && e) && (c && f))) = ((a && b && c) && (d && e && f)) := by decide

theorem resolveRule_isSome (t : SymTable) (r : IRule) :
    (resolveRule t r).isSome = (ruleDeclared t r && ruleShapeOK r) := by
  have hb : (r.body.mapM (resolvePred t)).isSome = (r.body.all (predDeclared t) && r.body.all predShapeOK) := by
    rw [mapM_isSome_of _ _ (resolvePred_isSome t), all_and']
  have he : (r.exprs.mapM fun (e : List IOp) => e.mapM (resolveOp t)).isSome =
      ((r.exprs.all fun (e : List IOp) => e.all (opDeclared t)) && r.exprs.all fun (e : List IOp) => e.all opShapeOK) := by
    rw [mapM_isSome_of _ (fun (e : List IOp) => e.all (opDeclared t) && e.all opShapeOK)
      (fun e => by rw [mapM_isSome_of _ _ (resolveOp_isSome t), all_and']), all_and']
  show ((resolvePred t r.head).bind fun head => (r.body.mapM (resolvePred t)).bind fun body =>
    (r.exprs.mapM fun (e : List IOp) => e.mapM (resolveOp t)).bind fun exprs =>
      some ({ head := head, body := body, exprs := exprs } : DRule)).isSome = _
  rw [bind_isSome _ _ ((r.body.mapM (resolvePred t)).isSome && (r.exprs.mapM fun (e : List IOp) => e.mapM (resolveOp t)).isSome)
    (fun _ _ => by
      rw [bind_isSome _ _ ((r.exprs.mapM fun (e : List IOp) => e.mapM (resolveOp t)).isSome)
        (fun _ _ => by rw [bind_isSome _ _ true (fun _ _ => rfl), Bool.and_true])]),
    resolvePred_isSome, hb, he, ruleDeclared_eq]
  exact bool_shuffle3 _ _ _ _ _ _

theorem resolveCheck_isSome (t : SymTable) (c : ICheck) :
    (resolveCheck t c).isSome = (c.queries.all (ruleDeclared t) && checkShapeOK c) := by
  show ((c.queries.mapM (resolveRule t)).bind fun qs => some ({ queries := qs } : Check)).isSome = _
  rw [bind_isSome _ _ true (fun _ _ => rfl), Bool.and_true,
    mapM_isSome_of _ _ (resolveRule_isSome t), all_and']
  rfl

theorem resolvePolicy_isSome (t : SymTable) (p : IPolicy) :
    (resolvePolicy t p).isSome = (p.queries.all (ruleDeclared t) && policyShapeOK p) := by
  show ((policyKindOfCode p.kind).bind fun k => (p.queries.mapM (resolveRule t)).bind fun qs =>
    some ({ kind := k, queries := qs } : Policy)).isSome = _
  rw [bind_isSome _ _ ((p.queries.mapM (resolveRule t)).isSome)
    (fun _ _ => by rw [bind_isSome _ _ true (fun _ _ => rfl), Bool.and_true]),
    mapM_isSome_of _ _ (resolveRule_isSome t), all_and']
  unfold policyShapeOK
  cases (policyKindOfCode p.kind).isSome <;> cases p.queries.all (ruleDeclared t) <;>
    cases p.queries.all ruleShapeOK <;> rfl

/-! ### The whole snapshot -/

theorem bool_shuffle4 : ∀ a b c d e f g h : Bool,
    ((a && e) && ((b && f) && ((c && g) && (d && h)))) = ((e && f && g && h) && (a && b && c && d)) := by
  decide

/-- The four lists of a snapshot resolved through one table. -/
def resolveContent (t : SymTable) (m : PoliciesMsg) : Option Snapshot :=
  (m.facts.mapM (resolveFact t)).bind fun facts =>
  (m.rules.mapM (resolveRule t)).bind fun rules =>
  (m.checks.mapM (resolveCheck t)).bind fun checks =>
  (m.policies.mapM (resolvePolicy t)).bind fun policies =>
  some { facts := facts, rules := rules, checks := checks, policies := policies }

theorem resolveContent_isSome (t : SymTable) (m : PoliciesMsg) :
    (resolveContent t m).isSome =
      ((m.facts.all factShapeOK && m.rules.all ruleShapeOK && m.checks.all checkShapeOK &&
        m.policies.all policyShapeOK) && contentDeclared t m) := by
  have hf : (m.facts.mapM (resolveFact t)).isSome = (m.facts.all (predDeclared t) && m.facts.all factShapeOK) := by
    rw [mapM_isSome_of _ _ (resolveFact_isSome t), all_and']
  have hr : (m.rules.mapM (resolveRule t)).isSome = (m.rules.all (ruleDeclared t) && m.rules.all ruleShapeOK) := by
    rw [mapM_isSome_of _ _ (resolveRule_isSome t), all_and']
  have hc : (m.checks.mapM (resolveCheck t)).isSome =
      (m.checks.all (fun c => c.queries.all (ruleDeclared t)) && m.checks.all checkShapeOK) := by
    rw [mapM_isSome_of _ _ (resolveCheck_isSome t), all_and']
  have hp : (m.policies.mapM (resolvePolicy t)).isSome =
      (m.policies.all (fun p => p.queries.all (ruleDeclared t)) && m.policies.all policyShapeOK) := by
    rw [mapM_isSome_of _ _ (resolvePolicy_isSome t), all_and']
  unfold resolveContent
  rw [bind_isSome _ _ ((m.rules.mapM (resolveRule t)).isSome && ((m.checks.mapM (resolveCheck t)).isSome &&
      (m.policies.mapM (resolvePolicy t)).isSome))
    (fun _ _ => by
      rw [bind_isSome _ _ ((m.checks.mapM (resolveCheck t)).isSome && (m.policies.mapM (resolvePolicy t)).isSome)
        (fun _ _ => by
          rw [bind_isSome _ _ ((m.policies.mapM (resolvePolicy t)).isSome)
            (fun _ _ => by rw [bind_isSome _ _ true (fun _ _ => rfl), Bool.and_true])])]),
    hf, hr, hc, hp]
  exact bool_shuffle4 _ _ _ _ _ _ _ _

theorem resolveSnapshot_eq (m : PoliciesMsg) :
    resolveSnapshot m =
      if m.version = some 3 ∧ freshSymbols [] m.symbols = true then resolveContent m.symbols m else none := by
  by_cases hv : m.version = some 3
  · cases hf : freshSymbols [] m.symbols
    · simp only [resolveSnapshot, hv, hf, ne_eq, not_true_eq_false, if_false, Bool.not_false, if_true,
        Bool.false_eq_true, and_false]
      rfl
    · simp only [resolveSnapshot, hv, hf, ne_eq, not_true_eq_false, if_false, Bool.not_true,
        Bool.false_eq_true, and_self, if_true]
      rfl
  · rw [sym_load_rejects_other_versions m hv, if_neg (fun h => hv h.1)]

/-- **The reading of the format, split in two.** The model reads a snapshot exactly when
it has the right shape and passes the code's declared-symbols gate. -/
theorem resolveSnapshot_isSome (m : PoliciesMsg) :
    (resolveSnapshot m).isSome = (snapshotShapeOK m && snapshotDeclared m) := by
  rw [resolveSnapshot_eq]
  by_cases hv : m.version = some 3
  · cases hf : freshSymbols [] m.symbols
    · simp [snapshotShapeOK, hv, hf]
    · have ht : extendTable [] m.symbols = m.symbols := snapshotTable_of_fresh m hf
      rw [if_pos ⟨hv, rfl⟩, resolveContent_isSome, snapshotDeclared_eq, ht]
      simp only [snapshotShapeOK, hv, hf, decide_true, Bool.true_and, Bool.and_true]
  · rw [if_neg (fun h => hv h.1)]
    simp [snapshotShapeOK, hv]

end Biscuit
