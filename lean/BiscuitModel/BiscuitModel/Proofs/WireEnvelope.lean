/-
Proofs/WireEnvelope — the envelope-level wire round trip
(`decodeBiscuit (encodeBiscuit e)`), used by C09, C16, C17.

The round trip is characterised exactly: decoding the encoding yields the envelope
(varints reduced mod 2^64) when every varint and every length is below 2^70 (ten
varint bytes), and fails otherwise.
-/
import BiscuitModel.Model.Wire

namespace Biscuit.Wire
open Biscuit

/-! ### Varints -/

theorem encodeVarint_lt (n : Nat) (h : n < 128) : encodeVarint n = [UInt8.ofNat n] := by
  rw [encodeVarint]; simp [h]

theorem encodeVarint_ge (n : Nat) (h : ¬ n < 128) :
    encodeVarint n = UInt8.ofNat (n % 128 + 128) :: encodeVarint (n / 128) := by
  rw [encodeVarint]; simp [h]

theorem encodeVarint_ne_nil (n : Nat) : encodeVarint n ≠ [] := by
  by_cases h : n < 128
  · simp [encodeVarint_lt n h]
  · simp [encodeVarint_ge n h]

theorem encodeVarint_length_pos (n : Nat) : 0 < (encodeVarint n).length :=
  List.length_pos_iff.mpr (encodeVarint_ne_nil n)

/-- Exact behaviour of the bounded varint reader on an encoded varint: `k+1` bytes of fuel
read exactly the values below `2^(7(k+1))`. -/
theorem decodeVarintAux_encode (k n : Nat) (rest : Bytes) :
    decodeVarintAux (k + 1) (encodeVarint n ++ rest) =
      if n < 2 ^ (7 * (k + 1)) then some (n, rest) else none := by
  induction k generalizing n with
  | zero =>
    by_cases h : n < 128
    · have : (UInt8.ofNat n).toNat = n := by rw [UInt8.toNat_ofNat']; omega
      simp [encodeVarint_lt n h, decodeVarintAux, this, h]
    · have : (UInt8.ofNat (n % 128 + 128)).toNat = n % 128 + 128 := by rw [UInt8.toNat_ofNat']; omega
      have h2 : ¬ (n % 128 + 128 < 128) := by omega
      simp [encodeVarint_ge n h, decodeVarintAux, h]
      omega
  | succ k ih =>
    by_cases h : n < 128
    · have : (UInt8.ofNat n).toNat = n := by rw [UInt8.toNat_ofNat']; omega
      have hp : n < 2 ^ (7 * (k + 1 + 1)) := by
        have : 2 ^ 7 ≤ 2 ^ (7 * (k + 1 + 1)) := Nat.pow_le_pow_right (by omega) (by omega)
        omega
      simp [encodeVarint_lt n h, decodeVarintAux, this, h, hp]
    · have hb : (UInt8.ofNat (n % 128 + 128)).toNat = n % 128 + 128 := by rw [UInt8.toNat_ofNat']; omega
      have h2 : ¬ (n % 128 + 128 < 128) := by omega
      have hiff : n / 128 < 2 ^ (7 * (k + 1)) ↔ n < 2 ^ (7 * (k + 1 + 1)) := by
        rw [Nat.div_lt_iff_lt_mul (by omega)]
        have : 2 ^ (7 * (k + 1 + 1)) = 2 ^ (7 * (k + 1)) * 128 := by
          rw [show 7 * (k + 1 + 1) = 7 * (k + 1) + 7 by omega, Nat.pow_add]
        rw [this]
      rw [encodeVarint_ge n h, List.cons_append, decodeVarintAux]
      simp only [hb, h2, if_false]
      rw [ih]
      by_cases hs : n / 128 < 2 ^ (7 * (k + 1))
      · have hs' := hiff.mp hs
        simp only [hs, hs', if_true]
        congr 2
        omega
      · have hs' : ¬ n < 2 ^ (7 * (k + 1 + 1)) := fun c => hs (hiff.mpr c)
        simp only [hs, hs', if_false]

theorem decodeVarint_encode (n : Nat) (rest : Bytes) :
    decodeVarint (encodeVarint n ++ rest) = if n < 2 ^ 70 then some (n, rest) else none := by
  exact decodeVarintAux_encode 9 n rest


/-! ### Field lists -/

/-- What the decoder returns for an encoded field: varints reduced mod 2^64. -/
def normField (f : Field) : Field :=
  match f.val with
  | .varint n => { num := f.num, val := .varint (n % 2^64) }
  | .bytes _ => f

/-- The field's varint / length fits ten varint bytes. -/
def smallField (f : Field) : Bool :=
  match f.val with
  | .varint n => decide (n < 2^70)
  | .bytes b => decide (b.length < 2^70)

theorem decodeFieldsAux_succ (fuel : Nat) (bs : Bytes) (h : bs ≠ []) :
    decodeFieldsAux (fuel + 1) bs =
      match decodeVarint bs with
      | none => none
      | some (tag, rest) =>
        let num := tag / 8
        if tag % 8 = 0 then
          match decodeVarint rest with
          | none => none
          | some (n, rest') =>
            match decodeFieldsAux fuel rest' with
            | none => none
            | some fs => some ({ num := num, val := .varint (n % 2^64) } :: fs)
        else if tag % 8 = 2 then
          match decodeVarint rest with
          | none => none
          | some (len, rest') =>
            if len ≤ rest'.length then
              match decodeFieldsAux fuel (rest'.drop len) with
              | none => none
              | some fs => some ({ num := num, val := .bytes (rest'.take len) } :: fs)
            else none
        else none := by
  cases bs with
  | nil => exact absurd rfl h
  | cons b bs => rfl

theorem encodeField_ne_nil (f : Field) : encodeField f ≠ [] := by
  obtain ⟨num, val⟩ := f
  cases val with
  | varint n =>
    have := encodeVarint_length_pos (num * 8)
    intro h; have h' := congrArg List.length h
    simp only [encodeField, List.length_append, List.length_nil] at h'; omega
  | bytes b =>
    have := encodeVarint_length_pos (num * 8 + 2)
    intro h; have h' := congrArg List.length h
    simp only [encodeField, List.length_append, List.length_nil] at h'; omega

theorem encodeField_length_pos (f : Field) : 0 < (encodeField f).length :=
  List.length_pos_iff.mpr (encodeField_ne_nil f)

theorem encodeFields_cons (f : Field) (fs : List Field) :
    encodeFields (f :: fs) = encodeField f ++ encodeFields fs := by
  simp [encodeFields]

theorem encodeFields_append (fs gs : List Field) :
    encodeFields (fs ++ gs) = encodeFields fs ++ encodeFields gs := by
  simp [encodeFields]

theorem encodeFields_nil : encodeFields [] = [] := rfl

theorem decodeFieldsAux_step (fuel : Nat) (f : Field) (rest : Bytes) (hnum : f.num < 2^60) :
    decodeFieldsAux (fuel + 1) (encodeField f ++ rest) =
      if smallField f then (decodeFieldsAux fuel rest).map (normField f :: ·) else none := by
  have hne : encodeField f ++ rest ≠ [] := by simp [encodeField_ne_nil f]
  rw [decodeFieldsAux_succ _ _ hne]
  obtain ⟨num, val⟩ := f
  cases val with
  | varint n =>
    have htag : num * 8 < 2 ^ 70 := by simp at hnum; omega
    simp only [encodeField, List.append_assoc, decodeVarint_encode, htag, if_true]
    have h0 : num * 8 % 8 = 0 := by omega
    have h1 : num * 8 / 8 = num := by omega
    simp only [h0, h1, if_true]
    by_cases hn : n < 2 ^ 70
    · simp only [hn, if_true, smallField, decide_true, normField]
      cases decodeFieldsAux fuel rest <;> rfl
    · simp [hn, smallField]
  | bytes b =>
    have htag : num * 8 + 2 < 2 ^ 70 := by simp at hnum; omega
    simp only [encodeField, List.append_assoc, decodeVarint_encode, htag, if_true]
    have h2 : (num * 8 + 2) % 8 = 2 := by omega
    have h1 : (num * 8 + 2) / 8 = num := by omega
    simp only [h1, h2, if_true]
    by_cases hn : b.length < 2 ^ 70
    · have hle : b.length ≤ (b ++ rest).length := by simp
      simp only [hn, if_true, smallField, decide_true, normField, hle,
        List.drop_left' rfl, List.take_left' rfl]
      cases decodeFieldsAux fuel rest <;> rfl
    · simp [hn, smallField]

/-- **Field-list round trip**, exactly: decoding an encoded field list (with enough fuel)
returns the list with varints reduced mod 2^64 when every varint and length fits ten
varint bytes, and fails otherwise. -/
theorem decodeFieldsAux_encode (fs : List Field) (hnum : ∀ f ∈ fs, f.num < 2^60) (fuel : Nat)
    (hfuel : (encodeFields fs).length ≤ fuel) :
    decodeFieldsAux fuel (encodeFields fs) =
      if fs.all smallField then some (fs.map normField) else none := by
  induction fs generalizing fuel with
  | nil => cases fuel <;> simp [encodeFields_nil, decodeFieldsAux]
  | cons f fs ih =>
    rw [encodeFields_cons] at hfuel ⊢
    have hpos := encodeField_length_pos f
    rw [List.length_append] at hfuel
    cases fuel with
    | zero => omega
    | succ fuel =>
      rw [decodeFieldsAux_step _ _ _ (hnum f (by simp)),
        ih (fun g hg => hnum g (by simp [hg])) fuel (by omega)]
      by_cases hs : smallField f = true
      · by_cases ha : fs.all smallField = true
        · simp [hs, ha]
        · simp [hs, ha]
      · simp [hs]

theorem decodeFields_encode (fs : List Field) (hnum : ∀ f ∈ fs, f.num < 2^60) :
    decodeFields (encodeFields fs) =
      if fs.all smallField then some (fs.map normField) else none :=
  decodeFieldsAux_encode fs hnum _ (Nat.le_refl _)


/-! ### Envelope messages -/

def normPK (k : PublicKeyMsg) : PublicKeyMsg := { k with algorithm := k.algorithm % 2^64 }
def smallPK (k : PublicKeyMsg) : Bool := decide (k.algorithm < 2^70) && decide (k.key.length < 2^70)

theorem decPublicKey_encode (k : PublicKeyMsg) :
    decPublicKey (encodeFields (encPublicKey k)) = if smallPK k then some (normPK k) else none := by
  unfold decPublicKey
  rw [decodeFields_encode _ (by simp [encPublicKey, vField, bField])]
  by_cases h1 : k.algorithm < 2^70 <;> by_cases h2 : k.key.length < 2^70 <;>
    simp [encPublicKey, vField, bField, smallField, normField, lastVarint, lastBytes, smallPK, normPK, h1, h2]

def normSB (sb : SignedBlockMsg) : SignedBlockMsg := { sb with nextKey := normPK sb.nextKey }
def smallSB (sb : SignedBlockMsg) : Bool :=
  decide (sb.block.length < 2^70) && decide ((encodeFields (encPublicKey sb.nextKey)).length < 2^70) &&
  decide (sb.signature.length < 2^70) && smallPK sb.nextKey

theorem decSignedBlock_encode (sb : SignedBlockMsg) :
    decSignedBlock (encodeFields (encSignedBlock sb)) = if smallSB sb then some (normSB sb) else none := by
  unfold decSignedBlock
  rw [decodeFields_encode _ (by simp [encSignedBlock, bField])]
  by_cases h1 : sb.block.length < 2^70 <;>
  by_cases h2 : (encodeFields (encPublicKey sb.nextKey)).length < 2^70 <;>
  by_cases h3 : sb.signature.length < 2^70 <;>
  by_cases h4 : smallPK sb.nextKey = true <;>
    simp [encSignedBlock, bField, smallField, normField, lastBytes, smallSB, normSB, h1, h2, h3, h4,
      decPublicKey_encode]


/-! Accessors as "last of all occurrences". -/

def allVarints (k : Nat) (fs : List Field) : List Nat :=
  fs.filterMap fun f => if f.num = k then (match f.val with | .varint n => some n | _ => none) else none

theorem lastBytes_foldl (k : Nat) (fs : List Field) (acc : Option Bytes) :
    fs.foldl (fun acc f => if f.num = k then (match f.val with | .bytes b => some b | _ => acc) else acc) acc
      = (allBytes k fs).getLast?.or acc := by
  induction fs generalizing acc with
  | nil => simp [allBytes]
  | cons f fs ih =>
    obtain ⟨num, val⟩ := f
    rw [List.foldl_cons, ih]
    by_cases hk : num = k
    · cases val with
      | varint n => simp [allBytes, hk]
      | bytes b =>
        simp only [allBytes, hk, List.filterMap_cons, if_true, List.getLast?_cons]
        cases (List.filterMap _ fs).getLast? <;> simp
    · simp [allBytes, hk]

theorem lastBytes_eq (k : Nat) (fs : List Field) : lastBytes k fs = (allBytes k fs).getLast? :=
  (lastBytes_foldl k fs none).trans (by simp)

theorem lastVarint_foldl (k : Nat) (fs : List Field) (acc : Option Nat) :
    fs.foldl (fun acc f => if f.num = k then (match f.val with | .varint n => some n | _ => acc) else acc) acc
      = (allVarints k fs).getLast?.or acc := by
  induction fs generalizing acc with
  | nil => simp [allVarints]
  | cons f fs ih =>
    obtain ⟨num, val⟩ := f
    rw [List.foldl_cons, ih]
    by_cases hk : num = k
    · cases val with
      | bytes n => simp [allVarints, hk]
      | varint b =>
        simp only [allVarints, hk, List.filterMap_cons, if_true, List.getLast?_cons]
        cases (List.filterMap _ fs).getLast? <;> simp
    · simp [allVarints, hk]

theorem lastVarint_eq (k : Nat) (fs : List Field) : lastVarint k fs = (allVarints k fs).getLast? :=
  (lastVarint_foldl k fs none).trans (by simp)

theorem allBytes_append (k : Nat) (fs gs : List Field) : allBytes k (fs ++ gs) = allBytes k fs ++ allBytes k gs := by
  simp [allBytes]

theorem allVarints_append (k : Nat) (fs gs : List Field) :
    allVarints k (fs ++ gs) = allVarints k fs ++ allVarints k gs := by
  simp [allVarints]

theorem allBytes_nil (k : Nat) : allBytes k [] = [] := rfl
theorem allVarints_nil (k : Nat) : allVarints k [] = [] := rfl

theorem allBytes_cons_bField (k j : Nat) (b : Bytes) (fs : List Field) :
    allBytes k (bField j b :: fs) = if j = k then b :: allBytes k fs else allBytes k fs := by
  by_cases h : j = k <;> simp [allBytes, bField, h]

theorem allBytes_cons_vField (k j n : Nat) (fs : List Field) :
    allBytes k (vField j n :: fs) = allBytes k fs := by
  by_cases h : j = k <;> simp [allBytes, vField, h]

theorem allVarints_cons_bField (k j : Nat) (b : Bytes) (fs : List Field) :
    allVarints k (bField j b :: fs) = allVarints k fs := by
  by_cases h : j = k <;> simp [allVarints, bField, h]

theorem allVarints_cons_vField (k j n : Nat) (fs : List Field) :
    allVarints k (vField j n :: fs) = if j = k then n :: allVarints k fs else allVarints k fs := by
  by_cases h : j = k <;> simp [allVarints, vField, h]

theorem allBytes_map_bField (k j : Nat) {α : Type} (g : α → Bytes) (l : List α) :
    allBytes k (l.map fun a => bField j (g a)) = if j = k then l.map g else [] := by
  induction l with
  | nil => simp [allBytes_nil]
  | cons a l ih =>
    rw [List.map_cons, allBytes_cons_bField, ih]
    by_cases h : j = k <;> simp [h]

theorem allVarints_map_bField (k j : Nat) {α : Type} (g : α → Bytes) (l : List α) :
    allVarints k (l.map fun a => bField j (g a)) = [] := by
  induction l with
  | nil => rfl
  | cons a l ih => rw [List.map_cons, allVarints_cons_bField, ih]

theorem allBytes_optV (k j : Nat) (o : Option Nat) : allBytes k (optV j o) = [] := by
  cases o <;> simp [optV, allBytes_nil, allBytes_cons_vField]

theorem allVarints_optV (k : Nat) (o : Option Nat) : allVarints k (optV k o) = o.toList := by
  cases o <;> simp [optV, allVarints_nil, allVarints_cons_vField]

/-! The four accessors of `decodeBiscuit` on an encoded envelope. -/

theorem encBiscuit_authority (e : BiscuitMsg) :
    lastBytes 2 (encBiscuit e) = some (encodeFields (encSignedBlock e.authority)) := by
  simp [lastBytes_eq, encBiscuit, allBytes_append, allBytes_optV, allBytes_map_bField,
    allBytes_cons_bField, allBytes_nil]

theorem encBiscuit_blocks (e : BiscuitMsg) :
    allBytes 3 (encBiscuit e) = e.blocks.map fun sb => encodeFields (encSignedBlock sb) := by
  simp [encBiscuit, allBytes_append, allBytes_optV, allBytes_map_bField,
    allBytes_cons_bField, allBytes_nil]

theorem encBiscuit_proof (e : BiscuitMsg) :
    lastBytes 4 (encBiscuit e) = some (encodeFields (encProof e.proof)) := by
  simp [lastBytes_eq, encBiscuit, allBytes_append, allBytes_optV, allBytes_map_bField,
    allBytes_cons_bField, allBytes_nil]

theorem encBiscuit_rootKeyId (e : BiscuitMsg) : lastVarint 1 (encBiscuit e) = e.rootKeyId := by
  simp [lastVarint_eq, encBiscuit, allVarints_append, allVarints_optV, allVarints_map_bField,
    allVarints_cons_bField, allVarints_nil]
  cases e.rootKeyId <;> simp


def smallProof : ProofMsg → Bool
  | .nextSecret b => decide (b.length < 2^70)
  | .finalSignature b => decide (b.length < 2^70)
  | .empty => true

theorem decProof_encode (p : ProofMsg) :
    decProof (encodeFields (encProof p)) = if smallProof p then some p else none := by
  unfold decProof
  rw [decodeFields_encode _ (by cases p <;> simp [encProof, bField])]
  cases p with
  | nextSecret b =>
    by_cases h : b.length < 2^70 <;> simp [encProof, bField, smallField, normField, smallProof, h]
  | finalSignature b =>
    by_cases h : b.length < 2^70 <;> simp [encProof, bField, smallField, normField, smallProof, h]
  | empty => simp [encProof, smallProof]

theorem mapM_decSignedBlock_encode (l : List SignedBlockMsg) :
    (l.map fun sb => encodeFields (encSignedBlock sb)).mapM decSignedBlock =
      if l.all smallSB then some (l.map normSB) else none := by
  induction l with
  | nil => simp
  | cons sb l ih =>
    rw [List.map_cons, List.mapM_cons, ih, decSignedBlock_encode]
    by_cases h1 : smallSB sb = true <;> by_cases h2 : l.all smallSB = true <;> simp [h1, h2]

/-- Everything the decoder has to read back fits ten varint bytes. -/
def smallEnv (e : BiscuitMsg) : Bool :=
  (match e.rootKeyId with | some i => decide (i < 2^70) | none => true) &&
  decide ((encodeFields (encSignedBlock e.authority)).length < 2^70) &&
  e.blocks.all (fun sb => decide ((encodeFields (encSignedBlock sb)).length < 2^70)) &&
  decide ((encodeFields (encProof e.proof)).length < 2^70) &&
  smallSB e.authority && e.blocks.all smallSB && smallProof e.proof

/-- What comes back: varints truncated to their schema width. -/
def normEnv (e : BiscuitMsg) : BiscuitMsg :=
  { rootKeyId := e.rootKeyId.map (· % 2^32), authority := normSB e.authority,
    blocks := e.blocks.map normSB, proof := e.proof }

theorem encBiscuit_all_small (e : BiscuitMsg) :
    (encBiscuit e).all smallField =
      ((match e.rootKeyId with | some i => decide (i < 2^70) | none => true) &&
      decide ((encodeFields (encSignedBlock e.authority)).length < 2^70) &&
      e.blocks.all (fun sb => decide ((encodeFields (encSignedBlock sb)).length < 2^70)) &&
      decide ((encodeFields (encProof e.proof)).length < 2^70)) := by
  obtain ⟨id, a, bl, p⟩ := e
  cases id <;>
    simp [encBiscuit, optV, vField, bField, smallField, List.all_append, List.all_map, Bool.and_assoc,
      Function.comp_def]

theorem encBiscuit_map_norm (e : BiscuitMsg) :
    (encBiscuit e).map normField = encBiscuit { e with rootKeyId := e.rootKeyId.map (· % 2^64) } := by
  obtain ⟨id, a, bl, p⟩ := e
  cases id <;>
    simp [encBiscuit, optV, vField, bField, normField, Function.comp_def]

theorem encBiscuit_num (e : BiscuitMsg) : ∀ f ∈ encBiscuit e, f.num < 2^60 := by
  obtain ⟨id, a, bl, p⟩ := e
  intro f hf
  simp only [encBiscuit, List.mem_append, List.mem_map, List.mem_singleton] at hf
  rcases hf with ((hf | hf) | ⟨sb, _, rfl⟩) | hf
  · cases id with
    | none => simp [optV] at hf
    | some i => simp [optV] at hf; subst hf; simp [vField]
  · subst hf; simp [bField]
  · simp [bField]
  · subst hf; simp [bField]

/-- **Envelope round trip, exactly.** -/
theorem decodeBiscuit_encode (e : BiscuitMsg) :
    decodeBiscuit (encodeBiscuit e) = if smallEnv e then some (normEnv e) else none := by
  unfold decodeBiscuit encodeBiscuit
  rw [decodeFields_encode _ (encBiscuit_num e), encBiscuit_all_small, encBiscuit_map_norm]
  by_cases h1 : ((match e.rootKeyId with | some i => decide (i < 2^70) | none => true) &&
      decide ((encodeFields (encSignedBlock e.authority)).length < 2^70) &&
      e.blocks.all (fun sb => decide ((encodeFields (encSignedBlock sb)).length < 2^70)) &&
      decide ((encodeFields (encProof e.proof)).length < 2^70)) = true
  · rw [if_pos h1]
    simp only [Option.bind_eq_bind, Option.bind_some, encBiscuit_authority, encBiscuit_blocks,
      encBiscuit_proof, encBiscuit_rootKeyId, decSignedBlock_encode, mapM_decSignedBlock_encode,
      decProof_encode]
    have hmod : (e.rootKeyId.map (· % 2^64)).map (· % 2^32) = e.rootKeyId.map (· % 2^32) := by
      cases e.rootKeyId with
      | none => rfl
      | some i => simp only [Option.map_some]; congr 1; omega
    by_cases h2 : smallSB e.authority = true <;> by_cases h3 : e.blocks.all smallSB = true <;>
      by_cases h4 : smallProof e.proof = true <;>
      simp [smallEnv, normEnv, h1, h2, h3, h4, hmod]
  · rw [if_neg h1]
    simp [smallEnv, h1]


/-! ### Corollaries in the shape the properties use -/

/-- Whenever the reload succeeds, the result is the (normalised) envelope. -/
theorem decodeBiscuit_encode_some (e e' : BiscuitMsg) (h : decodeBiscuit (encodeBiscuit e) = some e') :
    e' = normEnv e := by
  rw [decodeBiscuit_encode] at h
  by_cases hs : smallEnv e = true
  · rw [if_pos hs] at h; exact (Option.some.inj h).symm
  · rw [if_neg hs] at h; cases h

theorem normPK_eq (k : PublicKeyMsg) (h : k.algorithm < 2^64) : normPK k = k := by
  obtain ⟨a, key⟩ := k
  simp only [normPK]
  congr 1
  exact Nat.mod_eq_of_lt h

theorem normSB_eq (sb : SignedBlockMsg) (h : sb.nextKey.algorithm < 2^64) : normSB sb = sb := by
  obtain ⟨b, k, s⟩ := sb
  simp only [normSB]
  congr 1
  exact normPK_eq k h

theorem normEnv_eq (e : BiscuitMsg) (hid : ∀ i, e.rootKeyId = some i → i < 2^32)
    (halg : ∀ sb ∈ e.authority :: e.blocks, sb.nextKey.algorithm < 2^64) : normEnv e = e := by
  obtain ⟨id, a, bl, p⟩ := e
  simp only [normEnv]
  have h1 : id.map (· % 2^32) = id := by
    cases id with
    | none => rfl
    | some i => simp only [Option.map_some]; congr 1; exact Nat.mod_eq_of_lt (hid i rfl)
  have h2 : normSB a = a := normSB_eq a (halg a (by simp))
  have h3 : bl.map normSB = bl := by
    have : ∀ sb ∈ bl, normSB sb = sb := fun sb hsb => normSB_eq sb (halg sb (by simp [hsb]))
    conv => rhs; rw [← List.map_id bl]
    exact List.map_congr_left (by simpa using this)
  rw [h1, h2, h3]

theorem normEnv_rootKeyId (e : BiscuitMsg) (hid : ∀ i, e.rootKeyId = some i → i < 2^32) :
    (normEnv e).rootKeyId = e.rootKeyId := by
  simp only [normEnv]
  cases h : e.rootKeyId with
  | none => rfl
  | some i => simp only [Option.map_some]; congr 1; exact Nat.mod_eq_of_lt (hid i h)

theorem normEnv_signatures (e : BiscuitMsg) :
    (normEnv e).authority.signature = e.authority.signature ∧
    (normEnv e).blocks.map (·.signature) = e.blocks.map (·.signature) := by
  simp [normEnv, normSB, Function.comp_def]

/-! Lengths: a length-delimited field is no longer than the encoding that contains it. -/

theorem length_le_encodeField (k : Nat) (b : Bytes) : b.length ≤ (encodeField (bField k b)).length := by
  simp only [encodeField, bField, List.length_append]; omega

theorem encodeField_length_le (f : Field) (fs : List Field) (h : f ∈ fs) :
    (encodeField f).length ≤ (encodeFields fs).length := by
  induction fs with
  | nil => cases h
  | cons g fs ih =>
    rw [encodeFields_cons, List.length_append]
    rcases List.mem_cons.mp h with rfl | h
    · omega
    · have := ih h; omega

theorem bField_length_le (k : Nat) (b : Bytes) (fs : List Field) (h : bField k b ∈ fs) :
    b.length ≤ (encodeFields fs).length :=
  Nat.le_trans (length_le_encodeField k b) (encodeField_length_le _ fs h)

theorem smallSB_of_length (sb : SignedBlockMsg) (N : Nat) (hN : N ≤ 2^70)
    (h : (encodeFields (encSignedBlock sb)).length < N)
    (halg : sb.nextKey.algorithm < 2^70) : smallSB sb = true := by
  have h1 := bField_length_le 1 sb.block (encSignedBlock sb) (by simp [encSignedBlock])
  have h2 := bField_length_le 2 (encodeFields (encPublicKey sb.nextKey)) (encSignedBlock sb)
    (by simp [encSignedBlock])
  have h3 := bField_length_le 3 sb.signature (encSignedBlock sb) (by simp [encSignedBlock])
  have h4 := bField_length_le 2 sb.nextKey.key (encPublicKey sb.nextKey) (by simp [encPublicKey])
  simp only [smallSB, smallPK, Bool.and_eq_true, decide_eq_true_eq]
  refine ⟨⟨⟨?_, ?_⟩, ?_⟩, halg, ?_⟩ <;> omega

theorem smallProof_of_length (p : ProofMsg) (N : Nat) (hN : N ≤ 2^70)
    (h : (encodeFields (encProof p)).length < N) : smallProof p = true := by
  cases p with
  | nextSecret b =>
    have := bField_length_le 1 b (encProof (.nextSecret b)) (by simp [encProof])
    simp only [smallProof, decide_eq_true_eq]; omega
  | finalSignature b =>
    have := bField_length_le 2 b (encProof (.finalSignature b)) (by simp [encProof])
    simp only [smallProof, decide_eq_true_eq]; omega
  | empty => rfl

/-- A serialization shorter than 2^64 bytes (any real one) can be read back. -/
theorem smallEnv_of_length (e : BiscuitMsg) (hid : ∀ i, e.rootKeyId = some i → i < 2^32)
    (halg : ∀ sb ∈ e.authority :: e.blocks, sb.nextKey.algorithm < 2^64)
    (hlen : (encodeBiscuit e).length < 2^64) : smallEnv e = true := by
  have hA := bField_length_le 2 (encodeFields (encSignedBlock e.authority)) (encBiscuit e)
    (by simp [encBiscuit])
  have hB : ∀ sb ∈ e.blocks, (encodeFields (encSignedBlock sb)).length ≤ (encodeBiscuit e).length :=
    fun sb hsb => bField_length_le 3 _ (encBiscuit e) (by
      simp only [encBiscuit, List.mem_append, List.mem_map]
      exact Or.inl (Or.inr ⟨sb, hsb, rfl⟩))
  have hP := bField_length_le 4 (encodeFields (encProof e.proof)) (encBiscuit e) (by simp [encBiscuit])
  unfold encodeBiscuit at hlen hB
  have hAlt : (encodeFields (encSignedBlock e.authority)).length < 2^64 := by omega
  have hPlt : (encodeFields (encProof e.proof)).length < 2^64 := by omega
  have hBlt : ∀ sb ∈ e.blocks, (encodeFields (encSignedBlock sb)).length < 2^64 :=
    fun sb hsb => by have := hB sb hsb; omega
  have halg' : ∀ sb ∈ e.authority :: e.blocks, sb.nextKey.algorithm < 2^70 :=
    fun sb hsb => by have := halg sb hsb; omega
  simp only [smallEnv, Bool.and_eq_true, decide_eq_true_eq, List.all_eq_true]
  refine ⟨⟨⟨⟨⟨⟨?_, ?_⟩, ?_⟩, ?_⟩, ?_⟩, ?_⟩, ?_⟩
  · cases h : e.rootKeyId with
    | none => rfl
    | some i => have := hid i h; simp only [decide_eq_true_eq]; omega
  · omega
  · intro sb hsb; have := hBlt sb hsb; omega
  · omega
  · exact smallSB_of_length _ (2^64) (by omega) hAlt (halg' _ (by simp))
  · intro sb hsb
    exact smallSB_of_length _ (2^64) (by omega) (hBlt sb hsb) (halg' _ (by simp [hsb]))
  · exact smallProof_of_length _ (2^64) (by omega) hPlt

/-- **Envelope round trip** for every envelope whose serialization is shorter than 2^64 bytes. -/
theorem decodeBiscuit_encode_of_length (e : BiscuitMsg) (hid : ∀ i, e.rootKeyId = some i → i < 2^32)
    (halg : ∀ sb ∈ e.authority :: e.blocks, sb.nextKey.algorithm < 2^64)
    (hlen : (encodeBiscuit e).length < 2^64) : decodeBiscuit (encodeBiscuit e) = some e := by
  rw [decodeBiscuit_encode, if_pos (smallEnv_of_length e hid halg hlen), normEnv_eq e hid halg]

/-- Without a length bound the round trip fails: a block of 2^70 bytes has an 11-byte
length varint, which the decoder (ten bytes at most, like protobuf) refuses. -/
def hugeBlock : Bytes := List.replicate (2^70) 0

theorem hugeBlock_length : hugeBlock.length = 2^70 := List.length_replicate ..

def hugeEnvelope : BiscuitMsg :=
  { rootKeyId := none,
    authority := { block := hugeBlock, nextKey := { algorithm := 0, key := [] }, signature := [] },
    blocks := [], proof := .empty }

theorem hugeEnvelope_not_reloadable : decodeBiscuit (encodeBiscuit hugeEnvelope) = none := by
  rw [decodeBiscuit_encode]
  have : smallEnv hugeEnvelope = false := by
    have hb : ¬ hugeBlock.length < 2^70 := by rw [hugeBlock_length]; omega
    simp only [smallEnv, smallSB, hugeEnvelope, hb, decide_false, Bool.false_and, Bool.and_false]
  rw [this]; rfl

end Biscuit.Wire
