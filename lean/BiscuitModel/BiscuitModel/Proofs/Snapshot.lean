/-
Proofs/Snapshot — string-level save/load lemmas for C18.
-/
import BiscuitModel.Model.Authorizer
import BiscuitModel.Proofs.Datalog

namespace Biscuit

theorem snap_insertAll_nodup : ∀ (fs acc : List DFact), (acc ++ fs).Nodup → insertAll acc fs = acc ++ fs
  | [], acc, _ => by simp [insertAll]
  | f :: fs, acc, h => by
    have hf : f ∉ acc := by
      intro hm
      rw [List.nodup_append] at h
      exact h.2.2 f hm f List.mem_cons_self rfl
    have hi : insertFact acc f = acc ++ [f] := by
      unfold insertFact
      rw [if_neg (by simpa using hf)]
    rw [insertAll, hi]
    have h' : ((acc ++ [f]) ++ fs).Nodup := by simpa [List.append_assoc] using h
    rw [snap_insertAll_nodup fs (acc ++ [f]) h']
    simp [List.append_assoc]

/-- What holds of an authorizer that has only seen content additions. -/
def SnapInv (lim : Limits) (s : AuthState) : Prop :=
  s.dirty = false ∧ s.baseWorld = World.empty ∧ s.limits = lim ∧ s.world.facts.Nodup

theorem snap_inv_fresh (lim : Limits) : SnapInv lim (AuthState.fresh lim) :=
  ⟨rfl, rfl, rfl, List.nodup_nil⟩

/-- The step function of `C18.afterAdds`. -/
def snapStep (s : AuthState) (op : AuthOp) : AuthState :=
  match op with
  | .addFact f => addFact s f
  | .addRule r => addRule s r
  | .addCheck c => addCheck s c
  | .addPolicy p => addPolicy s p
  | _ => s

theorem snap_inv_step (lim : Limits) (s : AuthState) (op : AuthOp) (h : SnapInv lim s) :
    SnapInv lim (snapStep s op) := by
  obtain ⟨h1, h2, h3, h4⟩ := h
  cases op <;> simp only [snapStep]
  · exact ⟨h1, h2, h3, nodup_insertFact _ _ h4⟩
  all_goals exact ⟨h1, h2, h3, h4⟩

theorem snap_inv_foldl (lim : Limits) : ∀ (ops : List AuthOp) (s : AuthState), SnapInv lim s →
    SnapInv lim (ops.foldl snapStep s)
  | [], _, h => h
  | op :: ops, s, h => snap_inv_foldl lim ops _ (snap_inv_step lim s op h)

theorem snap_save_of_inv (lim : Limits) (s : AuthState) (h : SnapInv lim s) :
    save s = some { facts := s.world.facts, rules := s.world.rules, checks := s.checks, policies := s.policies } := by
  unfold save; rw [h.1]; rfl

theorem snap_load_of_inv (lim : Limits) (s : AuthState) (h : SnapInv lim s) :
    load (AuthState.fresh lim)
      { facts := s.world.facts, rules := s.world.rules, checks := s.checks, policies := s.policies } = s := by
  obtain ⟨h1, h2, h3, h4⟩ := h
  obtain ⟨⟨wf, wr⟩, bw, cs, ps, d, l⟩ := s
  simp only at h1 h2 h3 h4
  subst h1 h2 h3
  simp only [load, AuthState.fresh, World.empty, List.nil_append]
  rw [snap_insertAll_nodup wf [] (by simpa using h4)]
  simp

theorem snap_save_dirty (s : AuthState) (h : s.dirty = true) : save s = none := by
  unfold save; rw [h]; rfl

theorem snap_authorize_dirty (cfg : EvalCfg) (tok : Token) (s : AuthState) :
    (authorize cfg tok s).1.dirty = true := by
  unfold authorize authorizeWith
  split
  · rfl
  · simp only
    split
    · rfl
    · split <;> rfl

theorem snap_query_dirty (cfg : EvalCfg) (s : AuthState) (q : DRule) :
    (query cfg s q).1.dirty = true := by
  unfold query
  split <;> rfl

end Biscuit
