/-
Proofs/Datalog — helper lemmas for C05 (and consumers C04, C11, C12).
-/
import BiscuitModel.Spec.Datalog

namespace Biscuit

variable {V E : Type} [DecidableEq V]

theorem applyRule_spec (ev : Bindings V → E → Outcome Bool) (hev : EvRespects ev)
    (r : Rule V E) (S acc out : List (Fact V))
    (h : applyRule ev r S acc = (out, none)) (f : Fact V) :
    f ∈ out ↔ f ∈ acc ∨ ∃ σ, Sat ev r S σ ∧ instPred r.head σ = some f := by
  sorry

theorem run_sound (ev : Bindings V → E → Outcome Bool) (hev : EvRespects ev)
    (maxFacts : Nat) (P : List (Rule V E)) (maxIter : Nat) (F W : List (Fact V))
    (h : run ev maxFacts P maxIter F = (W, none)) :
    ∀ f ∈ W, Derivable ev P F f := by
  sorry

theorem run_complete (ev : Bindings V → E → Outcome Bool) (hev : EvRespects ev)
    (maxFacts : Nat) (P : List (Rule V E)) (maxIter : Nat) (F W : List (Fact V))
    (h : run ev maxFacts P maxIter F = (W, none)) :
    ∀ f, Derivable ev P F f → f ∈ W := by
  sorry

theorem run_nodup (ev : Bindings V → E → Outcome Bool)
    (maxFacts : Nat) (P : List (Rule V E)) (maxIter : Nat) (F W : List (Fact V))
    (hF : F.Nodup) (h : run ev maxFacts P maxIter F = (W, none)) : W.Nodup := by
  sorry

theorem derivable_least (ev : Bindings V → E → Outcome Bool)
    (P : List (Rule V E)) (F : List (Fact V)) (M : Fact V → Prop)
    (hbase : ∀ f ∈ F, M f)
    (hclosed : ∀ r ∈ P, ∀ σ f,
      (∀ p ∈ r.body, ∃ g, instPred p σ = some g ∧ M g) →
      (∀ n v, σ.lookup n = some v → n ∈ bodyVars r.body) →
      checkExprs ev σ r.exprs = .ok true →
      instPred r.head σ = some f → M f) :
    ∀ f, Derivable ev P F f → M f := by
  sorry

theorem run_fixpoint (ev : Bindings V → E → Outcome Bool)
    (maxFacts : Nat) (P : List (Rule V E)) (maxIter : Nat) (F W : List (Fact V))
    (h : run ev maxFacts P maxIter F = (W, none)) :
    ∃ new, stepAll ev W P [] = (new, none) ∧ ∀ f ∈ new, f ∈ W := by
  sorry

theorem evalBool_respects (cfg : EvalCfg) : EvRespects (evalBool cfg) := by
  sorry

end Biscuit
