/-
Proofs/Datalog — helper lemmas for C05 (and consumers C04, C11, C12).
-/
import BiscuitModel.Spec.Datalog

namespace Biscuit

set_option linter.unusedSectionVars false

variable {V E : Type} [DecidableEq V]

/-! ### Bindings -/

theorem Bindings.lookup_nil (n : Bytes) : Bindings.lookup ([] : Bindings V) n = none := rfl

theorem Bindings.lookup_cons (k : Bytes) (v : V) (σ : Bindings V) (n : Bytes) :
    Bindings.lookup ((k, v) :: σ) n = if k = n then some v else Bindings.lookup σ n := rfl

/-- `τ` extends `σ`: every binding visible in `σ` is visible, unchanged, in `τ`. -/
def Agree (σ τ : Bindings V) : Prop :=
  ∀ n v, Bindings.lookup σ n = some v → Bindings.lookup τ n = some v

theorem Agree.refl (σ : Bindings V) : Agree σ σ := fun _ _ h => h

theorem Agree.trans {σ τ ρ : Bindings V} (h₁ : Agree σ τ) (h₂ : Agree τ ρ) : Agree σ ρ :=
  fun n v h => h₂ n v (h₁ n v h)

theorem Agree.nil (σ : Bindings V) : Agree ([] : Bindings V) σ := by
  intro n v h; simp [Bindings.lookup_nil] at h

theorem Agree.of_cons {n : Bytes} {v : V} {σ τ : Bindings V}
    (hn : Bindings.lookup σ n = none) (h : Agree ((n, v) :: σ) τ) : Agree σ τ := by
  intro m w hm
  apply h
  rw [Bindings.lookup_cons]
  split
  · next heq => subst heq; rw [hn] at hm; cases hm
  · exact hm

/-! ### substTerms -/

theorem substTerms_mono {σ τ : Bindings V} (h : Agree σ τ) :
    ∀ (ts : List (Term V)) (vs : List V), substTerms σ ts = some vs → substTerms τ ts = some vs
  | [], vs, hs => by simpa [substTerms] using hs
  | .const c :: ts, vs, hs => by
    simp only [substTerms, Option.map_eq_some_iff] at hs ⊢
    obtain ⟨a, ha, rfl⟩ := hs
    exact ⟨a, substTerms_mono h ts a ha, rfl⟩
  | .var n :: ts, vs, hs => by
    simp only [substTerms] at hs ⊢
    cases hl : Bindings.lookup σ n with
    | none => simp [hl] at hs
    | some v =>
      rw [hl] at hs; rw [h n v hl]
      simp only [Option.map_eq_some_iff] at hs ⊢
      obtain ⟨a, ha, rfl⟩ := hs
      exact ⟨a, substTerms_mono h ts a ha, rfl⟩

theorem substTerms_congr {σ τ : Bindings V}
    (h : ∀ n, Bindings.lookup σ n = Bindings.lookup τ n) :
    ∀ ts : List (Term V), substTerms σ ts = substTerms τ ts
  | [] => rfl
  | .const c :: ts => by simp only [substTerms, substTerms_congr h ts]
  | .var n :: ts => by simp only [substTerms, substTerms_congr h ts, h n]

theorem substTerms_defined {σ : Bindings V} :
    ∀ (ts : List (Term V)) (vs : List V), substTerms σ ts = some vs →
      ∀ n ∈ termVars ts, ∃ v, Bindings.lookup σ n = some v
  | [], _, _, n, hn => by simp [termVars] at hn
  | .const c :: ts, vs, hs, n, hn => by
    simp only [substTerms, Option.map_eq_some_iff] at hs
    obtain ⟨a, ha, _⟩ := hs
    simp only [termVars] at hn
    exact substTerms_defined ts a ha n hn
  | .var m :: ts, vs, hs, n, hn => by
    simp only [substTerms] at hs
    cases hl : Bindings.lookup σ m with
    | none => simp [hl] at hs
    | some v =>
      rw [hl] at hs
      simp only [Option.map_eq_some_iff] at hs
      obtain ⟨a, ha, _⟩ := hs
      simp only [termVars, List.mem_cons] at hn
      rcases hn with rfl | hn
      · exact ⟨v, hl⟩
      · exact substTerms_defined ts a ha n hn

theorem substHead_mono {σ τ : Bindings V} (h : Agree σ τ) (p : Pred V) (g : Fact V)
    (hs : substHead p σ = some g) : substHead p τ = some g := by
  simp only [substHead, Option.map_eq_some_iff] at hs ⊢
  obtain ⟨a, ha, rfl⟩ := hs
  exact ⟨a, substTerms_mono h _ _ ha, rfl⟩

theorem substHead_congr {σ τ : Bindings V}
    (h : ∀ n, Bindings.lookup σ n = Bindings.lookup τ n) (p : Pred V) :
    substHead p σ = substHead p τ := by
  simp only [substHead, substTerms_congr h]

/-! ### unifyTerms -/

theorem unifyTerms_sound : ∀ (ts : List (Term V)) (vs : List V) (σ τ : Bindings V),
    unifyTerms ts vs σ = some τ →
    Agree σ τ ∧ substTerms τ ts = some vs ∧
      (∀ n v, Bindings.lookup τ n = some v → Bindings.lookup σ n = some v ∨ n ∈ termVars ts) := by
  intro ts
  induction ts with
  | nil =>
    intro vs σ τ h
    cases vs with
    | nil =>
      simp only [unifyTerms, Option.some.injEq] at h
      subst h
      exact ⟨Agree.refl _, rfl, fun n v hv => Or.inl hv⟩
    | cons v vs => simp [unifyTerms] at h
  | cons t ts ih =>
    intro vs σ τ h
    cases vs with
    | nil => cases t <;> simp [unifyTerms] at h
    | cons v vs =>
      cases t with
      | const c =>
        simp only [unifyTerms] at h
        split at h
        · next hc =>
          subst hc
          obtain ⟨h1, h2, h3⟩ := ih vs σ τ h
          refine ⟨h1, ?_, ?_⟩
          · simp [substTerms, h2]
          · intro n w hw
            simpa [termVars] using h3 n w hw
        · cases h
      | var n =>
        simp only [unifyTerms] at h
        split at h
        · next w hw =>
          split at h
          · next hwv =>
            subst hwv
            obtain ⟨h1, h2, h3⟩ := ih vs σ τ h
            refine ⟨h1, ?_, ?_⟩
            · simp [substTerms, h2, h1 n w hw]
            · intro m u hu
              rcases h3 m u hu with h' | h'
              · exact Or.inl h'
              · exact Or.inr (by simp [termVars, h'])
          · cases h
        · next hn =>
          obtain ⟨h1, h2, h3⟩ := ih vs ((n, v) :: σ) τ h
          have hnv : Bindings.lookup τ n = some v := by
            apply h1; simp [Bindings.lookup_cons]
          refine ⟨Agree.of_cons hn h1, ?_, ?_⟩
          · simp [substTerms, h2, hnv]
          · intro m u hu
            rcases h3 m u hu with h' | h'
            · rw [Bindings.lookup_cons] at h'
              split at h'
              · next heq => subst heq; exact Or.inr (by simp [termVars])
              · exact Or.inl h'
            · exact Or.inr (by simp [termVars, h'])

theorem unifyTerms_complete : ∀ (ts : List (Term V)) (vs : List V) (σ σ' : Bindings V),
    substTerms σ' ts = some vs → Agree σ σ' →
    ∃ τ, unifyTerms ts vs σ = some τ ∧ Agree τ σ' := by
  intro ts
  induction ts with
  | nil =>
    intro vs σ σ' hs ha
    simp only [substTerms, Option.some.injEq] at hs
    subst hs
    exact ⟨σ, rfl, ha⟩
  | cons t ts ih =>
    intro vs σ σ' hs ha
    cases t with
    | const c =>
      simp only [substTerms, Option.map_eq_some_iff] at hs
      obtain ⟨a, has, rfl⟩ := hs
      obtain ⟨τ, h1, h2⟩ := ih a σ σ' has ha
      exact ⟨τ, by simp [unifyTerms, h1], h2⟩
    | var n =>
      simp only [substTerms] at hs
      cases hl : Bindings.lookup σ' n with
      | none => simp [hl] at hs
      | some v =>
        rw [hl] at hs
        simp only [Option.map_eq_some_iff] at hs
        obtain ⟨a, has, rfl⟩ := hs
        cases hσ : Bindings.lookup σ n with
        | some w =>
          have : w = v := by
            have := ha n w hσ
            rw [hl] at this
            exact (Option.some.inj this).symm
          subst this
          obtain ⟨τ, h1, h2⟩ := ih a σ σ' has ha
          exact ⟨τ, by simp [unifyTerms, hσ, h1], h2⟩
        | none =>
          have ha' : Agree ((n, v) :: σ) σ' := by
            intro m u hm
            rw [Bindings.lookup_cons] at hm
            split at hm
            · next heq => subst heq; cases hm; exact hl
            · exact ha m u hm
          obtain ⟨τ, h1, h2⟩ := ih a ((n, v) :: σ) σ' has ha'
          exact ⟨τ, by simp [unifyTerms, hσ, h1], h2⟩

/-! ### unifyPred / solve -/

theorem unifyPred_sound (p : Pred V) (f : Fact V) (σ τ : Bindings V)
    (h : unifyPred p f σ = some τ) :
    Agree σ τ ∧ substHead p τ = some f ∧
      (∀ n v, Bindings.lookup τ n = some v →
        Bindings.lookup σ n = some v ∨ n ∈ termVars p.terms) := by
  simp only [unifyPred] at h
  split at h
  · next hn =>
    obtain ⟨h1, h2, h3⟩ := unifyTerms_sound _ _ _ _ h
    refine ⟨h1, ?_, h3⟩
    cases f
    simp only [substHead, h2, Option.map_some]
    simp_all
  · cases h

theorem unifyPred_complete (p : Pred V) (f : Fact V) (σ σ' : Bindings V)
    (hs : substHead p σ' = some f) (ha : Agree σ σ') :
    ∃ τ, unifyPred p f σ = some τ ∧ Agree τ σ' := by
  simp only [substHead, Option.map_eq_some_iff] at hs
  obtain ⟨a, has, rfl⟩ := hs
  obtain ⟨τ, h1, h2⟩ := unifyTerms_complete _ _ σ σ' has ha
  exact ⟨τ, by simp [unifyPred, h1], h2⟩

theorem mem_bodyVars_cons (p : Pred V) (ps : List (Pred V)) (n : Bytes) :
    n ∈ bodyVars (p :: ps) ↔ n ∈ termVars p.terms ∨ n ∈ bodyVars ps := by
  simp [bodyVars]

theorem solve_sound (S : List (Fact V)) : ∀ (body : List (Pred V)) (σ τ : Bindings V),
    τ ∈ solve S body σ →
    Agree σ τ ∧ (∀ p ∈ body, ∃ g, substHead p τ = some g ∧ g ∈ S) ∧
      (∀ n v, Bindings.lookup τ n = some v →
        Bindings.lookup σ n = some v ∨ n ∈ bodyVars body) := by
  intro body
  induction body with
  | nil =>
    intro σ τ h
    simp only [solve, List.mem_singleton] at h
    subst h
    exact ⟨Agree.refl _, by simp, fun n v hv => Or.inl hv⟩
  | cons p ps ih =>
    intro σ τ h
    simp only [solve, List.mem_flatMap] at h
    obtain ⟨f, hf, hτ⟩ := h
    cases hu : unifyPred p f σ with
    | none => simp [hu] at hτ
    | some σ₁ =>
      rw [hu] at hτ
      obtain ⟨a1, a2, a3⟩ := unifyPred_sound p f σ σ₁ hu
      obtain ⟨b1, b2, b3⟩ := ih σ₁ τ hτ
      refine ⟨a1.trans b1, ?_, ?_⟩
      · intro q hq
        rcases List.mem_cons.mp hq with rfl | hq
        · exact ⟨f, substHead_mono b1 _ _ a2, hf⟩
        · exact b2 q hq
      · intro n v hv
        rw [mem_bodyVars_cons]
        rcases b3 n v hv with h' | h'
        · rcases a3 n v h' with h'' | h''
          · exact Or.inl h''
          · exact Or.inr (Or.inl h'')
        · exact Or.inr (Or.inr h')

theorem solve_complete (S : List (Fact V)) : ∀ (body : List (Pred V)) (σ σ' : Bindings V),
    (∀ p ∈ body, ∃ g, substHead p σ' = some g ∧ g ∈ S) → Agree σ σ' →
    ∃ τ, τ ∈ solve S body σ ∧ Agree τ σ' := by
  intro body
  induction body with
  | nil =>
    intro σ σ' _ ha
    exact ⟨σ, by simp [solve], ha⟩
  | cons p ps ih =>
    intro σ σ' hb ha
    obtain ⟨g, hg, hgS⟩ := hb p (List.mem_cons_self ..)
    obtain ⟨σ₁, h1, h2⟩ := unifyPred_complete p g σ σ' hg ha
    obtain ⟨τ, h3, h4⟩ := ih σ₁ σ' (fun q hq => hb q (List.mem_cons_of_mem _ hq)) h2
    refine ⟨τ, ?_, h4⟩
    simp only [solve, List.mem_flatMap]
    exact ⟨g, hgS, by rw [h1]; exact h3⟩

/-- A substitution that instantiates the whole body is defined on all body variables. -/
theorem body_defined (body : List (Pred V)) (σ : Bindings V)
    (h : ∀ p ∈ body, ∃ g, substHead p σ = some g) :
    ∀ n ∈ bodyVars body, ∃ v, Bindings.lookup σ n = some v := by
  intro n hn
  simp only [bodyVars, List.mem_flatMap] at hn
  obtain ⟨p, hp, hnp⟩ := hn
  obtain ⟨g, hg⟩ := h p hp
  simp only [substHead, Option.map_eq_some_iff] at hg
  obtain ⟨a, ha, _⟩ := hg
  exact substTerms_defined _ _ ha n hnp

/-- Two substitutions, one extending the other, the larger bound only on body
variables and the smaller defined on all of them, are lookup-equal. -/
theorem lookup_eq_of_agree (body : List (Pred V)) (τ σ' : Bindings V)
    (ha : Agree τ σ')
    (hdef : ∀ n ∈ bodyVars body, ∃ v, Bindings.lookup τ n = some v)
    (hdom : ∀ n v, Bindings.lookup σ' n = some v → n ∈ bodyVars body) :
    ∀ n, Bindings.lookup τ n = Bindings.lookup σ' n := by
  intro n
  cases h' : Bindings.lookup σ' n with
  | some v =>
    obtain ⟨w, hw⟩ := hdef n (hdom n v h')
    have := ha n w hw
    rw [h'] at this
    rw [hw, this]
  | none =>
    cases hτ : Bindings.lookup τ n with
    | none => rfl
    | some w =>
      have := ha n w hτ
      rw [h'] at this
      cases this

/-! ### checkExprs -/

theorem checkExprs_congr (ev : Bindings V → E → Outcome Bool) (hev : EvRespects ev)
    {σ τ : Bindings V} (h : ∀ n, Bindings.lookup σ n = Bindings.lookup τ n) :
    ∀ es : List E, checkExprs ev σ es = checkExprs ev τ es
  | [] => rfl
  | e :: es => by
    simp only [checkExprs, hev σ τ h e, checkExprs_congr ev hev h es]

/-! ### insertFact / insertAll -/

theorem mem_insertFact (s : List (Fact V)) (g f : Fact V) :
    f ∈ insertFact s g ↔ f ∈ s ∨ f = g := by
  unfold insertFact
  split
  · next hc =>
    have hg : g ∈ s := by simpa using hc
    constructor
    · exact Or.inl
    · rintro (h | rfl)
      · exact h
      · exact hg
  · simp

theorem nodup_insertFact (s : List (Fact V)) (g : Fact V) (hs : s.Nodup) :
    (insertFact s g).Nodup := by
  unfold insertFact
  split
  · exact hs
  · next hc =>
    have hg : g ∉ s := by simpa using hc
    rw [List.nodup_append]
    refine ⟨hs, by simp, ?_⟩
    intro a ha b hb
    simp only [List.mem_singleton] at hb
    subst hb
    intro heq; subst heq; exact hg ha

theorem mem_insertAll : ∀ (new s : List (Fact V)) (f : Fact V),
    f ∈ insertAll s new ↔ f ∈ s ∨ f ∈ new
  | [], s, f => by simp [insertAll]
  | g :: gs, s, f => by
    simp only [insertAll, mem_insertAll gs, mem_insertFact, List.mem_cons, or_assoc]

theorem nodup_insertAll : ∀ (new s : List (Fact V)), s.Nodup → (insertAll s new).Nodup
  | [], s, hs => by simpa [insertAll] using hs
  | g :: gs, s, hs => by
    simp only [insertAll]
    exact nodup_insertAll gs _ (nodup_insertFact s g hs)

theorem insertFact_prefix (s : List (Fact V)) (g : Fact V) : ∃ t, insertFact s g = s ++ t := by
  unfold insertFact
  split
  · exact ⟨[], by simp⟩
  · exact ⟨[g], rfl⟩

theorem insertAll_prefix : ∀ (new s : List (Fact V)), ∃ t, insertAll s new = s ++ t
  | [], s => ⟨[], by simp [insertAll]⟩
  | g :: gs, s => by
    obtain ⟨t₁, h₁⟩ := insertFact_prefix s g
    obtain ⟨t₂, h₂⟩ := insertAll_prefix gs (insertFact s g)
    exact ⟨t₁ ++ t₂, by rw [insertAll, h₂, h₁, List.append_assoc]⟩

theorem insertAll_eq_of_length (s new : List (Fact V))
    (h : (insertAll s new).length = s.length) : insertAll s new = s := by
  obtain ⟨t, ht⟩ := insertAll_prefix new s
  rw [ht] at h ⊢
  simp only [List.length_append] at h
  have : t = [] := List.eq_nil_of_length_eq_zero (by omega)
  simp [this]

/-! ### applyCombos / applyRule -/

theorem applyCombos_spec (ev : Bindings V → E → Outcome Bool) (r : Rule V E) :
    ∀ (cs : List (Bindings V)) (acc out : List (Fact V)),
    applyCombos ev r cs acc = (out, none) → ∀ f,
    (f ∈ out ↔ f ∈ acc ∨
      ∃ σ, σ ∈ cs ∧ checkExprs ev σ r.exprs = .ok true ∧ substHead r.head σ = some f) := by
  intro cs
  induction cs with
  | nil =>
    intro acc out h f
    simp only [applyCombos, Prod.mk.injEq, and_true] at h
    subst h
    simp
  | cons σ rest ih =>
    intro acc out h f
    simp only [applyCombos] at h
    split at h
    · simp at h
    · simp at h
    · next hc =>
      rw [ih acc out h f]
      constructor
      · rintro (h' | ⟨τ, hτ, h1, h2⟩)
        · exact Or.inl h'
        · exact Or.inr ⟨τ, List.mem_cons_of_mem _ hτ, h1, h2⟩
      · rintro (h' | ⟨τ, hτ, h1, h2⟩)
        · exact Or.inl h'
        · rcases List.mem_cons.mp hτ with rfl | hτ
          · rw [hc] at h1; cases h1
          · exact Or.inr ⟨τ, hτ, h1, h2⟩
    · next hc =>
      split at h
      · simp at h
      · next g hg =>
        rw [ih _ out h f, mem_insertFact]
        constructor
        · rintro ((h' | rfl) | ⟨τ, hτ, h1, h2⟩)
          · exact Or.inl h'
          · exact Or.inr ⟨σ, List.mem_cons_self .., hc, hg⟩
          · exact Or.inr ⟨τ, List.mem_cons_of_mem _ hτ, h1, h2⟩
        · rintro (h' | ⟨τ, hτ, h1, h2⟩)
          · exact Or.inl (Or.inl h')
          · rcases List.mem_cons.mp hτ with rfl | hτ
            · rw [hg] at h2; cases h2; exact Or.inl (Or.inr rfl)
            · exact Or.inr ⟨τ, hτ, h1, h2⟩

theorem applyRule_spec (ev : Bindings V → E → Outcome Bool) (hev : EvRespects ev)
    (r : Rule V E) (S acc out : List (Fact V))
    (h : applyRule ev r S acc = (out, none)) (f : Fact V) :
    f ∈ out ↔ f ∈ acc ∨ ∃ σ, Sat ev r S σ ∧ instPred r.head σ = some f := by
  unfold applyRule at h
  rw [applyCombos_spec ev r _ acc out h f]
  constructor
  · rintro (h' | ⟨τ, hτ, h1, h2⟩)
    · exact Or.inl h'
    · obtain ⟨_, b2, b3⟩ := solve_sound S r.body [] τ hτ
      refine Or.inr ⟨τ, ⟨b2, ?_, h1⟩, h2⟩
      intro n v hv
      rcases b3 n v hv with h'' | h''
      · simp [Bindings.lookup_nil] at h''
      · exact h''
  · rintro (h' | ⟨σ', hsat, hhead⟩)
    · exact Or.inl h'
    · obtain ⟨τ, hτ, hag⟩ := solve_complete S r.body [] σ' hsat.body (Agree.nil _)
      obtain ⟨_, b2, _⟩ := solve_sound S r.body [] τ hτ
      have hdef := body_defined r.body τ (fun p hp => (b2 p hp).imp fun g hg => hg.1)
      have heq := lookup_eq_of_agree r.body τ σ' hag hdef hsat.dom
      refine Or.inr ⟨τ, hτ, ?_, ?_⟩
      · rw [checkExprs_congr ev hev heq]; exact hsat.exprs
      · rw [substHead_congr heq]; exact hhead

/-! ### stepAll -/

theorem stepAll_spec (ev : Bindings V → E → Outcome Bool) (hev : EvRespects ev)
    (S : List (Fact V)) : ∀ (P : List (Rule V E)) (acc out : List (Fact V)),
    stepAll ev S P acc = (out, none) → ∀ f,
    (f ∈ out ↔ f ∈ acc ∨ ∃ r, r ∈ P ∧ ∃ σ, Sat ev r S σ ∧ instPred r.head σ = some f) := by
  intro P
  induction P with
  | nil =>
    intro acc out h f
    simp only [stepAll, Prod.mk.injEq, and_true] at h
    subst h
    simp
  | cons r rs ih =>
    intro acc out h f
    simp only [stepAll] at h
    split at h
    · next acc' hr =>
      rw [ih acc' out h f, applyRule_spec ev hev r S acc acc' hr f]
      constructor
      · rintro ((h' | ⟨σ, h1, h2⟩) | ⟨q, hq, σ, h1, h2⟩)
        · exact Or.inl h'
        · exact Or.inr ⟨r, List.mem_cons_self .., σ, h1, h2⟩
        · exact Or.inr ⟨q, List.mem_cons_of_mem _ hq, σ, h1, h2⟩
      · rintro (h' | ⟨q, hq, σ, h1, h2⟩)
        · exact Or.inl (Or.inl h')
        · rcases List.mem_cons.mp hq with rfl | hq
          · exact Or.inl (Or.inr ⟨σ, h1, h2⟩)
          · exact Or.inr ⟨q, hq, σ, h1, h2⟩
    · simp at h

/-! ### run -/

/-- Invariant principle for successful runs. -/
theorem run_invariant (ev : Bindings V → E → Outcome Bool)
    (maxFacts : Nat) (P : List (Rule V E)) (Q : List (Fact V) → Prop)
    (hstep : ∀ S new, Q S → stepAll ev S P [] = (new, none) → Q (insertAll S new)) :
    ∀ (n : Nat) (F W : List (Fact V)), Q F → run ev maxFacts P n F = (W, none) → Q W := by
  intro n
  induction n with
  | zero => intro F W _ h; simp [run] at h
  | succ n ih =>
    intro F W hQ h
    simp only [run] at h
    split at h
    · simp at h
    · next new hs =>
      have hQ' := hstep F new hQ hs
      split at h
      · simp at h
      · split at h
        · simp only [Prod.mk.injEq, and_true] at h
          subst h; exact hQ'
        · exact ih _ W hQ' h

theorem run_fixpoint_aux (ev : Bindings V → E → Outcome Bool)
    (maxFacts : Nat) (P : List (Rule V E)) :
    ∀ (n : Nat) (F W : List (Fact V)), run ev maxFacts P n F = (W, none) →
    ∃ new, stepAll ev W P [] = (new, none) ∧ ∀ f ∈ new, f ∈ W := by
  intro n
  induction n with
  | zero => intro F W h; simp [run] at h
  | succ n ih =>
    intro F W h
    simp only [run] at h
    split at h
    · simp at h
    · next new hs =>
      split at h
      · simp at h
      · split at h
        · next hlen =>
          simp only [Prod.mk.injEq, and_true] at h
          have heq := insertAll_eq_of_length F new hlen
          rw [heq] at h
          subst h
          refine ⟨new, hs, ?_⟩
          intro f hf
          rw [← heq, mem_insertAll]
          exact Or.inr hf
        · exact ih _ W h

theorem derivable_least (ev : Bindings V → E → Outcome Bool)
    (P : List (Rule V E)) (F : List (Fact V)) (M : Fact V → Prop)
    (hbase : ∀ f ∈ F, M f)
    (hclosed : ∀ r ∈ P, ∀ σ f,
      (∀ p ∈ r.body, ∃ g, instPred p σ = some g ∧ M g) →
      (∀ n v, σ.lookup n = some v → n ∈ bodyVars r.body) →
      checkExprs ev σ r.exprs = .ok true →
      instPred r.head σ = some f → M f) :
    ∀ f, Derivable ev P F f → M f := by
  intro f hd
  induction hd with
  | base hf => exact hbase _ hf
  | rule hr hsome _ hdom hex hhead ih =>
    refine hclosed _ hr _ _ ?_ hdom hex hhead
    intro p hp
    have := hsome p hp
    rw [Option.isSome_iff_exists] at this
    obtain ⟨g, hg⟩ := this
    exact ⟨g, hg, ih p hp g hg⟩

/-- Derivability from derivable facts is derivability. -/
theorem derivable_trans (ev : Bindings V → E → Outcome Bool)
    (P : List (Rule V E)) (F F' : List (Fact V))
    (hF' : ∀ g ∈ F', Derivable ev P F g) :
    ∀ f, Derivable ev P F' f → Derivable ev P F f := by
  intro f hd
  induction hd with
  | base hf => exact hF' _ hf
  | rule hr hsome _ hdom hex hhead ih =>
    exact Derivable.rule hr hsome ih hdom hex hhead

theorem run_sound (ev : Bindings V → E → Outcome Bool) (hev : EvRespects ev)
    (maxFacts : Nat) (P : List (Rule V E)) (maxIter : Nat) (F W : List (Fact V))
    (h : run ev maxFacts P maxIter F = (W, none)) :
    ∀ f ∈ W, Derivable ev P F f := by
  refine run_invariant ev maxFacts P (fun S => ∀ f ∈ S, Derivable ev P F f) ?_
    maxIter F W (fun f hf => Derivable.base hf) h
  intro S new hS hs f hf
  rw [mem_insertAll] at hf
  rcases hf with hf | hf
  · exact hS f hf
  · rw [stepAll_spec ev hev S P [] new hs f] at hf
    rcases hf with hf | ⟨r, hr, σ, hsat, hhead⟩
    · cases hf
    · apply derivable_trans ev P F S hS
      refine Derivable.rule hr ?_ ?_ hsat.dom hsat.exprs hhead
      · intro p hp
        obtain ⟨g, hg, _⟩ := hsat.body p hp
        simp [hg]
      · intro p hp g hg
        obtain ⟨g', hg', hmem⟩ := hsat.body p hp
        rw [hg] at hg'
        cases hg'
        exact Derivable.base hmem

theorem run_fixpoint (ev : Bindings V → E → Outcome Bool)
    (maxFacts : Nat) (P : List (Rule V E)) (maxIter : Nat) (F W : List (Fact V))
    (h : run ev maxFacts P maxIter F = (W, none)) :
    ∃ new, stepAll ev W P [] = (new, none) ∧ ∀ f ∈ new, f ∈ W :=
  run_fixpoint_aux ev maxFacts P maxIter F W h

theorem run_complete (ev : Bindings V → E → Outcome Bool) (hev : EvRespects ev)
    (maxFacts : Nat) (P : List (Rule V E)) (maxIter : Nat) (F W : List (Fact V))
    (h : run ev maxFacts P maxIter F = (W, none)) :
    ∀ f, Derivable ev P F f → f ∈ W := by
  have hsub : ∀ f ∈ F, f ∈ W := by
    refine run_invariant ev maxFacts P (fun S => ∀ f ∈ F, f ∈ S) ?_ maxIter F W
      (fun f hf => hf) h
    intro S new hS _ f hf
    rw [mem_insertAll]
    exact Or.inl (hS f hf)
  obtain ⟨new, hs, hnew⟩ := run_fixpoint ev maxFacts P maxIter F W h
  apply derivable_least ev P F (fun f => f ∈ W) hsub
  intro r hr σ f hbody hdom hex hhead
  apply hnew
  rw [stepAll_spec ev hev W P [] new hs f]
  exact Or.inr ⟨r, hr, σ, ⟨hbody, hdom, hex⟩, hhead⟩

theorem run_nodup (ev : Bindings V → E → Outcome Bool)
    (maxFacts : Nat) (P : List (Rule V E)) (maxIter : Nat) (F W : List (Fact V))
    (hF : F.Nodup) (h : run ev maxFacts P maxIter F = (W, none)) : W.Nodup := by
  refine run_invariant ev maxFacts P (fun S => S.Nodup) ?_ maxIter F W hF h
  intro S new hS _
  exact nodup_insertAll new S hS

/-! ### The concrete evaluator -/

theorem stepOp_congr (cfg : EvalCfg) {σ τ : Bindings Val}
    (h : ∀ n, Bindings.lookup σ n = Bindings.lookup τ n) (st : List Val) (op : Op) :
    stepOp cfg σ st op = stepOp cfg τ st op := by
  cases op with
  | value t =>
    cases t with
    | var n => simp only [stepOp, h n]
    | const v => simp only [stepOp]
  | unary u => simp only [stepOp]
  | binary b => simp only [stepOp]

theorem runOps_congr (cfg : EvalCfg) {σ τ : Bindings Val}
    (h : ∀ n, Bindings.lookup σ n = Bindings.lookup τ n) :
    ∀ (ops : List Op) (st : List Val), runOps cfg σ ops st = runOps cfg τ ops st
  | [], _ => rfl
  | op :: ops, st => by
    simp only [runOps, stepOp_congr cfg h st op]
    congr 1
    funext st'
    exact runOps_congr cfg h ops st'

theorem evalBool_respects (cfg : EvalCfg) : EvRespects (evalBool cfg) := by
  intro σ τ h e
  simp only [evalBool, eval, runOps_congr cfg h e []]

end Biscuit
