/-
Proofs/PrintText — the character-level printer `Printer.print*` against the token-level
reference rendering `Render.render*`, the lexer and the parser.

A. Layout algebra: `Seg cs ts` says that the characters `cs` are the well-formed tokens `ts`
   written with an admissible layout (`Layout.LayoutOK`) and no gap after the last token;
   segments compose (`Seg.append`) when the junction is blank-separated or `needSep` allows
   an empty gap.
B. The printed style on syntax trees (`lay*`: `name(t1, t2)`, `head <- b1, b2, e1`,
   `check if q1 or q2`, ` op ` with single spaces, `recv.method(arg)`, `!x`, `(x)`, `[a, b]`) and
   `print* = lay* ∘ quote*`, unconditionally (`printPred_eq`, `printExpr_eq`, `printRule_eq`,
   `printCheck_eq`): the string stack machine of `Expression.Print` and the tree stack machine
   `Quote.quoteOps` run in lock step.
C. `Seg (layItem it) (renderItem it)` for every statement that is well formed as a tree
   (`C14Items.ItemWF`), lexically (`C14Text.itemLexOK`) and whose method receivers end in a
   token that tolerates a directly following `.` (`itemDotOK`); consequences for the lexer
   and the parser.
D. Content level: the printable domain (`printable*`), what it gives for the quoted trees
   (`quoteFact_ok`, `quoteRule_ok`, `quoteCheck_ok`: `ItemWF`, `itemLexOK`, `itemDotOK`),
   denotation (`denote* (quote* x) = some (norm* x)`; `toPostfix_quoteOps`: the tree machine
   inverts the postfix emission), and UTF-8 (`charsOfBytes (strBytes s) = s.toList`).

Literal writers against literal readers (digits, hex, dates): `Proofs/PrintDates`.
-/
import BiscuitModel.Model.Quote
import BiscuitModel.Proofs.PrintDates
import BiscuitModel.Props.C14Text
import BiscuitModel.Props.C14Layout

namespace Biscuit.PrintText
open Biscuit Biscuit.Grammar Biscuit.Printer Biscuit.Render Biscuit.Quote Biscuit.C14Lexer
open Biscuit.C14Layout Biscuit.C14Text Biscuit.PrintDates

/-! ## A. Layout algebra -/

/-- `cs` is the token list `ts` (non-empty, well-formed tokens) written with an admissible
layout and WITHOUT a gap after the last token. -/
def Seg (cs : List Char) (ts : List Tok) : Prop :=
  (∀ t ∈ ts, TokWF t) ∧
  ∃ gaps : List (List Char), gaps.length + 1 = ts.length ∧ cs = spellWith gaps ts ∧ LayoutOK gaps ts

theorem Seg.ne_nil {cs ts} (h : Seg cs ts) : ts ≠ [] := by
  obtain ⟨_, gaps, hl, _, _⟩ := h
  intro e; subst e; simp at hl

theorem seg_single (t : Tok) (h : TokWF t) : Seg (spellTok t) [t] :=
  ⟨by simpa using h, [], rfl, by simp [spellWith], rfl⟩

/-- The junction condition: an empty gap is allowed only where `needSep` says so. -/
def junction (g : List Char) (t1 t2 : List Tok) : Prop :=
  g.all isBlank = true ∧ (g ≠ [] ∨ ∀ a ∈ t1.getLast?, ∀ b ∈ t2.head?, needSep a b = false)

theorem spellWith_append (t1 : List Tok) : ∀ (gaps1 : List (List Char)) (g : List Char)
    (gaps2 : List (List Char)) (t2 : List Tok), gaps1.length + 1 = t1.length →
    spellWith (gaps1 ++ g :: gaps2) (t1 ++ t2) = spellWith gaps1 t1 ++ (g ++ spellWith gaps2 t2) := by
  induction t1 with
  | nil => intro gaps1 g gaps2 t2 h; simp at h
  | cons a r ih =>
    intro gaps1 g gaps2 t2 h
    cases r with
    | nil =>
      have : gaps1 = [] := by cases gaps1 with | nil => rfl | cons _ _ => simp at h
      subst this
      simp [spellWith]
    | cons a' r' =>
      cases gaps1 with
      | nil => simp at h
      | cons g1 gs1 =>
        have h' : gs1.length + 1 = (a' :: r').length := by simpa using h
        have := ih gs1 g gaps2 t2 h'
        simp only [List.cons_append, spellWith] at this ⊢
        rw [this]; simp [List.append_assoc]

theorem layoutOK_append (t1 : List Tok) : ∀ (gaps1 : List (List Char)) (g : List Char)
    (gaps2 : List (List Char)) (t2 : List Tok), gaps1.length + 1 = t1.length → t2 ≠ [] →
    layoutOK gaps1 t1 = true → layoutOK gaps2 t2 = true → junction g t1 t2 →
    layoutOK (gaps1 ++ g :: gaps2) (t1 ++ t2) = true := by
  induction t1 with
  | nil => intro gaps1 g gaps2 t2 h; simp at h
  | cons a r ih =>
    intro gaps1 g gaps2 t2 h hne h1 h2 hj
    cases r with
    | nil =>
      have : gaps1 = [] := by cases gaps1 with | nil => rfl | cons _ _ => simp at h
      subst this
      cases t2 with
      | nil => exact absurd rfl hne
      | cons b r2 =>
        obtain ⟨hb, hs⟩ := hj
        simp only [List.nil_append, List.cons_append, layoutOK, hb, h2, Bool.true_and, Bool.and_true,
          Bool.or_eq_true, Bool.not_eq_true', List.isEmpty_eq_false_iff]
        rcases hs with hs | hs
        · exact Or.inl hs
        · exact Or.inr (hs a (by simp) b (by simp))
    | cons a' r' =>
      cases gaps1 with
      | nil => simp at h
      | cons g1 gs1 =>
        have h' : gs1.length + 1 = (a' :: r').length := by simpa using h
        simp only [layoutOK, Bool.and_eq_true] at h1
        have hj' : junction g (a' :: r') t2 := by
          refine ⟨hj.1, ?_⟩
          rcases hj.2 with hs | hs
          · exact Or.inl hs
          · refine Or.inr ?_
            simpa [List.getLast?_cons_cons] using hs
        have := ih gs1 g gaps2 t2 h' hne h1.2 h2 hj'
        simp only [List.cons_append] at this ⊢
        simp only [layoutOK, this, Bool.and_true]
        rw [Bool.and_eq_true]; exact h1.1

/-- **Composition**: two segments joined by a gap. -/
theorem Seg.append {c1 c2 : List Char} {t1 t2 : List Tok} (h1 : Seg c1 t1) (h2 : Seg c2 t2)
    (g : List Char) (hj : junction g t1 t2) : Seg (c1 ++ (g ++ c2)) (t1 ++ t2) := by
  have hne := h2.ne_nil
  obtain ⟨w1, gaps1, l1, e1, o1⟩ := h1
  obtain ⟨w2, gaps2, l2, e2, o2⟩ := h2
  refine ⟨fun t ht => ?_, gaps1 ++ g :: gaps2, by simp; omega, ?_, ?_⟩
  · rcases List.mem_append.1 ht with h | h
    · exact w1 t h
    · exact w2 t h
  · rw [spellWith_append t1 gaps1 g gaps2 t2 l1, ← e1, ← e2]
  · exact layoutOK_append t1 gaps1 g gaps2 t2 l1 hne o1 o2 hj


/-! ## B. The printed style on syntax trees -/

def layAtom (t : PTerm) : List Char := (atomToks t).flatMap spellTok

def layTerm : PTerm → List Char
  | .set elts => ['['] ++ joinC ", ".toList (elts.map layAtom) ++ [']']
  | t => layAtom t

def layPred (p : PPred) : List Char :=
  p.name.toList ++ ['('] ++ joinC ", ".toList (p.terms.map layTerm) ++ [')']

def layExpr : PExpr → List Char
  | .term t => layTerm t
  | .paren e => ['('] ++ layExpr e ++ [')']
  | .neg e => '!' :: layExpr e
  | .bin op l r => layExpr l ++ [' '] ++ (binSymbol op).getD [] ++ [' '] ++ layExpr r
  | .method op recv arg => layExpr recv ++ ['.'] ++ methodName op ++ ['('] ++ layExpr arg ++ [')']
  | .length recv => layExpr recv ++ ".length()".toList

def layElem : PElem → List Char
  | .pred p => layPred p
  | .expr e => layExpr e

def layBody (es : List PElem) : List Char := joinC ", ".toList (es.map layElem)

def layRule (r : PRule) : List Char := layPred r.head ++ " <- ".toList ++ layBody r.body

def layQueries (qs : List (List PElem)) : List Char := joinC " or ".toList (qs.map layBody)

def layCheck (c : PCheck) : List Char := "check if ".toList ++ layQueries c.queries

def layPolicy (p : PPolicy) : List Char := (policyKeyword p.allow).toList ++ [' '] ++ layQueries p.queries

def layItem : PItem → List Char
  | .fact p => layPred p
  | .rule r => layRule r
  | .check c => layCheck c
  | .policy p => layPolicy p

/-! ### The printer writes the printed style of the quoted tree (unconditionally) -/

/-- A non-negative integer is quoted as its digits … -/
theorem quoteAtom_ofNat (n : Nat) : quoteAtom (.int (n : Int)) = .int (natDigits n) := by
  have : ¬ ((n : Int) < 0) := by omega
  simp only [quoteAtom, this, if_false, printInt_ofNat]

/-- … a negative one as the signed literal with the digits of its absolute value. -/
theorem quoteAtom_negSucc (m : Nat) : quoteAtom (.int (Int.negSucc m)) = .negInt (natDigits (m + 1)) := by
  have : (Int.negSucc m) < 0 := Int.negSucc_lt_zero m
  simp only [quoteAtom, this, if_true]
  rfl

theorem printAtom_eq (a : Atom) : printAtom a = layAtom (quoteAtom a) := by
  cases a with
  | bool b => cases b <;> rfl
  | int i =>
    cases i with
    | ofNat n => rw [show Int.ofNat n = (n : Int) from rfl, quoteAtom_ofNat]; simp [printAtom, layAtom, atomToks, spellTok, printInt_ofNat]
    | negSucc m => rw [quoteAtom_negSucc]; simp [printAtom, layAtom, atomToks, spellTok, printInt_negSucc]
  | _ => simp [printAtom, layAtom, quoteAtom, atomToks, spellTok]

/-- A quoted literal is never a set: as a term it is laid out as an atom. -/
theorem layTerm_quoteAtom (a : Atom) : layTerm (quoteAtom a) = layAtom (quoteAtom a) := by
  cases a with
  | int i =>
    cases i with
    | ofNat n => rw [show Int.ofNat n = (n : Int) from rfl, quoteAtom_ofNat]; rfl
    | negSucc m => rw [quoteAtom_negSucc]; rfl
  | _ => rfl

theorem map_insertSortedA (x : Atom) (l : List Atom) :
    (insertSortedA x l).map printAtom = insertSortedC (printAtom x) (l.map printAtom) := by
  induction l with
  | nil => rfl
  | cons y ys ih =>
    simp only [insertSortedA, List.map_cons, insertSortedC]
    split
    · rfl
    · simp [ih]

theorem map_sortA (l : List Atom) : (sortA l).map printAtom = sortC (l.map printAtom) := by
  unfold sortA sortC
  suffices h : ∀ acc : List Atom, (l.foldl (fun acc x => insertSortedA x acc) acc).map printAtom =
      (l.map printAtom).foldl (fun acc x => insertSortedC x acc) (acc.map printAtom) from h []
  induction l with
  | nil => intro acc; rfl
  | cons x xs ih => intro acc; simp only [List.foldl_cons, List.map_cons, ih, map_insertSortedA]

theorem printTerm_eq (t : Term Val) : printTerm t = layTerm (quoteTerm t) := by
  cases t with
  | var n => simp [printTerm, quoteTerm, layTerm, layAtom, atomToks, spellTok, quoteName]
  | const v =>
    cases v with
    | atom a =>
      rw [printTerm, quoteTerm, printAtom_eq, layTerm_quoteAtom]
    | set l =>
      simp only [printTerm, quoteTerm, layTerm, List.map_map]
      rw [← map_sortA]
      congr 3
      apply List.map_congr_left
      intro a _
      exact printAtom_eq a

theorem printPred_eq (p : Pred Val) : printPred p = layPred (quotePred p) := by
  simp only [printPred, layPred, quotePred, quoteName, String.toList_ofList, List.map_map]
  congr 3
  simp [printTerm_eq]

theorem printUnary_eq (u : UnOp) (e : PExpr) : printUnary u (layExpr e) = layExpr (quoteUnary u e) := by
  cases u <;> rfl

theorem printBinary_eq (b : BinOp) (l r : PExpr) :
    printBinary b (layExpr l) (layExpr r) = layExpr (quoteBinary b l r) := by
  cases b <;> rfl

theorem printOps_eq (ops : List Op) : ∀ (st : List PExpr),
    printOps ops (st.map layExpr) = (quoteOps ops st).map layExpr := by
  induction ops with
  | nil =>
    intro st
    match st with
    | [] => rfl
    | [e] => rfl
    | _ :: _ :: _ => rfl
  | cons o ops ih =>
    intro st
    cases o with
    | value t =>
      simp only [printOps, quoteOps, printTerm_eq]
      exact ih (.term (quoteTerm t) :: st)
    | unary u =>
      cases st with
      | nil => rfl
      | cons e st =>
        simp only [List.map_cons, printOps, quoteOps, printUnary_eq]
        exact ih (quoteUnary u e :: st)
    | binary b =>
      match st with
      | [] => rfl
      | [_] => rfl
      | r :: l :: st =>
        simp only [List.map_cons, printOps, quoteOps, printBinary_eq]
        exact ih (quoteBinary b l r :: st)

theorem printExpr_eq (ops : Expr) (e : PExpr) (h : quoteExpr ops = some e) :
    printExpr ops = layExpr e := by
  have := printOps_eq ops []
  simp only [List.map_nil] at this
  unfold quoteExpr at h
  simp [printExpr, this, h]

theorem printExpr_invalid (ops : Expr) (h : quoteExpr ops = none) :
    printExpr ops = "<invalid expression>".toList := by
  have := printOps_eq ops []
  simp only [List.map_nil] at this
  unfold quoteExpr at h
  simp [printExpr, this, h]

theorem joinC_append (sep : List Char) (xs ys : List (List Char)) :
    joinC sep (xs ++ ys) =
      joinC sep xs ++ (if !xs.isEmpty && !ys.isEmpty then sep else []) ++ joinC sep ys := by
  induction xs with
  | nil => simp [joinC]
  | cons x xs ih =>
    cases xs with
    | nil =>
      cases ys with
      | nil => simp [joinC]
      | cons y ys => simp [joinC]
    | cons x' xs =>
      simp only [List.cons_append, joinC] at ih ⊢
      rw [ih]
      simp [List.append_assoc]

theorem mapM_quoteExpr_print (exprs : List Expr) : ∀ (es : List PExpr),
    exprs.mapM quoteExpr = some es → exprs.map printExpr = es.map layExpr := by
  induction exprs with
  | nil => intro es h; simp at h; subst h; rfl
  | cons x xs ih =>
    intro es h
    rw [List.mapM_cons] at h
    cases hx : quoteExpr x with
    | none => simp [hx] at h
    | some e =>
      cases hxs : xs.mapM quoteExpr with
      | none => simp [hx, hxs] at h
      | some es' =>
        simp [hx, hxs] at h
        subst h
        simp [printExpr_eq x e hx, ih es' hxs]

theorem printBody_eq (body : List (Pred Val)) (exprs : List Expr) (es : List PElem)
    (h : quoteBody body exprs = some es) : printBody body exprs = layBody es := by
  unfold quoteBody at h
  cases hm : exprs.mapM quoteExpr with
  | none => simp [hm] at h
  | some qs =>
    simp [hm] at h
    subst h
    have hl := mapM_quoteExpr_print exprs qs hm
    have h1 : body.map printPred = (body.map (fun p => PElem.pred (quotePred p))).map layElem := by
      rw [List.map_map]
      apply List.map_congr_left
      intro p _
      exact printPred_eq p
    have h2 : exprs.map printExpr = (qs.map PElem.expr).map layElem := by
      rw [hl, List.map_map]
      rfl
    have e1 : (body.map printPred).isEmpty = body.isEmpty := by cases body <;> rfl
    have e2 : (exprs.map printExpr).isEmpty = exprs.isEmpty := by cases exprs <;> rfl
    unfold printBody layBody
    rw [List.map_append, joinC_append, ← h1, ← h2, e1, e2]

theorem printRule_eq (r : DRule) (pr : PRule) (h : quoteRule r = some pr) :
    printRule r = layRule pr := by
  unfold quoteRule at h
  cases hb : quoteBody r.body r.exprs with
  | none => simp [hb] at h
  | some b =>
    simp [hb] at h
    subst h
    unfold printRule layRule
    rw [printPred_eq, printBody_eq _ _ b hb]

theorem printCheck_eq (c : Check) (pc : PCheck) (h : quoteCheck c = some pc) :
    printCheck c = layCheck pc := by
  unfold quoteCheck at h
  cases hq : c.queries.mapM quoteQuery with
  | none => simp [hq] at h
  | some qs =>
    simp [hq] at h
    subst h
    unfold printCheck layCheck layQueries
    congr 2
    generalize c.queries = l at hq
    induction l generalizing qs with
    | nil => simp at hq; subst hq; rfl
    | cons x xs ih =>
      rw [List.mapM_cons] at hq
      cases hx : quoteQuery x with
      | none => simp [hx] at hq
      | some e =>
        cases hxs : xs.mapM quoteQuery with
        | none => simp [hx, hxs] at hq
        | some es' =>
          simp [hx, hxs] at hq
          subst hq
          rw [List.map_cons, List.map_cons, ih es' hxs]
          unfold quoteQuery at hx
          rw [printBody_eq _ _ e hx]



/-! ## C. The printed style is an admissible layout of the reference rendering -/

/-- `,` `)` `]` may follow the token directly. -/
def closer (a : Tok) : Bool :=
  !needSep a (.punct ',') && !needSep a (.punct ')') && !needSep a (.punct ']')

/-- `.` may follow the token directly. -/
def dotter (a : Tok) : Bool := !needSep a .dot

/-- The last token of the list satisfies `Q`. -/
def LastP (Q : Tok → Bool) (ts : List Tok) : Prop := ∃ a, ts.getLast? = some a ∧ Q a = true

theorem LastP.append {Q : Tok → Bool} (t1 : List Tok) {t2 : List Tok} (h : LastP Q t2) : LastP Q (t1 ++ t2) := by
  obtain ⟨a, ha, hq⟩ := h
  exact ⟨a, by simp [List.getLast?_append, ha], hq⟩

theorem LastP.single {Q : Tok → Bool} {a : Tok} (h : Q a = true) : LastP Q [a] := ⟨a, rfl, h⟩

theorem LastP.snoc {Q : Tok → Bool} (ts : List Tok) {a : Tok} (h : Q a = true) : LastP Q (ts ++ [a]) :=
  LastP.append ts (LastP.single h)

theorem LastP.cons {Q : Tok → Bool} (b : Tok) {ts : List Tok} (h : LastP Q ts) : LastP Q (b :: ts) :=
  LastP.append [b] h

/-- The receiver of `.method(…)` / `.length()` ends in a token that `.` may follow directly.
False exactly for a DATE literal as receiver (`Layout.dateCont` lists `.`: a fraction could
follow a date without zone; printed dates end in `Z`, so this is a conservative exclusion). -/
def lastDotOK (ts : List Tok) : Bool :=
  match ts.getLast? with
  | some a => dotter a
  | none => false

def exprDotOK : PExpr → Bool
  | .term _ => true
  | .paren e => exprDotOK e
  | .neg e => exprDotOK e
  | .bin _ l r => exprDotOK l && exprDotOK r
  | .method _ recv arg => exprDotOK recv && lastDotOK (renderToks recv) && exprDotOK arg
  | .length recv => exprDotOK recv && lastDotOK (renderToks recv)

def elemDotOK : PElem → Bool
  | .pred _ => true
  | .expr e => exprDotOK e

def bodyDotOK (es : List PElem) : Bool := es.all elemDotOK

def itemDotOK : PItem → Bool
  | .fact _ => true
  | .rule r => bodyDotOK r.body
  | .check c => c.queries.all bodyDotOK
  | .policy p => p.queries.all bodyDotOK

theorem Seg.tokWF {cs ts} (h : Seg cs ts) : ∀ t ∈ ts, TokWF t := h.1

/-- Two segments separated by a single space. -/
theorem Seg.appendSp {c1 c2 : List Char} {t1 t2 : List Tok} (h1 : Seg c1 t1) (h2 : Seg c2 t2) :
    Seg (c1 ++ ' ' :: c2) (t1 ++ t2) :=
  h1.append h2 [' '] ⟨rfl, Or.inl (by simp)⟩

/-- Two segments without separator. -/
theorem Seg.append0 {c1 c2 : List Char} {t1 t2 : List Tok} (h1 : Seg c1 t1) (h2 : Seg c2 t2)
    (hj : ∀ a b, t1.getLast? = some a → t2.head? = some b → needSep a b = false) :
    Seg (c1 ++ c2) (t1 ++ t2) := by
  have := h1.append h2 [] ⟨rfl, Or.inr (fun a ha b hb => hj a b (by simpa using ha) (by simpa using hb))⟩
  simpa using this

theorem Seg.snoc {c : List Char} {ts : List Tok} (h : Seg c ts) (b : Tok) (hb : TokWF b)
    (hj : ∀ a, ts.getLast? = some a → needSep a b = false) : Seg (c ++ spellTok b) (ts ++ [b]) :=
  h.append0 (seg_single b hb) (fun a b' ha hb' => by simp at hb'; subst hb'; exact hj a ha)

theorem Seg.cons {c : List Char} {ts : List Tok} (b : Tok) (hb : TokWF b) (h : Seg c ts)
    (hj : ∀ a, ts.head? = some a → needSep b a = false) : Seg (spellTok b ++ c) (b :: ts) :=
  (seg_single b hb).append0 h (fun a' a ha' ha => by simp at ha'; subst ha'; exact hj a ha)

theorem Seg.head_wf {c : List Char} {ts : List Tok} (h : Seg c ts) (a : Tok) (ha : ts.head? = some a) :
    TokWF a := h.1 a (List.mem_of_mem_head? (by simp [ha]))

/-- `(` `[` `!` directly in front of a segment. -/
theorem Seg.cons_open {c : List Char} {ts : List Tok} (p : Char) (hp : p ∈ ['(', '[', '!']) (h : Seg c ts) :
    Seg (p :: c) (.punct p :: ts) := by
  have hw : TokWF (.punct p) := by
    have : ∀ p ∈ ['(', '[', '!'], TokWF (.punct p) := by decide
    exact this p hp
  have hin : p ∈ "[!@%^#()_}:;',?".toList := by
    have : ∀ p ∈ ['(', '[', '!'], p ∈ "[!@%^#()_}:;',?".toList := by decide
    exact this p hp
  exact Seg.cons (.punct p) hw h (fun a ha => needSep_open p hin a (h.head_wf a ha))

/-- `,` `)` `]` directly after a segment that ends in a closer. -/
theorem Seg.snoc_close {c : List Char} {ts : List Tok} (h : Seg c ts) (hl : LastP closer ts) (p : Char)
    (hp : p ∈ [',', ')', ']']) : Seg (c ++ [p]) (ts ++ [.punct p]) := by
  have hw : TokWF (.punct p) := by
    have : ∀ p ∈ [',', ')', ']'], TokWF (.punct p) := by decide
    exact this p hp
  refine h.snoc (.punct p) hw (fun a ha => ?_)
  obtain ⟨a', ha', hc⟩ := hl
  rw [ha] at ha'; cases ha'
  simp only [closer, Bool.and_eq_true, Bool.not_eq_true'] at hc
  simp only [List.mem_cons, List.not_mem_nil, or_false] at hp
  rcases hp with rfl | rfl | rfl
  · exact hc.1.1
  · exact hc.1.2
  · exact hc.2

theorem closer_lit :
    (∀ s, closer (.var s) = true) ∧ (∀ b, closer (.bool b) = true) ∧ (∀ ds, closer (.int ds) = true) ∧
    (∀ ds, closer (.hex ds) = true) ∧ (∀ s, closer (.str s) = true) ∧ (∀ s, closer (.param s) = true) ∧
    (∀ s, closer (.date s) = true) ∧ closer (.punct ')') = true ∧ closer (.punct ']') = true := by
  obtain ⟨_, a2, _, a4, a5, a6, a7, a8, a9⟩ := needSep_closing ',' (by decide)
  obtain ⟨_, b2, _, b4, b5, b6, b7, b8, b9⟩ := needSep_closing ')' (by decide)
  obtain ⟨_, c2, _, c4, c5, c6, c7, c8, c9⟩ := needSep_closing ']' (by decide)
  have d1 := needSep_date_closing ',' (by decide)
  have d2 := needSep_date_closing ')' (by decide)
  have d3 := needSep_date_closing ']' (by decide)
  have e1 := a9 ')' (by decide); have e2 := b9 ')' (by decide); have e3 := c9 ')' (by decide)
  have f1 := a9 ']' (by decide); have f2 := b9 ']' (by decide); have f3 := c9 ']' (by decide)
  refine ⟨?_, ?_, ?_, ?_, ?_, ?_, ?_, ?_, ?_⟩ <;> intros <;> simp [closer, *]

theorem joinToks_eq (xs : List (List Tok)) : renderTermToks.joinToks xs = joinWith (.punct ',') xs := by
  induction xs with
  | nil => rfl
  | cons x ys ih =>
    cases ys with
    | nil => rfl
    | cons y ys => simp only [renderTermToks.joinToks, joinWith, ih]; simp

/-- Items separated by `, `. -/
theorem seg_join_comma {α : Type} (f : α → List Char) (r : α → List Tok) (xs : List α) (hne : xs ≠ [])
    (h : ∀ x ∈ xs, Seg (f x) (r x) ∧ LastP closer (r x)) :
    Seg (joinC ", ".toList (xs.map f)) (joinWith (.punct ',') (xs.map r)) ∧
      LastP closer (joinWith (.punct ',') (xs.map r)) := by
  induction xs with
  | nil => exact absurd rfl hne
  | cons x ys ih =>
    cases ys with
    | nil => exact h x (by simp)
    | cons y ys =>
      obtain ⟨sx, lx⟩ := h x (by simp)
      obtain ⟨sr, lr⟩ := ih (by simp) (fun z hz => h z (List.mem_cons_of_mem _ hz))
      have s1 := (sx.snoc_close lx ',' (by decide)).appendSp sr
      refine ⟨?_, ?_⟩
      · have e1 : joinC ", ".toList ((x :: y :: ys).map f) =
            (f x ++ [',']) ++ ' ' :: joinC ", ".toList ((y :: ys).map f) := by
          simp [joinC]
        have e2 : joinWith (.punct ',') ((x :: y :: ys).map r) =
            (r x ++ [.punct ',']) ++ joinWith (.punct ',') ((y :: ys).map r) := by
          simp [joinWith]
        rw [e1, e2]; exact s1
      · have e2 : joinWith (.punct ',') ((x :: y :: ys).map r) =
            (r x ++ [.punct ',']) ++ joinWith (.punct ',') ((y :: ys).map r) := by
          simp [joinWith]
        rw [e2]; exact LastP.append _ lr

/-- Items separated by ` or `. -/
theorem seg_join_or {α : Type} (f : α → List Char) (r : α → List Tok) (xs : List α) (hne : xs ≠ [])
    (h : ∀ x ∈ xs, Seg (f x) (r x)) :
    Seg (joinC " or ".toList (xs.map f)) (joinWith (.ident "or") (xs.map r)) := by
  induction xs with
  | nil => exact absurd rfl hne
  | cons x ys ih =>
    cases ys with
    | nil => exact h x (by simp)
    | cons y ys =>
      have sx := h x (by simp)
      have sr := ih (by simp) (fun z hz => h z (List.mem_cons_of_mem _ hz))
      have s1 := (sx.appendSp (seg_single (.ident "or") (by decide))).appendSp sr
      have e1 : joinC " or ".toList ((x :: y :: ys).map f) =
          (f x ++ ' ' :: spellTok (.ident "or")) ++ ' ' :: joinC " or ".toList ((y :: ys).map f) := by
        simp [joinC, spellTok]
      have e2 : joinWith (.ident "or") ((x :: y :: ys).map r) =
          (r x ++ [.ident "or"]) ++ joinWith (.ident "or") ((y :: ys).map r) := by
        simp [joinWith]
      rw [e1, e2]; exact s1

/-! ### Terms -/

theorem seg_layAtom (t : PTerm) (hw : C14.AtomTermWF t) (hl : atomLexOK t = true) :
    Seg (layAtom t) (atomToks t) ∧ LastP closer (atomToks t) := by
  obtain ⟨c1, c2, c3, c4, c5, c6, c7, _, _⟩ := closer_lit
  have hwf : ∀ tok ∈ atomToks t, TokWF tok := (atomLexOK_iff t).1 hl
  cases t with
  | set _ => exact absurd hw id
  | param n => exact ⟨by simpa [layAtom, atomToks] using seg_single _ (hwf _ (by simp [atomToks])), LastP.single (c6 n)⟩
  | var n => exact ⟨by simpa [layAtom, atomToks] using seg_single _ (hwf _ (by simp [atomToks])), LastP.single (c1 n)⟩
  | int ds => exact ⟨by simpa [layAtom, atomToks] using seg_single _ (hwf _ (by simp [atomToks])), LastP.single (c3 ds)⟩
  | negInt ds =>
    -- `-` directly followed by the digits: no blank is needed (nor written) after the sign
    have hd : TokWF (.int ds) := hwf _ (by simp [atomToks])
    have s := (seg_single (.op "-") (by decide)).snoc (.int ds) hd (fun a ha => by
      simp at ha; subst ha; exact needSep_minus_int ds hd)
    exact ⟨by simpa [layAtom, atomToks, spellTok] using s, LastP.cons _ (LastP.single (c3 ds))⟩
  | str s => exact ⟨by simpa [layAtom, atomToks] using seg_single _ (hwf _ (by simp [atomToks])), LastP.single (c5 s)⟩
  | date s => exact ⟨by simpa [layAtom, atomToks] using seg_single _ (hwf _ (by simp [atomToks])), LastP.single (c7 s)⟩
  | bytes ds => exact ⟨by simpa [layAtom, atomToks] using seg_single _ (hwf _ (by simp [atomToks])), LastP.single (c4 ds)⟩
  | bool b => exact ⟨by simpa [layAtom, atomToks] using seg_single _ (hwf _ (by simp [atomToks])), LastP.single (c2 b)⟩

theorem seg_layTerm (t : PTerm) (hw : C14.TermWF t) (hl : termLexOK t = true) :
    Seg (layTerm t) (renderTermToks t) ∧ LastP closer (renderTermToks t) := by
  have atomCase : ∀ t : PTerm, C14.AtomTermWF t → atomLexOK t = true → layTerm t = layAtom t →
      renderTermToks t = atomToks t → Seg (layTerm t) (renderTermToks t) ∧ LastP closer (renderTermToks t) := by
    intro t h1 h2 e1 e2
    rw [e1, e2]; exact seg_layAtom t h1 h2
  cases t with
  | set elts =>
    obtain ⟨hne, hat⟩ := hw
    simp only [termLexOK, List.all_eq_true] at hl
    obtain ⟨sj, _⟩ := seg_join_comma layAtom atomToks elts hne (fun x hx => seg_layAtom x (hat x hx) (hl x hx))
    have s := (sj.cons_open '[' (by decide)).snoc (.punct ']') (by decide) (fun a ha => by
      have : LastP closer (.punct '[' :: joinWith (.punct ',') (elts.map atomToks)) :=
        LastP.cons _ (seg_join_comma layAtom atomToks elts hne
          (fun x hx => seg_layAtom x (hat x hx) (hl x hx))).2
      obtain ⟨a', ha', hc⟩ := this
      rw [ha] at ha'; cases ha'
      simp only [closer, Bool.and_eq_true, Bool.not_eq_true'] at hc
      exact hc.2)
    rw [renderTermToks_set, joinToks_eq]
    refine ⟨by simpa [layTerm, spellTok] using s, ?_⟩
    exact LastP.snoc _ closer_lit.2.2.2.2.2.2.2.2
  | param n => exact atomCase _ trivial hl rfl rfl
  | var n => exact atomCase _ trivial hl rfl rfl
  | int ds => exact atomCase _ trivial hl rfl rfl
  | negInt ds => exact atomCase _ trivial hl rfl rfl
  | str s => exact atomCase _ trivial hl rfl rfl
  | date s => exact atomCase _ trivial hl rfl rfl
  | bytes ds => exact atomCase _ trivial hl rfl rfl
  | bool b => exact atomCase _ trivial hl rfl rfl


/-! ### Predicates -/

theorem seg_layPred (p : PPred) (hw : C14Items.PredWF p) (hl : predLexOK p = true) :
    Seg (layPred p) (renderPred p) ∧ LastP closer (renderPred p) := by
  simp only [predLexOK, Bool.and_eq_true, List.all_eq_true] at hl
  obtain ⟨hn, ht⟩ := hl
  have hid : TokWF (.ident p.name) := hn
  have s0 : Seg (p.name.toList ++ ['(']) [.ident p.name, .punct '('] :=
    (seg_single (.ident p.name) hid).snoc (.punct '(') (by decide)
      (fun a ha => by simp at ha; subst ha; exact (needSep_closing '(' (by decide)).1 _)
  have hlast : LastP closer (renderPred p) := by
    unfold renderPred
    exact LastP.cons _ (LastP.cons _ (LastP.snoc _ closer_lit.2.2.2.2.2.2.2.1))
  refine ⟨?_, hlast⟩
  cases hts : p.terms with
  | nil =>
    have s := s0.snoc (.punct ')') (by decide) (fun a ha => by
      simp at ha; subst ha; exact needSep_open '(' (by decide) _ (by decide))
    simpa [layPred, renderPred, renderTerms, hts, joinC, joinWith, spellTok] using s
  | cons t ts =>
    obtain ⟨sj, lj⟩ := seg_join_comma layTerm renderTermToks p.terms (by simp [hts])
      (fun x hx => seg_layTerm x (hw x hx) (ht x hx))
    have s1 := s0.append0 sj (fun a b ha hb => by
      simp at ha; subst ha; exact needSep_open '(' (by decide) b (sj.head_wf b hb))
    have s2 := s1.snoc_close (LastP.append _ lj) ')' (by decide)
    rw [hts] at s2
    simpa [layPred, renderPred, renderTerms, hts, List.append_assoc] using s2

/-! ### Expressions -/

theorem binSymbol_binTok (op : BinOp) : binSymbol op = (binTok op).map spellTok := by
  cases op <;> rfl

theorem methodName_methodTok (op : BinOp) (h : C14.isMethodOp op = true) :
    methodName op = spellTok (methodTok op) := by
  cases op <;> first | rfl | simp [C14.isMethodOp] at h

theorem needSep_methodTok_lparen (op : BinOp) : needSep (methodTok op) (.punct '(') = false := by
  cases op <;> decide

theorem lastDotOK_spec {ts : List Tok} (h : lastDotOK ts = true) (a : Tok) (ha : ts.getLast? = some a) :
    needSep a .dot = false := by
  simp only [lastDotOK, ha, dotter, Bool.not_eq_true'] at h
  exact h

theorem seg_layExpr (e : PExpr) (hwf : C14.WF e) (hlex : exprLexOK e = true) (hdot : exprDotOK e = true) :
    Seg (layExpr e) (renderToks e) ∧ LastP closer (renderToks e) := by
  have cparen : closer (.punct ')') = true := closer_lit.2.2.2.2.2.2.2.1
  induction e with
  | term t => exact seg_layTerm t hwf hlex
  | paren e ih =>
    obtain ⟨s, l⟩ := ih hwf hlex hdot
    have s1 := (s.snoc_close l ')' (by decide)).cons_open '(' (by decide)
    exact ⟨by simpa [layExpr, renderToks] using s1, by
      simp only [renderToks]; exact LastP.snoc _ cparen⟩
  | neg e ih =>
    obtain ⟨s, l⟩ := ih hwf.1 hlex hdot
    exact ⟨by simpa [layExpr, renderToks] using s.cons_open '!' (by decide), LastP.cons _ l⟩
  | bin op l r ihl ihr =>
    obtain ⟨wl, wr, h4, _⟩ := hwf
    simp only [exprLexOK, Bool.and_eq_true] at hlex
    simp only [exprDotOK, Bool.and_eq_true] at hdot
    obtain ⟨sl, _⟩ := ihl wl hlex.1.1 hdot.1
    obtain ⟨sr, lr⟩ := ihr wr hlex.2 hdot.2
    have hb : (binTok op).isSome := by
      cases op <;> first | rfl | (simp [C14.level] at h4)
    obtain ⟨t, ht⟩ := Option.isSome_iff_exists.mp hb
    have htw : TokWF t := TextRoundtrip.binTok_tokWF op t ht
    have s := (sl.appendSp (seg_single t htw)).appendSp sr
    refine ⟨?_, ?_⟩
    · simpa [layExpr, renderToks, binSymbol_binTok, ht, List.append_assoc] using s
    · simp only [renderToks]; exact LastP.append _ lr
  | method op recv arg ihr iha =>
    obtain ⟨hm, wr, wa, _⟩ := hwf
    simp only [exprLexOK, Bool.and_eq_true] at hlex
    simp only [exprDotOK, Bool.and_eq_true] at hdot
    obtain ⟨sr, _⟩ := ihr wr hlex.1.1 hdot.1.1
    obtain ⟨sa, la⟩ := iha wa hlex.2 hdot.2
    have hmt : TokWF (methodTok op) := hlex.1.2
    have s1 := sr.snoc .dot (by decide) (fun a ha => lastDotOK_spec hdot.1.2 a ha)
    have s2 := s1.snoc (methodTok op) hmt (fun a ha => by
      simp at ha; subst ha; exact needSep_dot _ hmt)
    have s3 := s2.snoc (.punct '(') (by decide) (fun a ha => by
      simp at ha; subst ha; exact needSep_methodTok_lparen op)
    have s4 := s3.append0 sa (fun a b ha hb => by
      simp at ha; subst ha; exact needSep_open '(' (by decide) b (sa.head_wf b hb))
    have s5 := s4.snoc_close (LastP.append _ la) ')' (by decide)
    refine ⟨?_, ?_⟩
    · simpa [layExpr, renderToks, methodName_methodTok op hm, spellTok, List.append_assoc] using s5
    · simp only [renderToks]; exact LastP.snoc _ cparen
  | length recv ih =>
    obtain ⟨wr, _⟩ := hwf
    simp only [exprDotOK, Bool.and_eq_true] at hdot
    obtain ⟨sr, _⟩ := ih wr hlex hdot.1
    have s1 := sr.snoc .dot (by decide) (fun a ha => lastDotOK_spec hdot.2 a ha)
    have s2 := s1.snoc (.func "length") (by decide) (fun a ha => by
      simp at ha; subst ha; exact needSep_dot _ (by decide))
    have s3 := s2.snoc (.punct '(') (by decide) (fun a ha => by
      simp at ha; subst ha; decide)
    have s4 := s3.snoc (.punct ')') (by decide) (fun a ha => by
      simp at ha; subst ha; decide)
    refine ⟨?_, ?_⟩
    · simpa [layExpr, renderToks, spellTok, List.append_assoc] using s4
    · simp only [renderToks]
      exact LastP.append _ (⟨.punct ')', rfl, cparen⟩ : LastP closer [.dot, .func "length", .punct '(', .punct ')'])

/-! ### Bodies, rules, checks -/

theorem checkIf_toList : "check if ".toList = "check if".toList ++ [' '] := by decide

theorem seg_layElem (e : PElem) (hw : C14Items.ElemWF e) (hl : elemLexOK e = true) (hd : elemDotOK e = true) :
    Seg (layElem e) (renderElem e) ∧ LastP closer (renderElem e) := by
  cases e with
  | pred p => exact seg_layPred p hw hl
  | expr e => exact seg_layExpr e hw hl hd

theorem seg_layBody (es : List PElem) (hw : C14Items.BodyWF es) (hl : bodyLexOK es = true)
    (hd : bodyDotOK es = true) : Seg (layBody es) (renderBody es) := by
  simp only [bodyLexOK, List.all_eq_true] at hl
  simp only [bodyDotOK, List.all_eq_true] at hd
  exact (seg_join_comma layElem renderElem es hw.1
    (fun x hx => seg_layElem x (hw.2 x hx) (hl x hx) (hd x hx))).1

theorem seg_layQueries (qs : List (List PElem)) (hw : C14Items.QueriesWF qs) (hl : queriesLexOK qs = true)
    (hd : qs.all bodyDotOK = true) : Seg (layQueries qs) (renderQueries qs) := by
  simp only [queriesLexOK, List.all_eq_true] at hl
  simp only [List.all_eq_true] at hd
  exact seg_join_or layBody renderBody qs hw.1 (fun q hq => seg_layBody q (hw.2 q hq) (hl q hq) (hd q hq))

/-- **The printed style of a statement is an admissible layout of its reference rendering.** -/
theorem seg_layItem (it : PItem) (hw : C14Items.ItemWF it) (hl : itemLexOK it = true)
    (hd : itemDotOK it = true) : Seg (layItem it) (renderItem it) := by
  cases it with
  | fact p => exact (seg_layPred p hw hl).1
  | rule r =>
    simp only [itemLexOK, ruleLexOK, Bool.and_eq_true] at hl
    have sh := (seg_layPred r.head hw.1 hl.1).1
    have sb := seg_layBody r.body hw.2 hl.2 hd
    have s := (sh.appendSp (seg_single .arrow (by decide))).appendSp sb
    have e1 : layItem (.rule r) = (layPred r.head ++ ' ' :: spellTok .arrow) ++ ' ' :: layBody r.body := by
      simp [layItem, layRule, spellTok]
    have e2 : renderItem (.rule r) = (renderPred r.head ++ [.arrow]) ++ renderBody r.body := by
      simp [renderItem, renderRule]
    rw [e1, e2]; exact s
  | check c =>
    have sq := seg_layQueries c.queries hw hl hd
    have s := (seg_single (.keyword "check if") (by decide)).appendSp sq
    have e1 : layItem (.check c) = spellTok (.keyword "check if") ++ ' ' :: layQueries c.queries := by
      show "check if ".toList ++ layQueries c.queries = "check if".toList ++ ' ' :: layQueries c.queries
      rw [checkIf_toList, List.append_assoc]; rfl
    rw [e1]; exact s
  | policy p =>
    have sq := seg_layQueries p.queries hw hl hd
    have s := (seg_single (.keyword (policyKeyword p.allow)) (TextRoundtrip.tokWF_policy p.allow)).appendSp sq
    have e1 : layItem (.policy p) =
        spellTok (.keyword (policyKeyword p.allow)) ++ ' ' :: layQueries p.queries := by
      simp [layItem, layPolicy, spellTok]
    rw [e1]; exact s

/-! ### Consequences: layout, lexer, parser -/

theorem Seg.layout {cs : List Char} {ts : List Tok} (h : Seg cs ts) :
    ∃ gaps : List (List Char), gaps.length + 1 = ts.length ∧ cs = spellWith gaps ts ∧ LayoutOK gaps ts := h.2

theorem Seg.lex {cs : List Char} {ts : List Tok} (h : Seg cs ts) : lex cs = some ts := by
  obtain ⟨hw, gaps, _, e, ok⟩ := h
  exact lex_of_layout cs [] gaps ts (by simpa using e) rfl hw ok

theorem parseSingleText_of_seg (it : PItem) (hw : C14Items.ItemWF it) {cs : List Char}
    (h : Seg cs (renderItem it)) : parseSingleText cs = some it := by
  simp only [parseSingleText, h.lex, Option.bind_some, C14Items.parseSingle_render it hw]

/-! ## D. Content level: the printable domain -/

/-- The bytes are the UTF-8 encoding of the characters the printer decodes them to
(`charsOfBytes` gives the empty text for invalid UTF-8). -/
def utf8OK (b : Bytes) : Bool := strBytes (String.ofList (charsOfBytes b)) == b

/-- 10000-01-01T00:00:00Z: from here on the year has five digits. -/
def maxDate : Nat := 253402300800

def printableAtom : Atom → Bool
  | .int i => decide (-(2 ^ 63) ≤ i) && decide (i < 2 ^ 63)     -- int64
  | .str s => utf8OK s && (charsOfBytes s).all (· != '"')
  | .date d => decide (d < maxDate)
  | .bytes _ => true
  | .bool _ => true

def printableTerm : Term Val → Bool
  | .var n => utf8OK n && nameOK (charsOfBytes n)
  | .const (.atom a) => printableAtom a
  | .const (.set l) => !l.isEmpty && l.all printableAtom

def printablePred (p : Pred Val) : Bool :=
  utf8OK p.name && identOK (charsOfBytes p.name) && p.terms.all printableTerm

/-- The operand terms of an operator sequence. -/
def printableOp : Op → Bool
  | .value t => printableTerm t
  | _ => true

instance (e : PExpr) : Decidable (C14.WF e) := C14Items.decWF e

def printableExpr (e : Expr) : Bool :=
  e.all printableOp &&
    match quoteExpr e with
    | some t => decide (C14.WF t) && exprDotOK t
    | none => false

def printableBody (body : List (Pred Val)) (exprs : List Expr) : Bool :=
  body.all printablePred && exprs.all printableExpr && !(body.isEmpty && exprs.isEmpty)

def printableRule (r : DRule) : Bool := printablePred r.head && printableBody r.body r.exprs

def printableCheck (c : Check) : Bool :=
  !c.queries.isEmpty && c.queries.all fun q => printableBody q.body q.exprs

/-! ### Sets: the printed order is a permutation -/

theorem mem_insertSortedA (x a : Atom) (l : List Atom) : x ∈ insertSortedA a l ↔ x = a ∨ x ∈ l := by
  induction l with
  | nil => simp [insertSortedA]
  | cons y ys ih =>
    simp only [insertSortedA]
    split
    · simp
    · simp only [List.mem_cons, ih]
      constructor
      · rintro (h | h | h)
        · exact Or.inr (Or.inl h)
        · exact Or.inl h
        · exact Or.inr (Or.inr h)
      · rintro (h | h | h)
        · exact Or.inr (Or.inl h)
        · exact Or.inl h
        · exact Or.inr (Or.inr h)

theorem mem_sortA (x : Atom) (l : List Atom) : x ∈ sortA l ↔ x ∈ l := by
  unfold sortA
  suffices h : ∀ acc : List Atom, x ∈ l.foldl (fun acc x => insertSortedA x acc) acc ↔ x ∈ acc ∨ x ∈ l by
    simpa using h []
  induction l with
  | nil => intro acc; simp
  | cons y ys ih =>
    intro acc
    simp only [List.foldl_cons, ih, mem_insertSortedA, List.mem_cons]
    constructor
    · rintro ((h | h) | h)
      · exact Or.inr (Or.inl h)
      · exact Or.inl h
      · exact Or.inr (Or.inr h)
    · rintro (h | h | h)
      · exact Or.inl (Or.inr h)
      · exact Or.inl (Or.inl h)
      · exact Or.inr h

theorem sortA_ne_nil (l : List Atom) (h : l ≠ []) : sortA l ≠ [] := by
  cases l with
  | nil => exact absurd rfl h
  | cons x xs =>
    intro e
    have : x ∈ sortA (x :: xs) := (mem_sortA x _).2 (by simp)
    rw [e] at this
    cases this

/-! ### Literals: lexical well-formedness of the quoted tree -/

theorem int_cases (i : Int) (h : 0 ≤ i) : ∃ n : Nat, i = (n : Int) := ⟨i.toNat, by omega⟩

theorem atomLexOK_quoteAtom (a : Atom) (_h : printableAtom a = true) : atomLexOK (quoteAtom a) = true := by
  cases a with
  | int i =>
    cases i with
    | ofNat n =>
      rw [show Int.ofNat n = (n : Int) from rfl, quoteAtom_ofNat]
      simp only [atomLexOK, natDigits_all, Bool.and_true, Bool.not_eq_true', List.isEmpty_eq_false_iff]
      exact natDigits_ne_nil n
    | negSucc m =>
      rw [quoteAtom_negSucc]
      simp only [atomLexOK, natDigits_all, Bool.and_true, Bool.not_eq_true', List.isEmpty_eq_false_iff]
      exact natDigits_ne_nil (m + 1)
  | str s =>
    simp only [printableAtom, Bool.and_eq_true] at _h
    exact _h.2
  | date d =>
    have h' : d < 253402300800 := of_decide_eq_true _h
    simp [quoteAtom, atomLexOK, (printDate_roundtrip d h').1]
  | bytes b =>
    simp only [quoteAtom, atomLexOK, printHex_all, printHex_length, Bool.true_and, beq_iff_eq]
    omega
  | bool b => rfl

theorem atomWF_quoteAtom (a : Atom) : C14.AtomTermWF (quoteAtom a) := by
  cases a with
  | int i =>
    cases i with
    | ofNat n => rw [show Int.ofNat n = (n : Int) from rfl, quoteAtom_ofNat]; trivial
    | negSucc m => rw [quoteAtom_negSucc]; trivial
  | _ => trivial

/-- A quoted literal is never a set: as a term it is checked as an atom. -/
theorem termLexOK_quoteAtom (a : Atom) : termLexOK (quoteAtom a) = atomLexOK (quoteAtom a) := by
  cases a with
  | int i =>
    cases i with
    | ofNat n => rw [show Int.ofNat n = (n : Int) from rfl, quoteAtom_ofNat]; rfl
    | negSucc m => rw [quoteAtom_negSucc]; rfl
  | _ => rfl

theorem termWF_quoteAtom (a : Atom) : C14.TermWF (quoteAtom a) := by
  cases a with
  | int i =>
    cases i with
    | ofNat n => rw [show Int.ofNat n = (n : Int) from rfl, quoteAtom_ofNat]; trivial
    | negSucc m => rw [quoteAtom_negSucc]; trivial
  | _ => trivial

theorem termLexOK_quoteTerm (t : Term Val) (h : printableTerm t = true) : termLexOK (quoteTerm t) = true := by
  cases t with
  | var n =>
    simp only [printableTerm, Bool.and_eq_true] at h
    simp only [quoteTerm, termLexOK, atomLexOK, quoteName, String.toList_ofList]
    exact h.2
  | const v =>
    cases v with
    | atom a =>
      have := atomLexOK_quoteAtom a h
      rw [quoteTerm, termLexOK_quoteAtom]; exact this
    | set l =>
      simp only [printableTerm, Bool.and_eq_true, List.all_eq_true] at h
      simp only [quoteTerm, termLexOK, List.all_eq_true, List.mem_map]
      rintro x ⟨a, ha, rfl⟩
      exact atomLexOK_quoteAtom a (h.2 a ((mem_sortA a l).1 ha))

theorem termWF_quoteTerm (t : Term Val) (h : printableTerm t = true) : C14.TermWF (quoteTerm t) := by
  cases t with
  | var n => trivial
  | const v =>
    cases v with
    | atom a => exact termWF_quoteAtom a
    | set l =>
      simp only [printableTerm, Bool.and_eq_true, Bool.not_eq_true', List.isEmpty_eq_false_iff] at h
      refine ⟨?_, ?_⟩
      · simpa using sortA_ne_nil l h.1
      · intro x hx
        obtain ⟨a, _, rfl⟩ := List.mem_map.1 hx
        exact atomWF_quoteAtom a

theorem predLexOK_quotePred (p : Pred Val) (h : printablePred p = true) : predLexOK (quotePred p) = true := by
  simp only [printablePred, Bool.and_eq_true, List.all_eq_true] at h
  simp only [predLexOK, quotePred, quoteName, String.toList_ofList, Bool.and_eq_true, List.all_eq_true,
    List.mem_map]
  refine ⟨h.1.2, ?_⟩
  rintro x ⟨t, ht, rfl⟩
  exact termLexOK_quoteTerm t (h.2 t ht)

theorem predWF_quotePred (p : Pred Val) (h : printablePred p = true) : C14Items.PredWF (quotePred p) := by
  simp only [printablePred, Bool.and_eq_true, List.all_eq_true] at h
  intro x hx
  obtain ⟨t, ht, rfl⟩ := List.mem_map.1 hx
  exact termWF_quoteTerm t (h.2 t ht)

/-! ### Expressions -/

theorem exprLexOK_quoteUnary (u : UnOp) (e : PExpr) : exprLexOK (quoteUnary u e) = exprLexOK e := by
  cases u <;> rfl

theorem exprLexOK_quoteBinary (b : BinOp) (l r : PExpr) :
    exprLexOK (quoteBinary b l r) = (exprLexOK l && exprLexOK r) := by
  cases b <;> simp [quoteBinary, binSymbol, exprLexOK, opTokOK_true, methodTok_tokWF, C14.isMethodOp]

theorem exprLexOK_quoteOps (ops : List Op) : ∀ (st : List PExpr) (e : PExpr), quoteOps ops st = some e →
    ops.all printableOp = true → (∀ x ∈ st, exprLexOK x = true) → exprLexOK e = true := by
  induction ops with
  | nil =>
    intro st e h _ hst
    match st, h with
    | [e'], h => simp [quoteOps] at h; subst h; exact hst _ (by simp)
  | cons o ops ih =>
    intro st e h hv hst
    simp only [List.all_cons, Bool.and_eq_true] at hv
    cases o with
    | value t =>
      refine ih _ e h hv.2 ?_
      intro x hx
      rcases List.mem_cons.1 hx with rfl | hx
      · exact termLexOK_quoteTerm t hv.1
      · exact hst x hx
    | unary u =>
      cases st with
      | nil => simp [quoteOps] at h
      | cons e0 st =>
        refine ih _ e h hv.2 ?_
        intro x hx
        rcases List.mem_cons.1 hx with rfl | hx
        · rw [exprLexOK_quoteUnary]; exact hst _ (by simp)
        · exact hst x (List.mem_cons_of_mem _ hx)
    | binary b =>
      match st, h with
      | r :: l :: st, h =>
        refine ih _ e h hv.2 ?_
        intro x hx
        rcases List.mem_cons.1 hx with rfl | hx
        · rw [exprLexOK_quoteBinary, hst l (by simp), hst r (by simp)]; rfl
        · exact hst x (List.mem_cons_of_mem _ (List.mem_cons_of_mem _ hx))


theorem printableExpr_spec (e : Expr) (h : printableExpr e = true) :
    ∃ t, quoteExpr e = some t ∧ C14.WF t ∧ exprLexOK t = true ∧ exprDotOK t = true := by
  simp only [printableExpr, Bool.and_eq_true] at h
  obtain ⟨hv, hm⟩ := h
  cases hq : quoteExpr e with
  | none => rw [hq] at hm; cases hm
  | some t =>
    rw [hq] at hm
    simp only [Bool.and_eq_true, decide_eq_true_eq] at hm
    exact ⟨t, rfl, hm.1, exprLexOK_quoteOps e [] t hq hv (by simp), hm.2⟩

theorem mapM_quoteExpr_ok (exprs : List Expr) (h : exprs.all printableExpr = true) :
    ∃ es, exprs.mapM quoteExpr = some es ∧ es.length = exprs.length ∧
      ∀ t ∈ es, C14.WF t ∧ exprLexOK t = true ∧ exprDotOK t = true := by
  induction exprs with
  | nil => exact ⟨[], rfl, rfl, by simp⟩
  | cons x xs ih =>
    simp only [List.all_cons, Bool.and_eq_true] at h
    obtain ⟨t, ht, hgood⟩ := printableExpr_spec x h.1
    obtain ⟨es, hes, hlen, hall⟩ := ih h.2
    refine ⟨t :: es, by simp [List.mapM_cons, ht, hes], by simp [hlen], ?_⟩
    intro t' ht'
    rcases List.mem_cons.1 ht' with rfl | ht'
    · exact hgood
    · exact hall t' ht'

/-- A body that is well formed in every respect the round trip needs. -/
def BodyGood (es : List PElem) : Prop :=
  C14Items.BodyWF es ∧ bodyLexOK es = true ∧ bodyDotOK es = true

theorem quoteBody_ok (body : List (Pred Val)) (exprs : List Expr) (h : printableBody body exprs = true) :
    ∃ es, quoteBody body exprs = some es ∧ BodyGood es := by
  simp only [printableBody, Bool.and_eq_true, Bool.not_eq_true', Bool.and_eq_false_iff,
    List.all_eq_true] at h
  obtain ⟨⟨hb, he⟩, hne⟩ := h
  obtain ⟨ts, hts, hlen, hall⟩ := mapM_quoteExpr_ok exprs (List.all_eq_true.2 he)
  refine ⟨body.map (fun p => PElem.pred (quotePred p)) ++ ts.map PElem.expr, by simp [quoteBody, hts], ?_⟩
  have hmem : ∀ e ∈ body.map (fun p => PElem.pred (quotePred p)) ++ ts.map PElem.expr,
      C14Items.ElemWF e ∧ elemLexOK e = true ∧ elemDotOK e = true := by
    intro e hm
    rcases List.mem_append.1 hm with hm | hm
    · obtain ⟨p, hp, rfl⟩ := List.mem_map.1 hm
      exact ⟨predWF_quotePred p (hb p hp), predLexOK_quotePred p (hb p hp), rfl⟩
    · obtain ⟨t, ht, rfl⟩ := List.mem_map.1 hm
      exact hall t ht
  refine ⟨⟨?_, fun e hm => (hmem e hm).1⟩, List.all_eq_true.2 (fun e hm => (hmem e hm).2.1),
    List.all_eq_true.2 (fun e hm => (hmem e hm).2.2)⟩
  intro hnil
  have h1 := congrArg List.length hnil
  simp only [List.length_append, List.length_map, List.length_nil, hlen] at h1
  rcases hne with h0 | h0
  · cases body with
    | nil => simp at h0
    | cons _ _ => simp at h1
  · cases exprs with
    | nil => simp at h0
    | cons _ _ => simp at h1

/-- **Facts**: the quoted fact is well formed in every respect. -/
theorem quoteFact_ok (p : Pred Val) (h : printablePred p = true) :
    C14Items.ItemWF (quoteFact p) ∧ itemLexOK (quoteFact p) = true ∧ itemDotOK (quoteFact p) = true :=
  ⟨predWF_quotePred p h, predLexOK_quotePred p h, rfl⟩

/-- **Rules**. -/
theorem quoteRule_ok (r : DRule) (h : printableRule r = true) :
    ∃ pr, quoteRule r = some pr ∧
      C14Items.ItemWF (.rule pr) ∧ itemLexOK (.rule pr) = true ∧ itemDotOK (.rule pr) = true := by
  simp only [printableRule, Bool.and_eq_true] at h
  obtain ⟨es, hes, hwf, hlex, hdot⟩ := quoteBody_ok r.body r.exprs h.2
  refine ⟨⟨quotePred r.head, es⟩, by simp [quoteRule, hes], ⟨predWF_quotePred _ h.1, hwf⟩, ?_, hdot⟩
  simp only [itemLexOK, ruleLexOK, predLexOK_quotePred _ h.1, hlex, Bool.and_self]

theorem mapM_quoteQuery_ok (qs : List DRule) (h : ∀ q ∈ qs, printableBody q.body q.exprs = true) :
    ∃ ps, qs.mapM quoteQuery = some ps ∧ ps.length = qs.length ∧ ∀ b ∈ ps, BodyGood b := by
  induction qs with
  | nil => exact ⟨[], rfl, rfl, by simp⟩
  | cons x xs ih =>
    obtain ⟨b, hb, hgood⟩ := quoteBody_ok x.body x.exprs (h x (by simp))
    obtain ⟨ps, hps, hlen, hall⟩ := ih (fun q hq => h q (List.mem_cons_of_mem _ hq))
    refine ⟨b :: ps, by simp [List.mapM_cons, quoteQuery, hb, hps], by simp [hlen], ?_⟩
    intro b' hb'
    rcases List.mem_cons.1 hb' with rfl | hb'
    · exact hgood
    · exact hall b' hb'

/-- **Checks**. -/
theorem quoteCheck_ok (c : Check) (h : printableCheck c = true) :
    ∃ pc, quoteCheck c = some pc ∧
      C14Items.ItemWF (.check pc) ∧ itemLexOK (.check pc) = true ∧ itemDotOK (.check pc) = true := by
  simp only [printableCheck, Bool.and_eq_true, Bool.not_eq_true', List.isEmpty_eq_false_iff,
    List.all_eq_true] at h
  obtain ⟨ps, hps, hlen, hall⟩ := mapM_quoteQuery_ok c.queries h.2
  refine ⟨⟨ps⟩, by simp [quoteCheck, hps], ⟨?_, fun q hq => (hall q hq).1⟩,
    List.all_eq_true.2 (fun q hq => (hall q hq).2.1), List.all_eq_true.2 (fun q hq => (hall q hq).2.2)⟩
  intro hnil
  have hnil' : ps = [] := hnil
  rw [hnil'] at hlen
  exact h.1 (List.length_eq_zero_iff.1 hlen.symm)

/-! ### Denotation: the quoted tree denotes the content (sets in printed order) -/

theorem mapM_map_some {α β γ : Type} (f : α → β) (g : β → Option γ) (k : α → γ) (l : List α)
    (h : ∀ x ∈ l, g (f x) = some (k x)) : (l.map f).mapM g = some (l.map k) := by
  induction l with
  | nil => rfl
  | cons x xs ih =>
    rw [List.map_cons, List.mapM_cons, h x (by simp), ih (fun y hy => h y (List.mem_cons_of_mem _ hy))]
    rfl

theorem filterMap_const_none {α β : Type} (l : List α) : l.filterMap (fun _ => (none : Option β)) = [] := by
  induction l with
  | nil => rfl
  | cons x xs ih => simp

theorem utf8OK_spec (b : Bytes) (h : utf8OK b = true) : strBytes (String.ofList (charsOfBytes b)) = b := by
  simpa [utf8OK] using h

theorem denoteAtom_quote (a : Atom) (h : printableAtom a = true) :
    denoteAtomTerm [] (quoteAtom a) = some (.const (.atom a)) := by
  cases a with
  | int i =>
    simp only [printableAtom, Bool.and_eq_true, decide_eq_true_eq] at h
    cases i with
    | ofNat n =>
      have hn : n < 2 ^ 63 := by have := h.2; rw [show Int.ofNat n = (n : Int) from rfl] at this; omega
      rw [show Int.ofNat n = (n : Int) from rfl, quoteAtom_ofNat]
      simp only [denoteAtomTerm, natOfDigits_natDigits, hn, if_true]
    | negSucc m =>
      have hn : m + 1 ≤ 2 ^ 63 := by have := h.1; omega
      rw [quoteAtom_negSucc]
      simp only [denoteAtomTerm, natOfDigits_natDigits, hn, if_true]
      rfl
  | str s =>
    simp only [printableAtom, Bool.and_eq_true] at h
    simp only [quoteAtom, denoteAtomTerm, utf8OK_spec s h.1]
  | date d =>
    have h' : d < 253402300800 := of_decide_eq_true h
    simp only [quoteAtom, denoteAtomTerm, (printDate_roundtrip d h').2, Option.map_some]
    have : ((d : Int) ≥ 0) := by omega
    simp [this]
  | bytes b =>
    have : (printHex b).length % 2 = 0 := by rw [printHex_length]; omega
    simp only [quoteAtom, denoteAtomTerm, this, if_true, bytesOfHex_printHex]
  | bool b => rfl

/-- A quoted literal is never a set: as a term it is denoted as an atom. -/
theorem denoteTerm_quoteAtom (ps : Params) (a : Atom) :
    denoteTerm ps (quoteAtom a) = denoteAtomTerm ps (quoteAtom a) := by
  cases a with
  | int i =>
    cases i with
    | ofNat n => rw [show Int.ofNat n = (n : Int) from rfl, quoteAtom_ofNat]; rfl
    | negSucc m => rw [quoteAtom_negSucc]; rfl
  | _ => rfl

theorem denoteTerm_quote (t : Term Val) (h : printableTerm t = true) :
    denoteTerm [] (quoteTerm t) = some (normTerm t) := by
  cases t with
  | var n =>
    simp only [printableTerm, Bool.and_eq_true] at h
    simp only [quoteTerm, denoteTerm, denoteAtomTerm, quoteName, utf8OK_spec n h.1, normTerm]
  | const v =>
    cases v with
    | atom a =>
      have := denoteAtom_quote a h
      rw [quoteTerm, denoteTerm_quoteAtom]; exact this
    | set l =>
      simp only [printableTerm, Bool.and_eq_true, List.all_eq_true] at h
      have h1 : ((sortA l).map quoteAtom).mapM (denoteAtomTerm []) =
          some ((sortA l).map fun a => Term.const (Val.atom a)) :=
        mapM_map_some quoteAtom (denoteAtomTerm []) _ (sortA l)
          (fun a ha => denoteAtom_quote a (h.2 a ((mem_sortA a l).1 ha)))
      have h2 : ((sortA l).map fun a => (Term.const (Val.atom a) : Term Val)).mapM atomOfTerm =
          some ((sortA l).map id) :=
        mapM_map_some _ atomOfTerm id (sortA l) (fun a _ => rfl)
      simp [quoteTerm, denoteTerm, h1, h2, normTerm]

theorem denotePred_quote (p : Pred Val) (h : printablePred p = true) :
    denotePred [] (quotePred p) = some (normPred p) := by
  simp only [printablePred, Bool.and_eq_true, List.all_eq_true] at h
  have h1 : (p.terms.map quoteTerm).mapM (denoteTerm []) = some (p.terms.map normTerm) :=
    mapM_map_some quoteTerm (denoteTerm []) normTerm p.terms (fun t ht => denoteTerm_quote t (h.2 t ht))
  simp only [denotePred, quotePred, h1, quoteName, utf8OK_spec p.name h.1.1, normPred]
  rfl

/-- The operator of the text for an operator of the content. -/
def quoteOp : Op → POp
  | .value t => .value (quoteTerm t)
  | .unary u => .unary u
  | .binary b => .binary b

theorem toPostfix_quoteUnary (u : UnOp) (e : PExpr) : toPostfix (quoteUnary u e) = toPostfix e ++ [.unary u] := by
  cases u <;> rfl

theorem toPostfix_quoteBinary (b : BinOp) (l r : PExpr) :
    toPostfix (quoteBinary b l r) = toPostfix l ++ toPostfix r ++ [.binary b] := by
  cases b <;> rfl

/-- **The tree machine inverts the postfix emission**: the tree rebuilt from an operator
sequence emits that sequence. -/
theorem toPostfix_quoteOps (ops : List Op) : ∀ (st : List PExpr) (e : PExpr), quoteOps ops st = some e →
    toPostfix e = st.reverse.flatMap toPostfix ++ ops.map quoteOp := by
  induction ops with
  | nil =>
    intro st e h
    match st, h with
    | [e'], h => simp [quoteOps] at h; subst h; simp
  | cons o ops ih =>
    intro st e h
    cases o with
    | value t =>
      rw [ih _ e h]
      simp [toPostfix, quoteOp]
    | unary u =>
      cases st with
      | nil => simp [quoteOps] at h
      | cons e0 st =>
        rw [ih _ e h]
        simp [toPostfix_quoteUnary, quoteOp]
    | binary b =>
      match st, h with
      | r :: l :: st, h =>
        rw [ih _ e h]
        simp [toPostfix_quoteBinary, quoteOp]

theorem toPostfix_quoteExpr (ops : Expr) (e : PExpr) (h : quoteExpr ops = some e) :
    toPostfix e = ops.map quoteOp := by
  have := toPostfix_quoteOps ops [] e h
  simpa using this

theorem denoteOp_quote (o : Op) (h : printableOp o = true) : denoteOp [] (quoteOp o) = some (normOp o) := by
  cases o with
  | value t => simp only [quoteOp, denoteOp, denoteTerm_quote t h, Option.map_some, normOp]
  | unary u => rfl
  | binary b => rfl

theorem denoteExpr_quote (ops : Expr) (e : PExpr) (hq : quoteExpr ops = some e)
    (hv : ops.all printableOp = true) : denoteExpr [] e = some (normExpr ops) := by
  rw [denoteExpr, toPostfix_quoteExpr ops e hq]
  exact mapM_map_some quoteOp (denoteOp []) normOp ops
    (fun o ho => denoteOp_quote o (List.all_eq_true.1 hv o ho))

theorem mapM_denoteExpr_quote (exprs : List Expr) : ∀ (es : List PExpr), exprs.mapM quoteExpr = some es →
    (∀ x ∈ exprs, x.all printableOp = true) → es.mapM (denoteExpr []) = some (exprs.map normExpr) := by
  induction exprs with
  | nil => intro es h _; simp at h; subst h; rfl
  | cons x xs ih =>
    intro es h hv
    rw [List.mapM_cons] at h
    cases hx : quoteExpr x with
    | none => simp [hx] at h
    | some e =>
      cases hxs : xs.mapM quoteExpr with
      | none => simp [hx, hxs] at h
      | some es' =>
        simp [hx, hxs] at h
        subst h
        rw [List.mapM_cons, denoteExpr_quote x e hx (hv x (by simp)),
          ih es' hxs (fun y hy => hv y (List.mem_cons_of_mem _ hy))]
        rfl

theorem denoteBody_quote (body : List (Pred Val)) (exprs : List Expr) (es : List PElem)
    (hq : quoteBody body exprs = some es) (hb : ∀ p ∈ body, printablePred p = true)
    (he : ∀ x ∈ exprs, x.all printableOp = true) :
    denoteBody [] es = some (body.map normPred, exprs.map normExpr) := by
  unfold quoteBody at hq
  cases hm : exprs.mapM quoteExpr with
  | none => simp [hm] at hq
  | some ts =>
    simp [hm] at hq
    subst hq
    have d1 : (body.map quotePred).mapM (denotePred []) = some (body.map normPred) :=
      mapM_map_some quotePred (denotePred []) normPred body (fun p hp => denotePred_quote p (hb p hp))
    have d2 := mapM_denoteExpr_quote exprs ts hm he
    simp [denoteBody, List.filterMap_append, List.filterMap_map, Function.comp_def, d1, d2, filterMap_const_none]


theorem printableBody_spec (body : List (Pred Val)) (exprs : List Expr) (h : printableBody body exprs = true) :
    (∀ p ∈ body, printablePred p = true) ∧ (∀ x ∈ exprs, x.all printableOp = true) := by
  simp only [printableBody, Bool.and_eq_true, List.all_eq_true] at h
  refine ⟨h.1.1, fun x hx => ?_⟩
  have := h.1.2 x hx
  simp only [printableExpr, Bool.and_eq_true] at this
  exact this.1

theorem denoteItems_fact (p : Pred Val) (h : printablePred p = true) :
    denoteItems [] [quoteFact p] =
      some { facts := [normPred p], rules := [], checks := [], policies := [] } := by
  simp [denoteItems, quoteFact, denotePred_quote p h]

theorem denoteItems_rule (r : DRule) (pr : PRule) (hq : quoteRule r = some pr) (h : printableRule r = true) :
    denoteItems [] [.rule pr] =
      some { facts := [], rules := [normRule r], checks := [], policies := [] } := by
  simp only [printableRule, Bool.and_eq_true] at h
  unfold quoteRule at hq
  cases hb : quoteBody r.body r.exprs with
  | none => simp [hb] at hq
  | some es =>
    simp [hb] at hq
    subst hq
    obtain ⟨h1, h2⟩ := printableBody_spec r.body r.exprs h.2
    simp [denoteItems, denotePred_quote r.head h.1, denoteBody_quote r.body r.exprs es hb h1 h2, normRule]

theorem denoteQuery_quote (q : DRule) (es : List PElem) (hq : quoteQuery q = some es)
    (h : printableBody q.body q.exprs = true) : denoteQuery [] es = some (normQuery q) := by
  obtain ⟨h1, h2⟩ := printableBody_spec q.body q.exprs h
  simp [denoteQuery, denoteBody_quote q.body q.exprs es hq h1 h2, normQuery]

theorem mapM_denoteQuery_quote (qs : List DRule) : ∀ (ps : List (List PElem)), qs.mapM quoteQuery = some ps →
    (∀ q ∈ qs, printableBody q.body q.exprs = true) → ps.mapM (denoteQuery []) = some (qs.map normQuery) := by
  induction qs with
  | nil => intro ps h _; simp at h; subst h; rfl
  | cons x xs ih =>
    intro ps h hv
    rw [List.mapM_cons] at h
    cases hx : quoteQuery x with
    | none => simp [hx] at h
    | some e =>
      cases hxs : xs.mapM quoteQuery with
      | none => simp [hx, hxs] at h
      | some es' =>
        simp [hx, hxs] at h
        subst h
        rw [List.mapM_cons, denoteQuery_quote x e hx (hv x (by simp)),
          ih es' hxs (fun y hy => hv y (List.mem_cons_of_mem _ hy))]
        rfl

theorem denoteItems_check (c : Check) (pc : PCheck) (hq : quoteCheck c = some pc) (h : printableCheck c = true) :
    denoteItems [] [.check pc] =
      some { facts := [], rules := [], checks := [normCheck c], policies := [] } := by
  simp only [printableCheck, Bool.and_eq_true, List.all_eq_true] at h
  unfold quoteCheck at hq
  cases hm : c.queries.mapM quoteQuery with
  | none => simp [hm] at hq
  | some ps =>
    simp [hm] at hq
    subst hq
    simp [denoteItems, mapM_denoteQuery_quote c.queries ps hm h.2, normCheck]

/-! ### UTF-8: every byte string that encodes a `String` is `utf8OK` -/

theorem toList_loop (bs : ByteArray) : ∀ (n i : Nat) (r : List UInt8), bs.size - i = n → i ≤ bs.size →
    ByteArray.toList.loop bs i r = r.reverse ++ bs.data.toList.drop i := by
  have e : bs.size = bs.data.toList.length := by rw [Array.length_toList]; rfl
  intro n
  induction n with
  | zero =>
    intro i r hn hi
    rw [ByteArray.toList.loop]
    have : ¬ i < bs.size := by omega
    simp only [this, if_false]
    have : bs.data.toList.drop i = [] := by
      apply List.drop_eq_nil_of_le
      omega
    simp [this]
  | succ n ih =>
    intro i r hn hi
    rw [ByteArray.toList.loop]
    have hlt : i < bs.size := by omega
    simp only [hlt, if_true]
    rw [ih (i + 1) _ (by omega) (by omega)]
    have hlt' : i < bs.data.toList.length := by omega
    rw [List.drop_eq_getElem_cons hlt']
    simp [ByteArray.get!, getElem!_pos, hlt]

theorem byteArray_toList (bs : ByteArray) : bs.toList = bs.data.toList := by
  unfold ByteArray.toList
  rw [toList_loop bs _ 0 [] rfl (Nat.zero_le _)]
  simp

theorem charsOfBytes_strBytes (s : String) : charsOfBytes (strBytes s) = s.toList := by
  unfold charsOfBytes strBytes
  have h : ByteArray.mk (s.toUTF8.toList.toArray) = s.toByteArray := by
    rw [byteArray_toList]; simp
  rw [h]
  unfold String.fromUTF8!
  have hv : s.toByteArray.IsValidUTF8 := s.isValidUTF8
  rw [dif_pos hv]
  rfl

theorem utf8OK_strBytes (s : String) : utf8OK (strBytes s) = true := by
  simp [utf8OK, charsOfBytes_strBytes]

end Biscuit.PrintText
