/-
Proofs/Odometer — helper lemmas for `Props/C05Odometer`.

Part 1 relates the literal odometer machine of `Model/Odometer` (`advance`, `seek`,
`emitAll`) to the lexicographic specification `tuples`.  The bridge is `rem c idx`: the list
of tuples still to be emitted from the state `(current = c, indexes = idx)`:

  rem c idx = block c (idx.take c) idx[c]  ++  carryRem c idx

`block c p j` are the matching tuples that extend the prefix `p` (positions `< c`) with a fact
index `≥ j` at position `c`; `carryRem c idx` is what remains after position `c` overflows
(carry into `c-1`, `c-2`, ...).  `cost c idx` is an upper bound on the number of loop
iterations still to be executed, with the same shape; it decreases at every step of `seek`
and at every `advance`, and its initial value is below `fuelFor`.

Part 2 relates `solve` of `Model/Datalog` to `tuples` over the `goMatch` table followed by the
variable-extraction step `unifyAll`.
-/
import BiscuitModel.Model.Odometer
import BiscuitModel.Model.OdometerTie

namespace Biscuit.Odometer

/-! ### list helpers -/

theorem getD_set (l : List Nat) (k v i : Nat) :
    (l.set k v).getD i 0 = if k = i ∧ k < l.length then v else l.getD i 0 := by
  simp only [List.getD_eq_getElem?_getD, List.getElem?_set]
  by_cases h : k = i
  · subst h
    by_cases hk : k < l.length
    · simp [hk]
    · simp [hk]
  · simp [h]

theorem take_set_of_le (l : List Nat) (k v c : Nat) (h : c ≤ k) :
    (l.set k v).take c = l.take c := by
  induction l generalizing k c with
  | nil => simp
  | cons a l ih =>
    cases c with
    | zero => simp
    | succ c =>
      cases k with
      | zero => omega
      | succ k => simp [List.set, ih k c (by omega)]

theorem take_append_getD (l : List Nat) (c : Nat) (h : c < l.length) :
    l.take c ++ [l.getD c 0] = l.take (c + 1) := by
  induction l generalizing c with
  | nil => simp at h
  | cons a l ih =>
    cases c with
    | zero => simp
    | succ c =>
      simp only [List.length_cons] at h
      have := ih c (by omega)
      simp only [List.getD_eq_getElem?_getD] at this
      simp [List.getD_eq_getElem?_getD, this]

/-! ### remaining output and remaining cost -/

variable (m : Nat → Nat → Bool) (np nf : Nat)

/-- Matching tuples extending prefix `p` (of length `c`) with an index `≥ j` at position `c`. -/
def block (c : Nat) (p : List Nat) (j : Nat) : List (List Nat) :=
  (List.range' j (nf - j)).flatMap fun j' =>
    if m c j' then (tuples m nf (np - c - 1) (c + 1)).map (fun t => p ++ j' :: t) else []

/-- What remains to be emitted after position `c` overflows. -/
def carryRem : Nat → List Nat → List (List Nat)
  | 0, _ => []
  | c + 1, idx => block m np nf c (idx.take c) (idx.getD c 0 + 1) ++ carryRem c idx

/-- What remains to be emitted from the state `(c, idx)`. -/
def rem (c : Nat) (idx : List Nat) : List (List Nat) :=
  block m np nf c (idx.take c) (idx.getD c 0) ++ carryRem m np nf c idx

/-- Iterations needed to exhaust one index value at a position with `k` positions to go. -/
def W : Nat → Nat
  | 0 => 0
  | k + 1 => 1 + nf * W k

def carryCost : Nat → List Nat → Nat
  | 0, _ => 0
  | c + 1, idx => W nf (np - c) * (nf - (idx.getD c 0 + 1)) + carryCost c idx

def cost (c : Nat) (idx : List Nat) : Nat :=
  W nf (np - c) * (nf - idx.getD c 0) + carryCost np nf c idx

/-- State invariant. -/
structure Inv (c : Nat) (idx : List Nat) : Prop where
  len : idx.length = np
  cur : c < np
  bound : ∀ i, idx.getD i 0 < nf
  zero : ∀ i, c < i → idx.getD i 0 = 0

theorem block_ge (c : Nat) (p : List Nat) (j : Nat) (h : nf ≤ j) : block m np nf c p j = [] := by
  have : nf - j = 0 := by omega
  simp [block, this]

theorem block_lt (c : Nat) (p : List Nat) (j : Nat) (h : j < nf) :
    block m np nf c p j =
      (if m c j then (tuples m nf (np - c - 1) (c + 1)).map (fun t => p ++ j :: t) else [])
        ++ block m np nf c p (j + 1) := by
  have e : nf - j = (nf - (j + 1)) + 1 := by omega
  simp only [block]
  rw [e, List.range'_succ, List.flatMap_cons]

theorem carryRem_set (c : Nat) (idx : List Nat) (k v : Nat) (h : c ≤ k) :
    carryRem m np nf c (idx.set k v) = carryRem m np nf c idx := by
  induction c with
  | zero => rfl
  | succ c ih =>
    simp only [carryRem]
    rw [ih (by omega), take_set_of_le _ _ _ _ (by omega), getD_set]
    have : ¬ (k = c ∧ k < idx.length) := by omega
    simp [this]

theorem carryCost_set (c : Nat) (idx : List Nat) (k v : Nat) (h : c ≤ k) :
    carryCost np nf c (idx.set k v) = carryCost np nf c idx := by
  induction c with
  | zero => rfl
  | succ c ih =>
    simp only [carryCost]
    rw [ih (by omega), getD_set]
    have : ¬ (k = c ∧ k < idx.length) := by omega
    simp [this]

theorem W_pos (k : Nat) (h : 0 < k) : 0 < W nf k := by
  cases k with
  | zero => omega
  | succ k => simp only [W]; omega

theorem cost_pos {c : Nat} {idx : List Nat} (h : Inv np nf c idx) : 0 < cost np nf c idx := by
  have h1 := W_pos nf (np - c) (by have := h.cur; omega)
  have h2 : 0 < nf - idx.getD c 0 := by have := h.bound c; omega
  have := Nat.mul_pos h1 h2
  simp only [cost]; omega

/-- `cost c idx = W (np - c) + carryCost (c+1) idx` when `idx[c] < nf`. -/
theorem cost_eq {c : Nat} {idx : List Nat} (h : idx.getD c 0 < nf) :
    cost np nf c idx = W nf (np - c) + carryCost np nf (c + 1) idx := by
  simp only [cost, carryCost]
  have e : nf - idx.getD c 0 = (nf - (idx.getD c 0 + 1)) + 1 := by omega
  rw [e, Nat.mul_succ]; omega

/-! ### `advance` -/

theorem advance_spec (c : Nat) (idx : List Nat) (h : Inv np nf c idx) :
    match advance nf c idx with
    | none => carryRem m np nf (c + 1) idx = []
    | some st => Inv np nf st.current st.indexes
        ∧ rem m np nf st.current st.indexes = carryRem m np nf (c + 1) idx
        ∧ cost np nf st.current st.indexes = carryCost np nf (c + 1) idx := by
  induction c generalizing idx with
  | zero =>
    unfold advance
    by_cases hlt : idx.getD 0 0 < nf - 1
    · simp only [hlt, if_true]
      refine ⟨⟨by simp [h.len], h.cur, ?_, ?_⟩, ?_, ?_⟩
      · intro i; rw [getD_set]; split
        · omega
        · exact h.bound i
      · intro i hi; rw [getD_set]
        have : ¬ (0 = i ∧ 0 < idx.length) := by omega
        simp only [this, if_false]; exact h.zero i hi
      · have hl : 0 < idx.length := by have := h.len; have := h.cur; omega
        simp [rem, carryRem, hl]
      · have hl : 0 < idx.length := by have := h.len; have := h.cur; omega
        simp [cost, carryCost, hl]
    · simp only [hlt, if_false]
      simp only [carryRem]
      rw [block_ge _ _ _ _ _ _ (by omega)]; rfl
  | succ c ih =>
    unfold advance
    by_cases hlt : idx.getD (c + 1) 0 < nf - 1
    · simp only [hlt, if_true]
      have hl : c + 1 < idx.length := by have := h.len; have := h.cur; omega
      refine ⟨⟨by simp [h.len], h.cur, ?_, ?_⟩, ?_, ?_⟩
      · intro i; rw [getD_set]; split
        · omega
        · exact h.bound i
      · intro i hi; rw [getD_set]
        have : ¬ (c + 1 = i ∧ c + 1 < idx.length) := by omega
        simp only [this, if_false]; exact h.zero i hi
      · simp only [rem]
        rw [carryRem_set _ _ _ _ _ _ _ (Nat.le_refl _), take_set_of_le _ _ _ _ (Nat.le_refl _),
          getD_set]
        simp only [hl, and_self, if_true, carryRem]
      · simp only [cost]
        rw [carryCost_set _ _ _ _ _ _ (Nat.le_refl _), getD_set]
        simp only [hl, and_self, if_true, carryCost]
    · simp only [hlt, if_false]
      have hl : c + 1 < idx.length := by have := h.len; have := h.cur; omega
      have hinv : Inv np nf c (idx.set (c + 1) 0) := by
        refine ⟨by simp [h.len], by have := h.cur; omega, ?_, ?_⟩
        · intro i; rw [getD_set]; split
          · have := h.bound 0; omega
          · exact h.bound i
        · intro i hi; rw [getD_set]; split
          · rfl
          · exact h.zero i (by omega)
      have := ih (idx.set (c + 1) 0) hinv
      have hb : block m np nf (c + 1) (idx.take (c + 1)) (idx.getD (c + 1) 0 + 1) = [] :=
        block_ge _ _ _ _ _ _ (by omega)
      have hc : nf - (idx.getD (c + 1) 0 + 1) = 0 := by omega
      rw [carryRem_set _ _ _ _ _ _ _ (Nat.le_refl _),
        carryCost_set _ _ _ _ _ _ (Nat.le_refl _)] at this
      rw [carryRem, hb, List.nil_append, carryCost, hc, Nat.mul_zero, Nat.zero_add]
      exact this

/-! ### one step of `seek` on `rem` and `cost` -/

theorem block_zero (c : Nat) (p : List Nat) (j : Nat) (h : c + 1 < np) :
    block m np nf (c + 1) (p ++ [j]) 0
      = (tuples m nf (np - c - 1) (c + 1)).map (fun t => p ++ j :: t) := by
  obtain ⟨k, hk⟩ : ∃ k, np - c - 1 = k + 1 := ⟨np - c - 2, by omega⟩
  have hk' : np - (c + 1) - 1 = k := by omega
  rw [hk]
  simp only [block, tuples, hk', Nat.sub_zero, List.map_flatMap, List.range_eq_range']
  congr 1
  funext j'
  split <;> simp

/-- Match at a non-final position: `current` moves forward. -/
theorem forward_spec {c : Nat} {idx : List Nat} (h : Inv np nf c idx)
    (hm : m c (idx.getD c 0) = true) (hc : c ≠ np - 1) :
    Inv np nf (c + 1) idx ∧ rem m np nf (c + 1) idx = rem m np nf c idx
      ∧ cost np nf (c + 1) idx + 1 = cost np nf c idx := by
  have hcur := h.cur
  have hb := h.bound c
  refine ⟨⟨h.len, by omega, h.bound, fun i hi => h.zero i (by omega)⟩, ?_, ?_⟩
  · have hz : idx.getD (c + 1) 0 = 0 := h.zero _ (by omega)
    simp only [rem]
    rw [hz, block_lt m np nf c _ _ hb, hm, if_pos rfl,
      ← take_append_getD idx c (by have := h.len; omega), block_zero m np nf c _ _ (by omega)]
    simp only [carryRem, List.append_assoc]
  · have hz : idx.getD (c + 1) 0 = 0 := h.zero _ (by omega)
    rw [cost_eq np nf hb]
    obtain ⟨k, hk⟩ : ∃ k, np - c = k + 1 := ⟨np - c - 1, by omega⟩
    have hk' : np - (c + 1) = k := by omega
    simp only [cost, hz, hk, hk', W, Nat.sub_zero]
    rw [Nat.mul_comm]; omega

/-- Match at the final position: the tuple is emitted. -/
theorem emit_spec {c : Nat} {idx : List Nat} (h : Inv np nf c idx)
    (hm : m c (idx.getD c 0) = true) (hc : c = np - 1) :
    rem m np nf c idx = idx :: carryRem m np nf (c + 1) idx := by
  have hb := h.bound c
  have hk : np - c - 1 = 0 := by omega
  have hl : c + 1 = idx.length := by have := h.len; have := h.cur; omega
  simp only [rem, carryRem]
  rw [block_lt m np nf c _ _ hb, hm, if_pos rfl, hk]
  simp only [tuples, List.map_cons, List.map_nil, List.cons_append, List.nil_append]
  rw [take_append_getD idx c (by omega), hl, List.take_length]

/-- Mismatch: the value at `current` is skipped. -/
theorem skip_spec {c : Nat} {idx : List Nat} (h : Inv np nf c idx)
    (hm : m c (idx.getD c 0) = false) :
    rem m np nf c idx = carryRem m np nf (c + 1) idx := by
  have hb := h.bound c
  simp only [rem, carryRem]
  rw [block_lt m np nf c _ _ hb, hm]
  simp

theorem carryCost_lt {c : Nat} {idx : List Nat} (h : Inv np nf c idx) :
    carryCost np nf (c + 1) idx + 1 ≤ cost np nf c idx := by
  rw [cost_eq np nf (h.bound c)]
  have := W_pos nf (np - c) (by have := h.cur; omega)
  omega

/-! ### `seek` and `emitAll` -/

theorem seek_spec (fuel : Nat) (c : Nat) (idx : List Nat) (h : Inv np nf c idx)
    (hf : cost np nf c idx ≤ fuel) :
    match seek m np nf fuel ⟨c, idx⟩ with
    | none => rem m np nf c idx = []
    | some st => Inv np nf st.current st.indexes
        ∧ rem m np nf c idx = st.indexes :: carryRem m np nf (st.current + 1) st.indexes
        ∧ cost np nf st.current st.indexes ≤ cost np nf c idx := by
  induction fuel generalizing c idx with
  | zero => have := cost_pos np nf h; omega
  | succ fuel ih =>
    unfold seek
    simp only
    cases hm : m c (idx.getD c 0) with
    | true =>
      simp only [if_true]
      by_cases hc : c = np - 1
      · simp only [hc, if_true]
        rw [← hc]
        exact ⟨h, emit_spec m np nf h hm hc, Nat.le_refl _⟩
      · simp only [hc, if_false]
        obtain ⟨hinv, hrem, hcost⟩ := forward_spec m np nf h hm hc
        have := ih (c + 1) idx hinv (by omega)
        cases hs : seek m np nf fuel ⟨c + 1, idx⟩ with
        | none => rw [hs] at this; simp only at this ⊢; rw [← hrem]; exact this
        | some st =>
          rw [hs] at this; simp only at this ⊢; rw [← hrem]
          exact ⟨this.1, this.2.1, by omega⟩
    | false =>
      simp only [Bool.false_eq_true, if_false]
      have hadv := advance_spec m np nf c idx h
      have hskip := skip_spec m np nf h hm
      have hlt := carryCost_lt np nf h
      cases ha : advance nf c idx with
      | none => rw [ha] at hadv; simp only at hadv ⊢; rw [hskip]; exact hadv
      | some st' =>
        rw [ha] at hadv; simp only at hadv ⊢
        obtain ⟨hinv, hrem, hcost⟩ := hadv
        have := ih st'.current st'.indexes hinv (by omega)
        cases hs : seek m np nf fuel st' with
        | none =>
          rw [hs] at this; simp only at this ⊢; rw [hskip, ← hrem]; exact this
        | some st =>
          rw [hs] at this; simp only at this ⊢; rw [hskip, ← hrem]
          exact ⟨this.1, this.2.1, by omega⟩

theorem emitAll_spec (fuel : Nat) (c : Nat) (idx : List Nat) (h : Inv np nf c idx)
    (hf : cost np nf c idx ≤ fuel) :
    emitAll m np nf fuel ⟨c, idx⟩ = rem m np nf c idx := by
  induction fuel generalizing c idx with
  | zero => have := cost_pos np nf h; omega
  | succ fuel ih =>
    unfold emitAll
    have hs := seek_spec m np nf (fuel + 1) c idx h hf
    cases hk : seek m np nf (fuel + 1) ⟨c, idx⟩ with
    | none => rw [hk] at hs; simp only at hs ⊢; exact hs.symm
    | some st' =>
      rw [hk] at hs; simp only at hs ⊢
      obtain ⟨hinv, hrem, hcost⟩ := hs
      have hadv := advance_spec m np nf st'.current st'.indexes hinv
      have hlt := carryCost_lt np nf hinv
      rw [hrem]
      congr 1
      cases ha : advance nf st'.current st'.indexes with
      | none => rw [ha] at hadv; simp only at hadv ⊢; exact hadv.symm
      | some st'' =>
        rw [ha] at hadv; simp only at hadv ⊢
        obtain ⟨hinv', hrem', hcost'⟩ := hadv
        rw [← hrem']
        exact ih st''.current st''.indexes hinv' (by omega)

/-! ### the fuel bound -/

theorem nf_mul_W_le (k : Nat) (hnf : 0 < nf) : nf * W nf k ≤ k * nf ^ k := by
  induction k with
  | zero => simp [W]
  | succ k ih =>
    simp only [W]
    have h1 : nf * (nf * W nf k) ≤ nf * (k * nf ^ k) := Nat.mul_le_mul_left _ ih
    have h2 : nf * (k * nf ^ k) = k * nf ^ (k + 1) := by
      rw [Nat.pow_succ, Nat.mul_left_comm, Nat.mul_comm nf (nf ^ k)]
    have h3 : nf ≤ nf ^ (k + 1) := by
      have : nf ^ 1 ≤ nf ^ (k + 1) := Nat.pow_le_pow_right hnf (by omega)
      simpa using this
    rw [Nat.mul_add, Nat.mul_one, Nat.succ_mul]
    omega

theorem init_cost_le (hnp : 0 < np) (hnf : 0 < nf) :
    cost np nf 0 (List.replicate np 0) ≤ fuelFor np nf := by
  have h1 := nf_mul_W_le nf np hnf
  have h2 : nf ^ np ≤ (nf + 1) ^ np := Nat.pow_le_pow_left (by omega) np
  have h3 : np * nf ^ np ≤ (np + 1) * (nf + 1) ^ np :=
    Nat.mul_le_mul (by omega) h2
  have hg : (List.replicate np 0).getD 0 0 = 0 := by
    simp only [List.getD_eq_getElem?_getD, List.getElem?_replicate]
    split <;> rfl
  simp only [cost, carryCost, hg, Nat.sub_zero, Nat.add_zero, fuelFor]
  rw [Nat.mul_comm]
  omega

theorem init_inv (hnp : 0 < np) (hnf : 0 < nf) : Inv np nf 0 (List.replicate np 0) := by
  have hg : ∀ i, (List.replicate np 0).getD i 0 = 0 := by
    intro i
    simp only [List.getD_eq_getElem?_getD, List.getElem?_replicate]
    split <;> rfl
  exact ⟨by simp, hnp, fun i => by rw [hg]; exact hnf, fun i _ => hg i⟩

theorem init_rem (hnp : 0 < np) :
    rem m np nf 0 (List.replicate np 0) = tuples m nf np 0 := by
  have hg : (List.replicate np 0).getD 0 0 = 0 := by
    simp only [List.getD_eq_getElem?_getD, List.getElem?_replicate]
    split <;> rfl
  obtain ⟨k, rfl⟩ : ∃ k, np = k + 1 := ⟨np - 1, by omega⟩
  simp only [rem, carryRem, hg, block, tuples, List.take_zero, List.nil_append,
    List.append_nil, Nat.sub_zero, List.range_eq_range', Nat.add_sub_cancel, Nat.zero_add]

theorem combos_eq_tuples : combos m np nf = tuples m nf np 0 := by
  unfold combos
  by_cases hnp : np = 0
  · subst hnp; simp [tuples]
  · simp only [hnp, if_false]
    by_cases hnf : nf = 0
    · subst hnf
      obtain ⟨k, rfl⟩ : ∃ k, np = k + 1 := ⟨np - 1, by omega⟩
      simp [tuples]
    · simp only [hnf, if_false]
      rw [emitAll_spec m np nf _ 0 _ (init_inv np nf (by omega) (by omega))
        (init_cost_le np nf (by omega) (by omega))]
      exact init_rem m np nf (by omega)

/-! ### what the specification says: membership and order -/

theorem mem_tuples (m : Nat → Nat → Bool) (nf : Nat) (k pos : Nat) (t : List Nat) :
    t ∈ tuples m nf k pos ↔
      t.length = k ∧ ∀ i, i < k → t.getD i 0 < nf ∧ m (pos + i) (t.getD i 0) = true := by
  induction k generalizing pos t with
  | zero =>
    simp only [tuples, List.mem_singleton]
    constructor
    · intro h; subst h; exact ⟨rfl, fun i hi => by omega⟩
    · intro h; exact List.length_eq_zero_iff.mp h.1
  | succ k ih =>
    simp only [tuples, List.mem_flatMap, List.mem_range]
    constructor
    · rintro ⟨j, hj, hmem⟩
      by_cases hm : m pos j = true
      · simp only [hm, if_true, List.mem_map] at hmem
        obtain ⟨t', ht', rfl⟩ := hmem
        obtain ⟨hl, hall⟩ := (ih (pos + 1) t').mp ht'
        refine ⟨by simp [hl], ?_⟩
        intro i hi
        cases i with
        | zero => exact ⟨hj, hm⟩
        | succ i =>
          have := hall i (by omega)
          simpa [List.getD_eq_getElem?_getD, Nat.add_assoc, Nat.add_comm 1 i] using this
      · simp [hm] at hmem
    · rintro ⟨hl, hall⟩
      cases t with
      | nil => simp at hl
      | cons a t' =>
        have h0 := hall 0 (by omega)
        simp only [List.getD_eq_getElem?_getD, List.getElem?_cons_zero, Option.getD_some,
          Nat.add_zero] at h0
        refine ⟨a, h0.1, ?_⟩
        simp only [h0.2, if_true, List.mem_map]
        refine ⟨t', (ih (pos + 1) t').mpr ⟨by simpa using hl, ?_⟩, rfl⟩
        intro i hi
        have := hall (i + 1) (by omega)
        simpa [List.getD_eq_getElem?_getD, Nat.add_assoc, Nat.add_comm 1 i] using this

theorem tuples_sorted (m : Nat → Nat → Bool) (nf : Nat) (k pos : Nat) :
    (tuples m nf k pos).Pairwise (· < ·) := by
  induction k generalizing pos with
  | zero => simp [tuples]
  | succ k ih =>
    simp only [tuples]
    rw [List.pairwise_flatMap]
    constructor
    · intro j _
      split
      · rw [List.pairwise_map]
        exact (ih (pos + 1)).imp (fun h => List.cons_lt_cons_iff.mpr (Or.inr ⟨rfl, h⟩))
      · exact List.Pairwise.nil
    · refine List.pairwise_lt_range.imp ?_
      intro j1 j2 hlt x hx y hy
      split at hx
      · split at hy
        · simp only [List.mem_map] at hx hy
          obtain ⟨x', _, rfl⟩ := hx
          obtain ⟨y', _, rfl⟩ := hy
          exact List.cons_lt_cons_iff.mpr (Or.inl hlt)
        · simp at hy
      · simp at hx

/-! ## Part 2 — `solve` is the odometer over the `goMatch` table, then `unifyAll` -/

section Tie
open Biscuit

variable {V : Type} [DecidableEq V]

theorem unifyTerms_some_match (ts : List (Term V)) (vs : List V) (σ σ' : Bindings V)
    (h : unifyTerms ts vs σ = some σ') :
    ts.length = vs.length ∧ (ts.zip vs).all (fun tv => termMatch tv.1 tv.2) = true := by
  induction ts generalizing vs σ with
  | nil =>
    cases vs with
    | nil => simp
    | cons v vs => simp [unifyTerms] at h
  | cons t ts ih =>
    cases vs with
    | nil => cases t <;> simp [unifyTerms] at h
    | cons v vs =>
      cases t with
      | const c =>
        simp only [unifyTerms] at h
        by_cases hcv : c = v
        · simp only [hcv, if_true] at h
          have := ih vs σ h
          refine ⟨by simp [this.1], ?_⟩
          rw [List.zip_cons_cons, List.all_cons, this.2]
          simp [termMatch, hcv]
        · simp [hcv] at h
      | var n =>
        simp only [unifyTerms] at h
        have key : ∃ τ, unifyTerms ts vs τ = some σ' := by
          cases hl : Bindings.lookup σ n with
          | none => rw [hl] at h; exact ⟨_, h⟩
          | some w =>
            rw [hl] at h
            by_cases hw : w = v
            · simp only [hw, if_true] at h; exact ⟨_, h⟩
            · simp [hw] at h
        obtain ⟨τ, hτ⟩ := key
        have := ih vs τ hτ
        refine ⟨by simp [this.1], ?_⟩
        rw [List.zip_cons_cons, List.all_cons, this.2]
        simp [termMatch]

/-- A successful extraction implies `Predicate.Match`. -/
theorem goMatch_of_unifyPred {p : Pred V} {f : Fact V} {σ σ' : Bindings V}
    (h : unifyPred p f σ = some σ') : goMatch p f = true := by
  unfold unifyPred at h
  by_cases hn : p.name = f.name
  · simp only [hn, if_true] at h
    have := unifyTerms_some_match _ _ _ _ h
    simp [goMatch, hn, this.1, this.2]
  · simp [hn] at h

/-- Without `Predicate.Match` the extraction fails: filtering by `goMatch` first loses
nothing. -/
theorem unifyPred_none_of_not_goMatch {p : Pred V} {f : Fact V} (σ : Bindings V)
    (h : goMatch p f = false) : unifyPred p f σ = none := by
  cases hu : unifyPred p f σ with
  | none => rfl
  | some σ' => rw [goMatch_of_unifyPred hu] at h; cases h

theorem flatMap_congr' {α β : Type} (l : List α) (f g : α → List β)
    (h : ∀ x, x ∈ l → f x = g x) : l.flatMap f = l.flatMap g := by
  induction l with
  | nil => rfl
  | cons a l ih =>
    simp only [List.flatMap_cons]
    rw [h a (by simp), ih (fun x hx => h x (by simp [hx]))]

theorem flatMap_eq_range {α β : Type} (l : List α) (g : α → List β) :
    l.flatMap g = (List.range l.length).flatMap
      (fun j => match l[j]? with | some a => g a | none => []) := by
  induction l with
  | nil => rfl
  | cons a l ih =>
    rw [List.length_cons, List.range_succ_eq_map, List.flatMap_cons, List.flatMap_cons,
      List.flatMap_map, ih]
    simp

theorem solve_eq_tuples_aux (facts : List (Fact V)) (preds : List (Pred V)) :
    ∀ (ps pre : List (Pred V)) (σ : Bindings V), preds = pre ++ ps →
      solve facts ps σ
        = (tuples (table facts preds) facts.length ps.length pre.length).filterMap
            (fun idx => unifyAll ps (idx.filterMap (fun j => facts[j]?)) σ) := by
  intro ps
  induction ps with
  | nil => intro pre σ _; simp [solve, tuples, unifyAll]
  | cons p ps ih =>
    intro pre σ hpre
    have hpre' : preds = (pre ++ [p]) ++ ps := by simp [hpre]
    have hlen : (pre ++ [p]).length = pre.length + 1 := by simp
    have hp : preds[pre.length]? = some p := by simp [hpre]
    simp only [solve, List.length_cons, tuples, List.filterMap_flatMap]
    rw [flatMap_eq_range]
    apply flatMap_congr'
    intro j hj
    have hj' : j < facts.length := by simpa using hj
    have hf : facts[j]? = some facts[j] := List.getElem?_eq_getElem hj'
    rw [hf]
    simp only [table, hp, hf]
    cases hg : goMatch p facts[j] with
    | false =>
      simp [unifyPred_none_of_not_goMatch σ hg]
    | true =>
      simp only [if_true, List.filterMap_map]
      cases hu : unifyPred p facts[j] σ with
      | none =>
        simp [Function.comp_def, hf, unifyAll, hu]
      | some σ' =>
        simp only
        rw [ih (pre ++ [p]) σ' hpre', hlen]
        congr 1
        funext idx
        simp [hf, unifyAll, hu]

theorem solve_eq_tuples (facts : List (Fact V)) (preds : List (Pred V)) :
    solve facts preds []
      = (tuples (table facts preds) facts.length preds.length 0).filterMap
          (fun idx => unifyAll preds (idx.filterMap (fun j => facts[j]?)) []) :=
  solve_eq_tuples_aux facts preds preds [] [] rfl

end Tie

end Biscuit.Odometer
