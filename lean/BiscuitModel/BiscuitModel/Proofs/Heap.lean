/-
Proofs/Heap — helper lemmas for C08, C19, C03Heap.

Layout: (1) list facts; (2) `getD` on heaps; (3) `AppSpec`, the specification of a
sequence of appends to one slice (length of the heap, validity of the result, what the
result reads, frame for every other slice, footprint), with reflexivity, transitivity and
the single `append`; (4) the fold of `step`/`payloadPinned` and `appendAll`-style
recursion satisfy `AppSpec`; (5) `Owned` in membership form and the list facts about
`Nodup` it needs.
-/
import BiscuitModel.Model.Heap

namespace Biscuit.Heap

variable {α : Type}

/-! ### List facts -/

theorem take_set_ge {β : Type} {l : List β} {n i : Nat} (x : β) (h : n ≤ i) :
    (l.set i x).take n = l.take n :=
  List.take_set_of_le h

theorem take_succ_set {β : Type} {l : List β} {i : Nat} (x : β) (h : i < l.length) :
    (l.set i x).take (i + 1) = l.take i ++ [x] := by
  rw [List.take_add_one, take_set_ge x (Nat.le_refl i), List.getElem?_set_self h]
  rfl

theorem set_of_getElem? {β : Type} {l : List β} {i : Nat} {v : β} (h : l[i]? = some v) :
    l.set i v = l := by
  induction l generalizing i with
  | nil => rfl
  | cons a l ih =>
    cases i with
    | zero => simp at h; simp [h]
    | succ i => simp at h; simp [ih h]

theorem nodup_set_of_not_mem {β : Type} {l : List β} {i : Nat} {v : β} (hn : l.Nodup)
    (hv : v ∉ l) : (l.set i v).Nodup := by
  induction l generalizing i with
  | nil => simp
  | cons a l ih =>
    rw [List.nodup_cons] at hn
    rw [List.mem_cons, not_or] at hv
    cases i with
    | zero =>
      rw [List.set_cons_zero, List.nodup_cons]
      exact ⟨hv.2, hn.2⟩
    | succ i =>
      rw [List.set_cons_succ, List.nodup_cons]
      refine ⟨fun hm => ?_, ih hn.2 hv.2⟩
      rcases List.mem_or_eq_of_mem_set hm with hm | hm
      · exact hn.1 hm
      · exact hv.1 hm.symm

/-- Two positions of a list whose image under `f` has no duplicates have distinct images. -/
theorem map_nodup_ne {β γ : Type} {f : β → γ} {l : List β} (hn : (l.map f).Nodup) {i j : Nat}
    {a b : β} (ha : l[i]? = some a) (hb : l[j]? = some b) (hij : i ≠ j) : f a ≠ f b := by
  intro he
  have hi : i < (l.map f).length := by
    rw [List.length_map]
    exact (List.getElem?_eq_some_iff.mp ha).1
  have : (l.map f)[i]? = (l.map f)[j]? := by
    rw [List.getElem?_map, List.getElem?_map, ha, hb]
    simp [he]
  exact hij ((List.getElem?_inj hi hn).mp this)

/-! ### Heaps -/

theorem getD_set_self {h : Heap α} {i : Nat} (a : List α) (hi : i < h.length) :
    (h.set i a).getD i [] = a := by
  simp [List.getD_eq_getElem?_getD, hi]

theorem getD_set_ne {h : Heap α} {i j : Nat} (a : List α) (hij : i ≠ j) :
    (h.set i a).getD j [] = h.getD j [] := by
  simp [List.getD_eq_getElem?_getD, List.getElem?_set_ne hij]

theorem getD_append_left {h : Heap α} {j : Nat} (a : Heap α) (hj : j < h.length) :
    (h ++ a).getD j [] = h.getD j [] := by
  simp [List.getD_eq_getElem?_getD, List.getElem?_append_left hj]

theorem getD_append_length (h : Heap α) (a : List α) : (h ++ [a]).getD h.length [] = a := by
  simp [List.getD_eq_getElem?_getD]

theorem getD_of_length_le {h : Heap α} {i : Nat} (hi : h.length ≤ i) : h.getD i [] = [] := by
  simp [List.getD_eq_getElem?_getD, List.getElem?_eq_none hi]

/-- A slice is valid: its array is allocated and its length within capacity. -/
def Valid (h : Heap α) (s : Slice) : Prop := s.arr < h.length ∧ s.len ≤ cap h s

theorem length_read {h : Heap α} {s : Slice} (hl : s.len ≤ cap h s) : (read h s).length = s.len := by
  unfold read
  rw [List.length_take]
  exact Nat.min_eq_left hl

theorem append_inplace (grow : Nat → Nat) (pad : α) (h : Heap α) (s : Slice) (x : α)
    (hc : s.len < cap h s) :
    append grow pad h s x =
      (h.set s.arr ((h.getD s.arr []).set s.len x), { s with len := s.len + 1 },
        [{ arr := s.arr, idx := s.len, write := true }]) := by
  unfold append
  rw [if_pos hc]

theorem append_realloc (grow : Nat → Nat) (pad : α) (h : Heap α) (s : Slice) (x : α)
    (hc : ¬ s.len < cap h s) :
    append grow pad h s x =
      (h ++ [read h s ++ [x] ++ List.replicate (grow s.len - (s.len + 1)) pad],
        { arr := h.length, len := s.len + 1 },
        (List.range (s.len + 1)).map fun i => { arr := h.length, idx := i, write := true }) := by
  unfold append
  rw [if_neg hc]

/-! ### Specification of a run of appends to one slice -/

/-- From heap `h` and slice `s`, appending `xs` gave heap `h'`, slice `s'`, and extended
the write log from `w0` to `w`. -/
structure AppSpec (h : Heap α) (s : Slice) (xs : List α) (w0 : List Access)
    (h' : Heap α) (s' : Slice) (w : List Access) : Prop where
  len_le : h.length ≤ h'.length
  valid : Valid h' s'
  read_self : read h' s' = read h s ++ xs
  arr : (s'.arr = s.arr ∧ s.len ≤ s'.len) ∨ h.length ≤ s'.arr
  frame : ∀ t : Slice, t.arr < h.length → (t.arr ≠ s.arr ∨ t.len ≤ s.len) → read h' t = read h t
  cap_eq : ∀ t : Slice, t.arr < h.length → cap h' t = cap h t
  writes : ∀ a ∈ w, a ∈ w0 ∨ (a.write = true ∧ (a.arr = s.arr ∨ h.length ≤ a.arr))

theorem AppSpec.refl {h : Heap α} {s : Slice} (hv : Valid h s) (w0 : List Access) :
    AppSpec h s [] w0 h s w0 where
  len_le := Nat.le_refl _
  valid := hv
  read_self := by simp
  arr := Or.inl ⟨rfl, Nat.le_refl _⟩
  frame := fun _ _ _ => rfl
  cap_eq := fun _ _ => rfl
  writes := fun _ ha => Or.inl ha

theorem AppSpec.trans {h h1 h2 : Heap α} {s s1 s2 : Slice} {xs ys : List α}
    {w0 w1 w2 : List Access} (a : AppSpec h s xs w0 h1 s1 w1) (b : AppSpec h1 s1 ys w1 h2 s2 w2) :
    AppSpec h s (xs ++ ys) w0 h2 s2 w2 where
  len_le := Nat.le_trans a.len_le b.len_le
  valid := b.valid
  read_self := by rw [b.read_self, a.read_self, List.append_assoc]
  arr := by
    have h1 := a.arr; have h2 := b.arr; have h3 := a.len_le
    omega
  frame := by
    intro t ht hc
    have h1 := a.arr
    rw [b.frame t (Nat.lt_of_lt_of_le ht a.len_le) (by omega), a.frame t ht hc]
  cap_eq := by
    intro t ht
    rw [b.cap_eq t (Nat.lt_of_lt_of_le ht a.len_le), a.cap_eq t ht]
  writes := by
    intro e he
    rcases b.writes e he with he | ⟨hw, he⟩
    · exact a.writes e he
    · refine Or.inr ⟨hw, ?_⟩
      have h1 := a.arr; have h3 := a.len_le
      omega

/-- One `append`. -/
theorem append_spec (grow : Nat → Nat) (hg : ∀ n, grow n > n) (pad : α) {h : Heap α} {s : Slice}
    (hv : Valid h s) (x : α) (w0 : List Access) :
    AppSpec h s [x] w0 (append grow pad h s x).1 (append grow pad h s x).2.1
      (w0 ++ (append grow pad h s x).2.2) := by
  obtain ⟨hs, hl⟩ := hv
  by_cases hc : s.len < cap h s
  · rw [append_inplace grow pad h s x hc]
    have hc' : s.len < (h.getD s.arr []).length := hc
    refine ⟨by simp, ⟨by simpa using hs, ?_⟩, ?_, Or.inl ⟨rfl, Nat.le_succ _⟩, ?_, ?_, ?_⟩
    · show s.len + 1 ≤ cap _ _
      unfold cap
      simp only [getD_set_self _ hs, List.length_set]
      exact hc
    · show read _ _ = _
      unfold read
      simp only [getD_set_self _ hs]
      exact take_succ_set x hc'
    · intro t _ htc
      unfold read
      by_cases hts : t.arr = s.arr
      · have : t.len ≤ s.len := by omega
        rw [hts, getD_set_self _ hs, take_set_ge x this]
      · rw [getD_set_ne _ (Ne.symm hts)]
    · intro t _
      unfold cap
      by_cases hts : t.arr = s.arr
      · rw [hts, getD_set_self _ hs, List.length_set]
      · rw [getD_set_ne _ (Ne.symm hts)]
    · intro a ha
      rw [List.mem_append] at ha
      rcases ha with ha | ha
      · exact Or.inl ha
      · simp only [List.mem_singleton] at ha
        subst ha
        exact Or.inr ⟨rfl, Or.inl rfl⟩
  · rw [append_realloc grow pad h s x hc]
    have hlen : (read h s).length = s.len := length_read hl
    refine ⟨by simp, ⟨by simp, ?_⟩, ?_, Or.inr (Nat.le_refl _), ?_, ?_, ?_⟩
    · show s.len + 1 ≤ cap _ _
      unfold cap
      simp only [getD_append_length, List.length_append, List.length_replicate, hlen,
        List.length_singleton]
      have := hg s.len
      omega
    · show read _ _ = _
      show List.take (s.len + 1) ((h ++ [_]).getD h.length []) = _
      rw [getD_append_length, List.take_append]
      have : (read h s ++ [x]).length = s.len + 1 := by simp [hlen]
      rw [List.take_of_length_le (Nat.le_of_eq this), this, Nat.sub_self, List.take_zero,
        List.append_nil]
    · intro t ht _
      unfold read
      rw [getD_append_left _ ht]
    · intro t ht
      unfold cap
      rw [getD_append_left _ ht]
    · intro a ha
      rw [List.mem_append] at ha
      rcases ha with ha | ha
      · exact Or.inl ha
      · simp only [List.mem_map] at ha
        obtain ⟨i, _, rfl⟩ := ha
        exact Or.inr ⟨rfl, Or.inr (Nat.le_refl _)⟩

/-- The accumulating fold used by `step (.appendToken ..)` and `payloadPinned`. -/
def appFold (grow : Nat → Nat) (pad : α) (acc : Heap α × Slice × List Access) (xs : List α) :
    Heap α × Slice × List Access :=
  xs.foldl (fun (acc : Heap α × Slice × List Access) x =>
    let a := append grow pad acc.1 acc.2.1 x
    (a.1, a.2.1, acc.2.2 ++ a.2.2)) acc

theorem appFold_spec (grow : Nat → Nat) (hg : ∀ n, grow n > n) (pad : α) {h : Heap α} {s : Slice}
    (hv : Valid h s) (w0 : List Access) (xs : List α) :
    AppSpec h s xs w0 (appFold grow pad (h, s, w0) xs).1 (appFold grow pad (h, s, w0) xs).2.1
      (appFold grow pad (h, s, w0) xs).2.2 := by
  induction xs generalizing h s w0 with
  | nil => exact AppSpec.refl hv w0
  | cons x xs ih =>
    have a := append_spec grow hg pad hv x w0
    have b := ih a.valid (w0 ++ (append grow pad h s x).2.2)
    exact AppSpec.trans a b

theorem AppSpec.forget {h h' : Heap α} {s s' : Slice} {xs : List α} {w0 w : List Access}
    (a : AppSpec h s xs w0 h' s' w) : AppSpec h s xs [] h' s' [] :=
  { a with writes := fun _ ha => Or.inl ha }

/-- `appendAll` of Props/C03Heap (same recursion, stated here so that its specification
can live under Proofs/). -/
def appendAllG (grow : Nat → Nat) (pad : α) (h : Heap α) (s : Slice) : List α → Heap α × Slice
  | [] => (h, s)
  | x :: xs => let r := append grow pad h s x; appendAllG grow pad r.1 r.2.1 xs

theorem appendAllG_spec (grow : Nat → Nat) (hg : ∀ n, grow n > n) (pad : α) {h : Heap α} {s : Slice}
    (hv : Valid h s) (xs : List α) :
    AppSpec h s xs [] (appendAllG grow pad h s xs).1 (appendAllG grow pad h s xs).2 [] := by
  induction xs generalizing h s with
  | nil => exact AppSpec.refl hv []
  | cons x xs ih =>
    have a := (append_spec grow hg pad hv x []).forget
    exact AppSpec.trans a (ih a.valid)

/-! ### Deep clone and pure extensions -/

/-- `h'` extends `h`: every allocated array of `h` is still there with the same cells. -/
def Ext (h h' : Heap α) : Prop :=
  h.length ≤ h'.length ∧ ∀ t : Slice, t.arr < h.length → read h' t = read h t ∧ cap h' t = cap h t

theorem Ext.refl (h : Heap α) : Ext h h := ⟨Nat.le_refl _, fun _ _ => ⟨rfl, rfl⟩⟩

theorem Ext.trans {h h1 h2 : Heap α} (a : Ext h h1) (b : Ext h1 h2) : Ext h h2 :=
  ⟨Nat.le_trans a.1 b.1, fun t ht => by
    have h1 := b.2 t (Nat.lt_of_lt_of_le ht a.1)
    have h2 := a.2 t ht
    exact ⟨h1.1.trans h2.1, h1.2.trans h2.2⟩⟩

theorem Ext.valid {h h' : Heap α} (e : Ext h h') {t : Slice} (hv : Valid h t) : Valid h' t :=
  ⟨Nat.lt_of_lt_of_le hv.1 e.1, by rw [(e.2 t hv.1).2]; exact hv.2⟩

theorem ext_append (h : Heap α) (a : Heap α) : Ext h (h ++ a) :=
  ⟨by simp, fun t ht => by unfold read cap; rw [getD_append_left _ ht]; exact ⟨rfl, rfl⟩⟩

theorem cloneDeep_valid {h : Heap α} {s : Slice} (hv : Valid h s) :
    Valid (h ++ [read h s]) { arr := h.length, len := s.len } := by
  refine ⟨by simp, ?_⟩
  unfold cap
  simp only [getD_append_length, length_read hv.2]
  exact Nat.le_refl _

theorem cloneDeep_read {h : Heap α} {s : Slice} :
    read (h ++ [read h s]) { arr := h.length, len := s.len } = read h s := by
  show List.take s.len ((h ++ [read h s]).getD h.length []) = _
  rw [getD_append_length]
  unfold read
  rw [List.take_take, Nat.min_self]

/-- Appends to a slice living in the array `k ≥ h0.length` of `h` extend `h0`. -/
theorem AppSpec.ext {h0 h h' : Heap α} {s s' : Slice} {xs : List α} {w0 w : List Access}
    (a : AppSpec h s xs w0 h' s' w) (e : Ext h0 h) (hk : h0.length ≤ s.arr) : Ext h0 h' :=
  ⟨Nat.le_trans e.1 a.len_le, fun t ht => by
    have ht' : t.arr < h.length := Nat.lt_of_lt_of_le ht e.1
    have h2 := e.2 t ht
    exact ⟨(a.frame t ht' (Or.inl (by omega))).trans h2.1, (a.cap_eq t ht').trans h2.2⟩⟩

theorem AppSpec.fresh {h0 h h' : Heap α} {s s' : Slice} {xs : List α} {w0 w : List Access}
    (a : AppSpec h s xs w0 h' s' w) (e : Ext h0 h) (hk : h0.length ≤ s.arr) : h0.length ≤ s'.arr := by
  have h1 := a.arr; have h2 := e.1
  omega

theorem AppSpec.writes_fresh {h0 h h' : Heap α} {s s' : Slice} {xs : List α} {w0 w : List Access}
    (a : AppSpec h s xs w0 h' s' w) (e : Ext h0 h) (hk : h0.length ≤ s.arr) :
    ∀ c ∈ w, c ∈ w0 ∨ h0.length ≤ c.arr := by
  intro c hc
  rcases a.writes c hc with hc | ⟨_, hc⟩
  · exact Or.inl hc
  · have h2 := e.1
    exact Or.inr (by omega)

theorem AppSpec.valid_of {h h' : Heap α} {s s' : Slice} {xs : List α} {w0 w : List Access}
    (a : AppSpec h s xs w0 h' s' w) {t : Slice} (hv : Valid h t) : Valid h' t :=
  ⟨Nat.lt_of_lt_of_le hv.1 a.len_le, by rw [a.cap_eq t hv.1]; exact hv.2⟩

/-! ### `Owned` in membership form -/

theorem owned_iff (st : State α) : Owned st ↔
    (st.tokens.map (·.arr) ++ st.builders.map (·.1.arr)).Nodup ∧
    (∀ s ∈ st.tokens, Valid st.heap s) ∧ (∀ b ∈ st.builders, Valid st.heap b.1) := by
  unfold Owned Valid
  simp only [List.map_append, List.map_map, List.mem_append, List.mem_map]
  constructor
  · rintro ⟨hn, hv⟩
    exact ⟨hn, fun s hs => hv s (Or.inl hs), fun b hb => hv b.1 (Or.inr ⟨b, hb, rfl⟩)⟩
  · rintro ⟨hn, ht, hb⟩
    refine ⟨hn, fun s hs => ?_⟩
    rcases hs with hs | ⟨b, hb', rfl⟩
    · exact ht s hs
    · exact hb b hb'

theorem fresh_not_mem {st : State α} (ht : ∀ s ∈ st.tokens, Valid st.heap s)
    (hb : ∀ b ∈ st.builders, Valid st.heap b.1) {k : Nat} (hk : st.heap.length ≤ k) :
    k ∉ st.tokens.map (·.arr) ++ st.builders.map (·.1.arr) := by
  simp only [List.mem_append, List.mem_map, not_or, not_exists, not_and]
  refine ⟨fun s hs he => ?_, fun b hb' he => ?_⟩
  · have := (ht s hs).1; omega
  · have := (hb b hb').1; omega

theorem append_set_eq {β : Type} (l1 l2 : List β) (i : Nat) (v : β) :
    l1 ++ l2.set i v = (l1 ++ l2).set (l1.length + i) v := by
  rw [List.set_append, if_neg (by omega), Nat.add_sub_cancel_left]

/-! ### What `createBlock` and `addSymbol` produce (repaired `Clone`) -/

theorem step_createBlock_spec (grow : Nat → Nat) (pad : α) {st : State α} {t : Nat} {s : Slice}
    (hs : st.tokens[t]? = some s) :
    ∃ b, (step true grow pad st (.createBlock t)).1.builders = st.builders ++ [(b, s.len)] ∧
      read (step true grow pad st (.createBlock t)).1.heap b = read st.heap s := by
  simp only [step, hs, cloneDeep, if_true]
  exact ⟨_, rfl, cloneDeep_read⟩

theorem step_addSymbol_spec (grow : Nat → Nat) (hg : ∀ n, grow n > n) (pad : α) {st : State α}
    (h : Owned st) {n : Nat} {b : Slice} {k : Nat} (hb : st.builders[n]? = some (b, k)) (x : α) :
    ∃ b', (step true grow pad st (.addSymbol n x)).1.builders[n]? = some (b', k) ∧
      read (step true grow pad st (.addSymbol n x)).1.heap b' = read st.heap b ++ [x] := by
  have hv : Valid st.heap b := ((owned_iff st).mp h).2.2 (b, k) (List.mem_of_getElem? hb)
  simp only [step, hb]
  exact ⟨_, List.getElem?_set_self (List.getElem?_eq_some_iff.mp hb).1,
    (append_spec grow hg pad hv x []).read_self⟩

end Biscuit.Heap
