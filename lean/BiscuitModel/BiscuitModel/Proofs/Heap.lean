/-
Proofs/Heap — helper lemmas for C08, C19, C03Heap.
-/
import BiscuitModel.Model.Heap

namespace Biscuit.Heap

end Biscuit.Heap
