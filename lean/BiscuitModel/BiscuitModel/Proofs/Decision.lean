/-
Proofs/Decision — helper lemmas for C04: the evaluation-order model computes the
declarative decision procedure inside the specified fragment.
-/
import BiscuitModel.Spec.Decision
import BiscuitModel.Proofs.Datalog

namespace Biscuit

/-! ### `DerivableP`: monotonicity, congruence, link with `Derivable` -/

theorem DerivableP.mono {cfg : EvalCfg} {P : List DRule} {B B' : DFact → Prop}
    (h : ∀ f, B f → B' f) : ∀ f, DerivableP cfg P B f → DerivableP cfg P B' f := by
  intro f hd
  induction hd with
  | base hf => exact DerivableP.base (h _ hf)
  | rule hr hsome _ hdom hex hhead ih => exact DerivableP.rule hr hsome ih hdom hex hhead

theorem DerivableP.congr {cfg : EvalCfg} {P : List DRule} {B B' : DFact → Prop}
    (h : ∀ f, B f ↔ B' f) (f : DFact) : DerivableP cfg P B f ↔ DerivableP cfg P B' f :=
  ⟨DerivableP.mono (fun g => (h g).mp) f, DerivableP.mono (fun g => (h g).mpr) f⟩

theorem derivable_iff_derivableP (cfg : EvalCfg) (P : List DRule) (F : List DFact) (f : DFact) :
    Derivable (evalBool cfg) P F f ↔ DerivableP cfg P (fun g => g ∈ F) f := by
  constructor
  · intro hd
    induction hd with
    | base hf => exact DerivableP.base hf
    | rule hr hsome _ hdom hex hhead ih => exact DerivableP.rule hr hsome ih hdom hex hhead
  · intro hd
    induction hd with
    | base hf => exact Derivable.base hf
    | rule hr hsome _ hdom hex hhead ih => exact Derivable.rule hr hsome ih hdom hex hhead

/-! ### Runs compute closures -/

theorem runWorld_spec (cfg : EvalCfg) (lim : Limits) (W w : World)
    (h : runWorld cfg lim W = (w, none)) (f : DFact) :
    f ∈ w.facts ↔ DerivableP cfg W.rules (fun g => g ∈ W.facts) f := by
  unfold runWorld at h
  simp only [Prod.mk.injEq] at h
  obtain ⟨hw, hnone⟩ := h
  have hrun : run (evalBool cfg) lim.maxFacts W.rules lim.maxIter W.facts = (w.facts, none) := by
    rw [← hw]
    exact Prod.ext rfl hnone
  rw [← derivable_iff_derivableP]
  exact ⟨run_sound _ (evalBool_respects cfg) _ _ _ _ _ hrun f,
         run_complete _ (evalBool_respects cfg) _ _ _ _ _ hrun f⟩

/-- The authority-level run computes the authority scope. -/
theorem authorityRun_spec (cfg : EvalCfg) (A : Block) (s : AuthState) (w : World)
    (h : runWorld cfg s.limits
      { facts := insertAll s.world.facts A.facts, rules := s.world.rules ++ A.rules } = (w, none))
    (f : DFact) : f ∈ w.facts ↔ authorityScope cfg A s f := by
  rw [runWorld_spec cfg _ _ _ h f]
  unfold authorityScope
  exact DerivableP.congr (fun g => mem_insertAll _ _ g) f

/-- A later block's run computes that block's scope. -/
theorem blockRun_spec (cfg : EvalCfg) (A : Block) (s : AuthState) (lim : Limits) (b : Block)
    (base : List DFact) (hbase : ∀ f, f ∈ base ↔ authorityScope cfg A s f) (wb : World)
    (h : runWorld cfg lim { facts := insertAll base b.facts, rules := b.rules } = (wb, none))
    (f : DFact) : f ∈ wb.facts ↔ blockScope cfg A s b f := by
  rw [runWorld_spec cfg _ _ _ h f]
  unfold blockScope
  refine DerivableP.congr (fun g => ?_) f
  show g ∈ insertAll base b.facts ↔ _
  rw [mem_insertAll, hbase]

/-! ### Queries, checks, policies -/

theorem QHolds.congr {cfg : EvalCfg} {M M' : DFact → Prop} (h : ∀ f, M f ↔ M' f) (q : DRule) :
    QHolds cfg M q ↔ QHolds cfg M' q := by
  unfold QHolds
  constructor
  · rintro ⟨σ, f, hb, rest⟩
    exact ⟨σ, f, fun p hp => (hb p hp).imp fun g hg => ⟨hg.1, (h g).mp hg.2⟩, rest⟩
  · rintro ⟨σ, f, hb, rest⟩
    exact ⟨σ, f, fun p hp => (hb p hp).imp fun g hg => ⟨hg.1, (h g).mpr hg.2⟩, rest⟩

theorem CheckHolds.congr {cfg : EvalCfg} {M M' : DFact → Prop} (h : ∀ f, M f ↔ M' f) (c : Check) :
    CheckHolds cfg M c ↔ CheckHolds cfg M' c := by
  unfold CheckHolds
  constructor
  · rintro ⟨q, hq, hh⟩; exact ⟨q, hq, (QHolds.congr h q).mp hh⟩
  · rintro ⟨q, hq, hh⟩; exact ⟨q, hq, (QHolds.congr h q).mpr hh⟩

theorem PolicyHolds.congr {cfg : EvalCfg} {M M' : DFact → Prop} (h : ∀ f, M f ↔ M' f) (p : Policy) :
    PolicyHolds cfg M p ↔ PolicyHolds cfg M' p := by
  unfold PolicyHolds
  constructor
  · rintro ⟨q, hq, hh⟩; exact ⟨q, hq, (QHolds.congr h q).mp hh⟩
  · rintro ⟨q, hq, hh⟩; exact ⟨q, hq, (QHolds.congr h q).mpr hh⟩

theorem queryHolds_iff (cfg : EvalCfg) (W : List DFact) (q : DRule)
    (h : (applyRule (evalBool cfg) q W []).2 = none) :
    queryHolds cfg W q = true ↔ QHolds cfg (fun g => g ∈ W) q := by
  have happ : applyRule (evalBool cfg) q W [] = ((applyRule (evalBool cfg) q W []).1, none) :=
    Prod.ext rfl h
  have hspec := applyRule_spec (evalBool cfg) (evalBool_respects cfg) q W [] _ happ
  unfold queryHolds queryRule QHolds
  constructor
  · intro hq
    cases hout : (applyRule (evalBool cfg) q W []).1 with
    | nil => rw [hout] at hq; simp at hq
    | cons f fs =>
      have hf : f ∈ (applyRule (evalBool cfg) q W []).1 := by rw [hout]; exact List.mem_cons_self ..
      rcases (hspec f).mp hf with hf | ⟨σ, hsat, hhead⟩
      · cases hf
      · exact ⟨σ, f, hsat.body, hsat.dom, hsat.exprs, hhead⟩
  · rintro ⟨σ, f, hb, hdom, hex, hhead⟩
    have hf : f ∈ (applyRule (evalBool cfg) q W []).1 :=
      (hspec f).mpr (Or.inr ⟨σ, ⟨hb, hdom, hex⟩, hhead⟩)
    cases hout : (applyRule (evalBool cfg) q W []).1 with
    | nil => rw [hout] at hf; cases hf
    | cons g gs => simp

theorem any_queryHolds_iff (cfg : EvalCfg) (W : List DFact) (M : DFact → Prop)
    (hM : ∀ f, f ∈ W ↔ M f) (qs : List DRule)
    (h : ∀ q ∈ qs, (applyRule (evalBool cfg) q W []).2 = none) :
    qs.any (queryHolds cfg W) = true ↔ ∃ q ∈ qs, QHolds cfg M q := by
  rw [List.any_eq_true]
  constructor
  · rintro ⟨q, hq, hh⟩
    exact ⟨q, hq, (QHolds.congr hM q).mp ((queryHolds_iff cfg W q (h q hq)).mp hh)⟩
  · rintro ⟨q, hq, hh⟩
    exact ⟨q, hq, (queryHolds_iff cfg W q (h q hq)).mpr ((QHolds.congr hM q).mpr hh)⟩

theorem checkHolds_iff (cfg : EvalCfg) (W : List DFact) (M : DFact → Prop)
    (hM : ∀ f, f ∈ W ↔ M f) (c : Check)
    (h : ∀ q ∈ c.queries, (applyRule (evalBool cfg) q W []).2 = none) :
    checkHolds cfg W c = true ↔ CheckHolds cfg M c :=
  any_queryHolds_iff cfg W M hM c.queries h

/-! ### Failure lists -/

theorem mem_failedFrom (cfg : EvalCfg) (W : List DFact) (mk : Nat → CheckId) :
    ∀ (cs : List Check) (start : Nat) (id : CheckId),
    id ∈ failedFrom cfg W mk cs start ↔
      ∃ j c, cs[j]? = some c ∧ id = mk (start + j) ∧ checkHolds cfg W c = false
  | [], start, id => by simp [failedFrom]
  | c :: cs, start, id => by
    have ih := mem_failedFrom cfg W mk cs (start + 1) id
    have key : (∃ j c', (c :: cs)[j]? = some c' ∧ id = mk (start + j) ∧ checkHolds cfg W c' = false) ↔
        (id = mk start ∧ checkHolds cfg W c = false) ∨
        ∃ j c', cs[j]? = some c' ∧ id = mk (start + 1 + j) ∧ checkHolds cfg W c' = false := by
      constructor
      · rintro ⟨j, c', hj, hid, hc⟩
        cases j with
        | zero =>
          simp only [List.getElem?_cons_zero, Option.some.injEq] at hj
          subst hj
          exact Or.inl ⟨hid, hc⟩
        | succ j =>
          simp only [List.getElem?_cons_succ] at hj
          exact Or.inr ⟨j, c', hj, by rw [hid]; congr 1; omega, hc⟩
      · rintro (⟨hid, hc⟩ | ⟨j, c', hj, hid, hc⟩)
        · exact ⟨0, c, by simp, hid, hc⟩
        · exact ⟨j + 1, c', by simpa using hj, by rw [hid]; congr 1; omega, hc⟩
    rw [key]
    unfold failedFrom
    by_cases hc : checkHolds cfg W c = true
    · rw [if_pos hc, ih]
      constructor
      · exact Or.inr
      · rintro (⟨_, hc'⟩ | h)
        · rw [hc] at hc'; cases hc'
        · exact h
    · rw [if_neg hc, List.mem_cons, ih]
      have hc' : checkHolds cfg W c = false := by simpa using hc
      constructor
      · rintro (h | h)
        · exact Or.inl ⟨h, hc'⟩
        · exact Or.inr h
      · rintro (⟨h, _⟩ | h)
        · exact Or.inl h
        · exact Or.inr h

/-- Membership in a failure list, for an injective tag and a list of checks whose
queries all complete. -/
theorem mem_failedChecks (cfg : EvalCfg) (W : List DFact) (M : DFact → Prop)
    (hM : ∀ f, f ∈ W ↔ M f) (mk : Nat → CheckId) (cs : List Check)
    (h : ∀ c ∈ cs, ∀ q ∈ c.queries, (applyRule (evalBool cfg) q W []).2 = none)
    (id : CheckId) :
    id ∈ failedChecks cfg W mk cs ↔
      ∃ j c, cs[j]? = some c ∧ id = mk j ∧ ¬ CheckHolds cfg M c := by
  unfold failedChecks
  rw [mem_failedFrom]
  constructor
  · rintro ⟨j, c, hj, hid, hc⟩
    refine ⟨j, c, hj, by simpa using hid, ?_⟩
    intro hh
    have := (checkHolds_iff cfg W M hM c (h c (List.mem_of_getElem? hj))).mpr hh
    rw [hc] at this; cases this
  · rintro ⟨j, c, hj, hid, hc⟩
    refine ⟨j, c, hj, by simpa using hid, ?_⟩
    cases hb : checkHolds cfg W c with
    | false => rfl
    | true => exact absurd ((checkHolds_iff cfg W M hM c (h c (List.mem_of_getElem? hj))).mp hb) hc

/-! ### First policy -/

theorem firstPolicy_some_iff (cfg : EvalCfg) (W : List DFact) (M : DFact → Prop)
    (hM : ∀ f, f ∈ W ↔ M f) (k : PolicyKind) :
    ∀ (ps : List Policy),
    (∀ p ∈ ps, ∀ q ∈ p.queries, (applyRule (evalBool cfg) q W []).2 = none) →
    (firstPolicy cfg W ps = some k ↔ FirstPolicyIs cfg M ps k)
  | [], _ => by
    simp only [firstPolicy, FirstPolicyIs]
    constructor
    · intro h; cases h
    · rintro ⟨pre, p, post, h, _⟩
      cases pre <;> cases h
  | p :: ps, h => by
    have ih := firstPolicy_some_iff cfg W M hM k ps (fun p' hp' => h p' (List.mem_cons_of_mem _ hp'))
    have hp : p.queries.any (queryHolds cfg W) = true ↔ PolicyHolds cfg M p :=
      any_queryHolds_iff cfg W M hM p.queries (h p (List.mem_cons_self ..))
    unfold firstPolicy
    by_cases hh : p.queries.any (queryHolds cfg W) = true
    · rw [if_pos hh]
      constructor
      · intro hk
        simp only [Option.some.injEq] at hk
        exact ⟨[], p, ps, rfl, hk, hp.mp hh, by simp⟩
      · rintro ⟨pre, p', post, heq, hk, hholds, hpre⟩
        cases pre with
        | nil =>
          simp only [List.nil_append, List.cons.injEq] at heq
          rw [heq.1, hk]
        | cons a pre =>
          simp only [List.cons_append, List.cons.injEq] at heq
          exact absurd (hp.mp hh) (heq.1 ▸ hpre a (List.mem_cons_self ..))
    · rw [if_neg hh, ih]
      constructor
      · rintro ⟨pre, p', post, heq, hk, hholds, hpre⟩
        refine ⟨p :: pre, p', post, by rw [heq]; rfl, hk, hholds, ?_⟩
        intro a ha
        rcases List.mem_cons.mp ha with rfl | ha
        · exact fun hc => hh (hp.mpr hc)
        · exact hpre a ha
      · rintro ⟨pre, p', post, heq, hk, hholds, hpre⟩
        cases pre with
        | nil =>
          simp only [List.nil_append, List.cons.injEq] at heq
          exact absurd (hp.mpr (heq.1 ▸ hholds)) hh
        | cons a pre =>
          simp only [List.cons_append, List.cons.injEq] at heq
          exact ⟨pre, p', post, heq.2, hk, hholds, fun b hb => hpre b (List.mem_cons_of_mem _ hb)⟩

theorem firstPolicy_none_iff (cfg : EvalCfg) (W : List DFact) (M : DFact → Prop)
    (hM : ∀ f, f ∈ W ↔ M f) :
    ∀ (ps : List Policy),
    (∀ p ∈ ps, ∀ q ∈ p.queries, (applyRule (evalBool cfg) q W []).2 = none) →
    (firstPolicy cfg W ps = none ↔ ∀ p ∈ ps, ¬ PolicyHolds cfg M p)
  | [], _ => by simp [firstPolicy]
  | p :: ps, h => by
    have ih := firstPolicy_none_iff cfg W M hM ps (fun p' hp' => h p' (List.mem_cons_of_mem _ hp'))
    have hp : p.queries.any (queryHolds cfg W) = true ↔ PolicyHolds cfg M p :=
      any_queryHolds_iff cfg W M hM p.queries (h p (List.mem_cons_self ..))
    unfold firstPolicy
    by_cases hh : p.queries.any (queryHolds cfg W) = true
    · rw [if_pos hh]
      constructor
      · intro hk; cases hk
      · intro hall
        exact absurd (hp.mp hh) (hall p (List.mem_cons_self ..))
    · rw [if_neg hh, ih]
      constructor
      · intro hall a ha
        rcases List.mem_cons.mp ha with rfl | ha
        · exact fun hc => hh (hp.mpr hc)
        · exact hall a ha
      · intro hall a ha
        exact hall a (List.mem_cons_of_mem _ ha)

/-! ### The block loop -/

/-- Hypothesis of the fragment about later blocks, relative to the authority-level facts. -/
def BlocksComplete (cfg : EvalCfg) (lim : Limits) (base : List DFact) (bs : List Block) : Prop :=
  ∀ b ∈ bs, ∃ wb, runWorld cfg lim { facts := insertAll base b.facts, rules := b.rules } = (wb, none) ∧
    ∀ c ∈ b.checks, ∀ q ∈ c.queries, (applyRule (evalBool cfg) q wb.facts []).2 = none

theorem blockPhase_spec (cfg : EvalCfg) (A : Block) (s : AuthState) (lim : Limits)
    (base : List DFact) (hbase : ∀ f, f ∈ base ↔ authorityScope cfg A s f) :
    ∀ (bs : List Block) (idx : Nat) (acc : List CheckId), BlocksComplete cfg lim base bs →
    ∃ out, blockPhase cfg lim base bs idx acc = .ok out ∧
      ∀ id, id ∈ out ↔ id ∈ acc ∨
        ∃ k b j c, bs[k]? = some b ∧ b.checks[j]? = some c ∧ id = CheckId.block (idx + k) j ∧
          ¬ CheckHolds cfg (blockScope cfg A s b) c
  | [], idx, acc, _ => by
    refine ⟨acc, rfl, fun id => ?_⟩
    simp
  | b :: bs, idx, acc, h => by
    obtain ⟨wb, hrun, hq⟩ := h b (List.mem_cons_self ..)
    have hscope := blockRun_spec cfg A s lim b base hbase wb hrun
    have hev : evalBlock cfg lim base b idx =
        .ok (failedChecks cfg wb.facts (CheckId.block idx) b.checks) := by
      unfold evalBlock
      simp only [hrun]
    obtain ⟨out, hout, hmem⟩ := blockPhase_spec cfg A s lim base hbase bs (idx + 1)
      (acc ++ failedChecks cfg wb.facts (CheckId.block idx) b.checks)
      (fun b' hb' => h b' (List.mem_cons_of_mem _ hb'))
    refine ⟨out, ?_, fun id => ?_⟩
    · simp only [blockPhase, hev]
      exact hout
    · rw [hmem id, List.mem_append,
        mem_failedChecks cfg wb.facts _ hscope (CheckId.block idx) b.checks hq id]
      constructor
      · rintro ((h1 | ⟨j, c, hj, hid, hc⟩) | ⟨k, b', j, c, hk, hj, hid, hc⟩)
        · exact Or.inl h1
        · exact Or.inr ⟨0, b, j, c, by simp, hj, by simpa using hid, hc⟩
        · exact Or.inr ⟨k + 1, b', j, c, by simpa using hk, hj,
            by rw [hid]; congr 1; omega, hc⟩
      · rintro (h1 | ⟨k, b', j, c, hk, hj, hid, hc⟩)
        · exact Or.inl (Or.inl h1)
        · cases k with
          | zero =>
            simp only [List.getElem?_cons_zero, Option.some.injEq] at hk
            subst hk
            exact Or.inl (Or.inr ⟨j, c, hj, by simpa using hid, hc⟩)
          | succ k =>
            simp only [List.getElem?_cons_succ] at hk
            exact Or.inr ⟨k, b', j, c, hk, hj, by rw [hid]; congr 1; omega, hc⟩

/-! ### `authorize` inside the fragment -/

/-- The identifiers of the checks that do not hold, declaratively. -/
def FailingId (cfg : EvalCfg) (tok : Token) (s : AuthState) (id : CheckId) : Prop :=
  (∃ j c, s.checks[j]? = some c ∧ id = CheckId.authorizer j ∧
      ¬ CheckHolds cfg (authorityScope cfg tok.authority s) c) ∨
  (∃ j c, tok.authority.checks[j]? = some c ∧ id = CheckId.block 0 j ∧
      ¬ CheckHolds cfg (authorityScope cfg tok.authority s) c) ∨
  (∃ k b j c, tok.blocks[k]? = some b ∧ b.checks[j]? = some c ∧ id = CheckId.block (k + 1) j ∧
      ¬ CheckHolds cfg (blockScope cfg tok.authority s b) c)

/-- Inside the fragment, `authorize` reports the failing checks if there are any and
otherwise the kind of the first policy satisfied in the authority-level world. -/
theorem authorize_frag (cfg : EvalCfg) (tok : Token) (s : AuthState)
    (hf : WithinFragment cfg tok s) :
    ∃ (w : World) (ids : List CheckId),
      (∀ f, f ∈ w.facts ↔ authorityScope cfg tok.authority s f) ∧
      (∀ p ∈ s.policies, ∀ q ∈ p.queries, (applyRule (evalBool cfg) q w.facts []).2 = none) ∧
      (authorize cfg tok s).2 =
        (if ids.isEmpty then policyVerdict (firstPolicy cfg w.facts s.policies)
         else .checksFailed ids) ∧
      ∀ id, id ∈ ids ↔ FailingId cfg tok s id := by
  obtain ⟨w, hw⟩ := hf.authorityRun
  obtain ⟨hqc, hqp⟩ := hf.authorityQueries w hw
  have hscope := authorityRun_spec cfg tok.authority s w hw
  obtain ⟨out, hout, hmem⟩ := blockPhase_spec cfg tok.authority s s.limits w.facts hscope
    tok.blocks 1
    (failedChecks cfg w.facts CheckId.authorizer s.checks ++
      failedChecks cfg w.facts (CheckId.block 0) tok.authority.checks)
    (hf.blockRuns w hw)
  refine ⟨w, out, hscope, hqp, ?_, fun id => ?_⟩
  · simp only [authorize, authorizeWith, authorityPhase, hw, hout]
    cases out <;> simp
  · rw [hmem id, List.mem_append,
      mem_failedChecks cfg w.facts _ hscope CheckId.authorizer s.checks
        (fun c hc => hqc c (List.mem_append_left _ hc)) id,
      mem_failedChecks cfg w.facts _ hscope (CheckId.block 0) tok.authority.checks
        (fun c hc => hqc c (List.mem_append_right _ hc)) id]
    unfold FailingId
    constructor
    · rintro ((h1 | h2) | ⟨k, b, j, c, hk, hj, hid, hc⟩)
      · exact Or.inl h1
      · exact Or.inr (Or.inl h2)
      · exact Or.inr (Or.inr ⟨k, b, j, c, hk, hj, by rw [hid]; congr 1; omega, hc⟩)
    · rintro (h1 | h2 | ⟨k, b, j, c, hk, hj, hid, hc⟩)
      · exact Or.inl (Or.inl h1)
      · exact Or.inl (Or.inr h2)
      · exact Or.inr ⟨k, b, j, c, hk, hj, by rw [hid]; congr 1; omega, hc⟩

/-! ### Reading the verdict -/

theorem policyVerdict_ok_iff (o : Option PolicyKind) : policyVerdict o = .ok ↔ o = some .allow := by
  cases o with
  | none => simp [policyVerdict]
  | some k => cases k <;> simp [policyVerdict]

theorem policyVerdict_denied_iff (o : Option PolicyKind) :
    policyVerdict o = .denied ↔ o = some .deny := by
  cases o with
  | none => simp [policyVerdict]
  | some k => cases k <;> simp [policyVerdict]

theorem policyVerdict_noMatch_iff (o : Option PolicyKind) : policyVerdict o = .noMatch ↔ o = none := by
  cases o with
  | none => simp [policyVerdict]
  | some k => cases k <;> simp [policyVerdict]

theorem policyVerdict_ne_checksFailed (o : Option PolicyKind) (ids : List CheckId) :
    policyVerdict o ≠ .checksFailed ids := by
  cases o with
  | none => simp [policyVerdict]
  | some k => cases k <;> simp [policyVerdict]

theorem policyVerdict_ne_runError (o : Option PolicyKind) (e : RunErr) :
    policyVerdict o ≠ .runError e := by
  cases o with
  | none => simp [policyVerdict]
  | some k => cases k <;> simp [policyVerdict]

/-- No identifier is failing exactly when every check holds in its scope. -/
theorem no_failing_iff (cfg : EvalCfg) (tok : Token) (s : AuthState) :
    (∀ id, ¬ FailingId cfg tok s id) ↔
      (∀ c ∈ s.checks, CheckHolds cfg (authorityScope cfg tok.authority s) c) ∧
      (∀ c ∈ tok.authority.checks, CheckHolds cfg (authorityScope cfg tok.authority s) c) ∧
      (∀ b ∈ tok.blocks, ∀ c ∈ b.checks, CheckHolds cfg (blockScope cfg tok.authority s b) c) := by
  constructor
  · intro h
    refine ⟨fun c hc => ?_, fun c hc => ?_, fun b hb c hc => ?_⟩
    · obtain ⟨j, hj⟩ := List.mem_iff_getElem?.mp hc
      exact Classical.byContradiction fun hn =>
        h (CheckId.authorizer j) (Or.inl ⟨j, c, hj, rfl, hn⟩)
    · obtain ⟨j, hj⟩ := List.mem_iff_getElem?.mp hc
      exact Classical.byContradiction fun hn =>
        h (CheckId.block 0 j) (Or.inr (Or.inl ⟨j, c, hj, rfl, hn⟩))
    · obtain ⟨k, hk⟩ := List.mem_iff_getElem?.mp hb
      obtain ⟨j, hj⟩ := List.mem_iff_getElem?.mp hc
      exact Classical.byContradiction fun hn =>
        h (CheckId.block (k + 1) j) (Or.inr (Or.inr ⟨k, b, j, c, hk, hj, rfl, hn⟩))
  · rintro ⟨h1, h2, h3⟩ id (⟨j, c, hj, _, hn⟩ | ⟨j, c, hj, _, hn⟩ | ⟨k, b, j, c, hk, hj, _, hn⟩)
    · exact hn (h1 c (List.mem_of_getElem? hj))
    · exact hn (h2 c (List.mem_of_getElem? hj))
    · exact hn (h3 b (List.mem_of_getElem? hk) c (List.mem_of_getElem? hj))

theorem eq_nil_iff_no_failing {cfg : EvalCfg} {tok : Token} {s : AuthState} {ids : List CheckId}
    (hmem : ∀ id, id ∈ ids ↔ FailingId cfg tok s id) :
    ids = [] ↔ ∀ id, ¬ FailingId cfg tok s id := by
  constructor
  · intro h id hid
    have := (hmem id).mpr hid
    rw [h] at this
    cases this
  · intro h
    cases ids with
    | nil => rfl
    | cons a as => exact absurd ((hmem a).mp (List.mem_cons_self ..)) (h a)

end Biscuit
