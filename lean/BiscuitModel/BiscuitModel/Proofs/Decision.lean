/-
Proofs/Decision — helper lemmas for C04: the evaluation-order model computes the
declarative decision procedure inside the specified fragment.
-/
import BiscuitModel.Spec.Decision
import BiscuitModel.Proofs.Datalog

namespace Biscuit

end Biscuit
