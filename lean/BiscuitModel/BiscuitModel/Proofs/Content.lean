/-
Proofs/Content — helper lemmas for Props/C04Content: the verdict follows from the
content the authorizer holds, not from the path by which the content arrived.

Engine level: the closure operator `Derivable` is monotone in the facts and in the rules
and absorbs its own results (`closure_absorb`); a run started anywhere between a set of
facts and its closure succeeds whenever the run started from the facts does, within the
same limits, and reaches the same closure (`run_between`).

Authorizer level: `load` is the fold of the `add*` operations (`load_addAll`), and
two authorizers whose authority-level runs reach the same set of facts give the same
verdict (`authorize_snd_of_same_closure`).
-/
import BiscuitModel.Proofs.Perm

namespace Biscuit

set_option linter.unusedSectionVars false

/-! ### Engine: monotonicity and absorption of the closure -/

section Engine
variable {V E : Type} [DecidableEq V]

/-- More rules derive more. -/
theorem Derivable.mono_rules {ev : Bindings V → E → Outcome Bool} {P P' : List (Rule V E)}
    {F : List (Fact V)} (hP : ∀ r ∈ P, r ∈ P') : ∀ f, Derivable ev P F f → Derivable ev P' F f := by
  intro f hd
  induction hd with
  | base hf => exact Derivable.base hf
  | rule hr hsome _ hdom hex hhead ih => exact Derivable.rule (hP _ hr) hsome ih hdom hex hhead

/-- More facts derive more. -/
theorem Derivable.mono_facts {ev : Bindings V → E → Outcome Bool} {P : List (Rule V E)}
    {F F' : List (Fact V)} (hF : ∀ g ∈ F, g ∈ F') : ∀ f, Derivable ev P F f → Derivable ev P F' f :=
  derivable_trans ev P F' F (fun g hg => Derivable.base (hF g hg))

/-- A set of facts lying between `F` and the closure of `F` has the closure of `F`. -/
theorem derivable_between (ev : Bindings V → E → Outcome Bool) (P : List (Rule V E))
    (F F' : List (Fact V)) (hsub : ∀ g ∈ F, g ∈ F') (hder : ∀ g ∈ F', Derivable ev P F g)
    (f : Fact V) : Derivable ev P F' f ↔ Derivable ev P F f :=
  ⟨derivable_trans ev P F F' hder f, Derivable.mono_facts hsub f⟩

/-- **Closure absorption.** `closure (closure F ∪ G) = closure (F ∪ G)`: if `W` lists the
closure of `F`, then adding `G` to `W` or to `F` derives the same facts. -/
theorem closure_absorb (ev : Bindings V → E → Outcome Bool) (P : List (Rule V E))
    (F W G : List (Fact V)) (hW : ∀ g, g ∈ W ↔ Derivable ev P F g) (f : Fact V) :
    Derivable ev P (W ++ G) f ↔ Derivable ev P (F ++ G) f := by
  apply derivable_between
  · intro g hg
    rcases List.mem_append.mp hg with hg | hg
    · exact List.mem_append_left _ ((hW g).mpr (Derivable.base hg))
    · exact List.mem_append_right _ hg
  · intro g hg
    rcases List.mem_append.mp hg with hg | hg
    · exact Derivable.mono_facts (fun a ha => List.mem_append_left _ ha) g ((hW g).mp hg)
    · exact Derivable.base (List.mem_append_right _ hg)

theorem Sat.mono {ev : Bindings V → E → Outcome Bool} {r : Rule V E} {S S' : List (Fact V)}
    (h : ∀ f ∈ S, f ∈ S') (σ : Bindings V) (hs : Sat ev r S σ) : Sat ev r S' σ :=
  ⟨fun p hp => (hs.body p hp).imp fun g hg => ⟨hg.1, h g hg.2⟩, hs.dom, hs.exprs⟩

/-- A round over fewer facts with fewer rules does not err if the larger round does not. -/
theorem stepAll_ok_of_subset (ev : Bindings V → E → Outcome Bool) {S S' : List (Fact V)}
    {P P' : List (Rule V E)} (hS : ∀ f ∈ S', f ∈ S) (hP : ∀ r ∈ P', r ∈ P)
    (acc acc' : List (Fact V)) (h : (stepAll ev S P acc).2 = none) :
    (stepAll ev S' P' acc').2 = none := by
  rw [stepAll_ok_iff] at h ⊢
  intro r hr σ hσ
  exact h r (hP r hr) σ (solve_mem_mono hS _ _ _ hσ)

/-- A round over more facts with more rules derives more. -/
theorem stepAll_mono (ev : Bindings V → E → Outcome Bool) (hev : EvRespects ev)
    {S S' : List (Fact V)} {P P' : List (Rule V E)} (hS : ∀ f ∈ S, f ∈ S') (hP : ∀ r ∈ P, r ∈ P')
    (new new' : List (Fact V)) (h : stepAll ev S P [] = (new, none))
    (h' : stepAll ev S' P' [] = (new', none)) : ∀ f ∈ new, f ∈ new' := by
  intro f hf
  rw [stepAll_spec ev hev S P [] new h f] at hf
  rw [stepAll_spec ev hev S' P' [] new' h' f]
  rcases hf with hf | ⟨r, hr, σ, hs, hh⟩
  · exact Or.inl hf
  · exact Or.inr ⟨r, hP r hr, σ, Sat.mono hS σ hs, hh⟩

/-- **Runs started between a set of facts and its closure.** If the run from `F` succeeds
with result `W`, then the run from any duplicate-free `F'` with `F ⊆ F' ⊆ W`, with the same
set of rules and the same limits, succeeds too: it errs nowhere (every combination it meets is
one the last round of the first run met), stays below the fact limit and needs no more rounds. -/
theorem run_between_ok (ev : Bindings V → E → Outcome Bool) (hev : EvRespects ev) (mf : Nat)
    {P P' : List (Rule V E)} (hP : ∀ r, r ∈ P ↔ r ∈ P') :
    ∀ (n : Nat) (F W F' : List (Fact V)), run ev mf P n F = (W, none) → F'.Nodup →
      (∀ f ∈ F, f ∈ F') → (∀ f ∈ F', f ∈ W) → ∃ W', run ev mf P' n F' = (W', none) := by
  intro n
  induction n with
  | zero => intro F W F' h; simp [run] at h
  | succ n ih =>
    intro F W F' h hn hsub hsup
    obtain ⟨newW, hsW, hnewW⟩ := run_fixpoint ev mf P (n + 1) F W h
    have hlt := run_ok_lt ev mf P (n + 1) F W h
    have hok : (stepAll ev F' P' []).2 = none :=
      stepAll_ok_of_subset ev hsup (fun r hr => (hP r).mpr hr) [] [] (by rw [hsW])
    have hs' := eq_pair_none _ hok
    have hnew' : ∀ f ∈ (stepAll ev F' P' []).1, f ∈ W := fun f hf =>
      hnewW f (stepAll_mono ev hev hsup (fun r hr => (hP r).mpr hr) _ _ hs' hsW f hf)
    have hsup1 : ∀ f ∈ insertAll F' (stepAll ev F' P' []).1, f ∈ W := by
      intro f hf
      rcases (mem_insertAll _ _ f).mp hf with hf | hf
      · exact hsup f hf
      · exact hnew' f hf
    have hn1 := nodup_insertAll (stepAll ev F' P' []).1 F' hn
    have hlen1 : (insertAll F' (stepAll ev F' P' []).1).length < mf :=
      Nat.lt_of_le_of_lt (hn1.length_le_of_subset hsup1) hlt
    rw [run, hs']
    simp only
    rw [if_neg (by omega)]
    by_cases hlen : (insertAll F' (stepAll ev F' P' []).1).length = F'.length
    · rw [if_pos hlen]; exact ⟨_, rfl⟩
    · rw [if_neg hlen]
      simp only [run] at h
      split at h
      · simp at h
      · next new hs =>
        split at h
        · simp at h
        · split at h
          · next heq =>
            -- the first run had already reached its closure: so has the second
            exfalso
            apply hlen
            simp only [Prod.mk.injEq, and_true] at h
            rw [insertAll_eq_of_length F new heq] at h
            subst h
            rw [insertAll_of_subset _ F' (fun f hf => hsub f (hnew' f hf))]
          · apply ih (insertAll F new) W _ h hn1
            · intro f hf
              rw [mem_insertAll] at hf ⊢
              rcases hf with hf | hf
              · exact Or.inl (hsub f hf)
              · exact Or.inr (stepAll_mono ev hev hsub (fun r hr => (hP r).mp hr) _ _ hs hs' f hf)
            · exact hsup1

/-- … and it reaches the same closure. -/
theorem run_between (ev : Bindings V → E → Outcome Bool) (hev : EvRespects ev) (mf : Nat)
    {P P' : List (Rule V E)} (hP : ∀ r, r ∈ P ↔ r ∈ P')
    (n : Nat) (F W F' : List (Fact V)) (h : run ev mf P n F = (W, none)) (hn : F'.Nodup)
    (hsub : ∀ f ∈ F, f ∈ F') (hsup : ∀ f ∈ F', f ∈ W) :
    ∃ W', run ev mf P' n F' = (W', none) ∧ W'.Nodup ∧ ∀ f, f ∈ W' ↔ f ∈ W := by
  obtain ⟨W', h'⟩ := run_between_ok ev hev mf hP n F W F' h hn hsub hsup
  refine ⟨W', h', run_nodup ev mf P' n F' W' hn h', fun f => ?_⟩
  constructor
  · intro hf
    apply run_complete ev hev mf P n F W h
    apply derivable_trans ev P F F' (fun g hg => run_sound ev hev mf P n F W h g (hsup g hg))
    exact Derivable.mono_rules (fun r hr => (hP r).mpr hr) f (run_sound ev hev mf P' n F' W' h' f hf)
  · intro hf
    apply run_complete ev hev mf P' n F' W' h'
    apply Derivable.mono_rules (fun r hr => (hP r).mp hr)
    exact Derivable.mono_facts hsub f (run_sound ev hev mf P n F W h f hf)

end Engine

/-! ### `load` is the fold of the `add*` operations -/

/-- Typing a snapshot's content in: every fact through `addFact`, every rule through
`addRule`, every check through `addCheck`, every policy through `addPolicy`. -/
def addAll (s : AuthState) (snap : Snapshot) : AuthState :=
  snap.policies.foldl addPolicy
    (snap.checks.foldl addCheck (snap.rules.foldl addRule (snap.facts.foldl addFact s)))

theorem foldl_addFact : ∀ (fs : List DFact) (s : AuthState),
    fs.foldl addFact s = { s with world := { s.world with facts := insertAll s.world.facts fs } }
  | [], _ => rfl
  | f :: fs, s => by rw [List.foldl_cons, foldl_addFact fs]; rfl

theorem foldl_addRule : ∀ (rs : List DRule) (s : AuthState),
    rs.foldl addRule s = { s with world := { s.world with rules := s.world.rules ++ rs } }
  | [], s => by simp
  | r :: rs, s => by
    rw [List.foldl_cons, foldl_addRule rs]
    simp [addRule]

theorem foldl_addCheck : ∀ (cs : List Check) (s : AuthState),
    cs.foldl addCheck s = { s with checks := s.checks ++ cs }
  | [], s => by simp
  | c :: cs, s => by
    rw [List.foldl_cons, foldl_addCheck cs]
    simp [addCheck]

theorem foldl_addPolicy : ∀ (ps : List Policy) (s : AuthState),
    ps.foldl addPolicy s = { s with policies := s.policies ++ ps }
  | [], s => by simp
  | p :: ps, s => by
    rw [List.foldl_cons, foldl_addPolicy ps]
    simp [addPolicy]

/-- `FactSet.InsertAll` is `FactSet.Insert` folded over the new facts. -/
theorem insertAll_eq_foldl {V : Type} [DecidableEq V] : ∀ (fs s : List (Fact V)),
    insertAll s fs = fs.foldl insertFact s
  | [], _ => rfl
  | f :: fs, s => by rw [insertAll, List.foldl_cons, insertAll_eq_foldl fs]

theorem load_addAll (s : AuthState) (snap : Snapshot) : load s snap = addAll s snap := by
  unfold addAll
  rw [foldl_addFact, foldl_addRule, foldl_addCheck, foldl_addPolicy]
  rfl

/-! ### Two authorizers whose authority-level runs reach the same facts -/

theorem Pointwise.refl {α : Type} {R : α → α → Prop} (h : ∀ a, R a a) : ∀ l : List α, Pointwise R l l
  | [] => Pointwise.nil
  | a :: l => Pointwise.cons (h a) (Pointwise.refl h l)

theorem SameBlock.refl (b : Block) : SameBlock b b :=
  ⟨fun _ => Iff.rfl, fun _ => Iff.rfl, Pointwise.refl (fun _ _ => Iff.rfl) _⟩

theorem DerivableP.mono_rules {cfg : EvalCfg} {P P' : List DRule} {B : DFact → Prop}
    (hP : ∀ r ∈ P, r ∈ P') : ∀ f, DerivableP cfg P B f → DerivableP cfg P' B f := by
  intro f hd
  induction hd with
  | base hf => exact DerivableP.base hf
  | rule hr hsome _ hdom hex hhead ih => exact DerivableP.rule (hP _ hr) hsome ih hdom hex hhead

/-- The authority scope grows with the authorizer's facts and rules. -/
theorem authorityScope_mono (cfg : EvalCfg) (A : Block) (s s' : AuthState)
    (hF : ∀ g ∈ s.world.facts, g ∈ s'.world.facts) (hR : ∀ r ∈ s.world.rules, r ∈ s'.world.rules)
    (f : DFact) (h : authorityScope cfg A s f) : authorityScope cfg A s' f := by
  unfold authorityScope at h ⊢
  apply DerivableP.mono_rules (P := s.world.rules ++ A.rules)
  · intro r hr
    rcases List.mem_append.mp hr with hr | hr
    · exact List.mem_append_left _ (hR r hr)
    · exact List.mem_append_right _ hr
  · exact DerivableP.mono (fun g hg => hg.imp_left (hF g)) f h

section Auth
variable (cfg : EvalCfg)

/-- The verdict is a function of the *set* of facts the authority-level run reaches (and of
the checks, the policies, the limits and the token): two authorizers with the same checks,
policies and limits whose authority-level runs both succeed with the same facts as sets give
the same verdict, provided the evaluations after the run complete for one of them. -/
theorem authorize_snd_of_same_closure (tok : Token) (s s' : AuthState) (w w' : World)
    (hw : runWorld cfg s.limits
      { facts := insertAll s.world.facts tok.authority.facts,
        rules := s.world.rules ++ tok.authority.rules } = (w, none))
    (hw' : runWorld cfg s'.limits
      { facts := insertAll s'.world.facts tok.authority.facts,
        rules := s'.world.rules ++ tok.authority.rules } = (w', none))
    (hN : w.facts.Nodup) (hN' : w'.facts.Nodup) (hmem : ∀ f, f ∈ w.facts ↔ f ∈ w'.facts)
    (hc : s.checks = s'.checks) (hp : s.policies = s'.policies) (hl : s.limits = s'.limits)
    (hqc : ∀ c ∈ s.checks ++ tok.authority.checks, ∀ q ∈ c.queries,
      (applyRule (evalBool cfg) q w.facts []).2 = none)
    (hqp : ∀ p ∈ s.policies, ∀ q ∈ p.queries, (applyRule (evalBool cfg) q w.facts []).2 = none)
    (hb : BlocksComplete cfg s.limits w.facts tok.blocks) :
    (authorize cfg tok s).2 = (authorize cfg tok s').2 := by
  rw [authorize_snd_of_run cfg tok s w hw, authorize_snd_of_run cfg tok s' w' hw', ← hl, ← hc, ← hp,
    firstPolicy_congr cfg hmem (Pointwise.refl (fun _ => ⟨rfl, fun _ => Iff.rfl⟩) _) hqp,
    failedChecks_congr cfg hmem _ (Pointwise.refl (fun _ _ => Iff.rfl) _)
      (fun c hc' => hqc c (List.mem_append_left _ hc')),
    failedChecks_congr cfg hmem _ (Pointwise.refl (fun _ _ => Iff.rfl) _)
      (fun c hc' => hqc c (List.mem_append_right _ hc')),
    blockPhase_congr cfg s.limits hN hN' hmem (Pointwise.refl SameBlock.refl _) hb]

/-- **Content decides.** `s` holds some content; `u` holds the same rules (as a set, once the
authority block's rules are joined), the same checks, policies and limits, and a set of facts
between the facts of `s` and what they entail in the authority scope — for instance because `u`
has already been evaluated. Inside the fragment for `s`, both give the same verdict; in
particular the run of `u` succeeds within the same limits. -/
theorem authorize_between (tok : Token) (s u : AuthState)
    (hf : WithinFragment cfg tok s) (hns : s.world.facts.Nodup) (hnu : u.world.facts.Nodup)
    (hR : ∀ r, r ∈ s.world.rules ++ tok.authority.rules ↔ r ∈ u.world.rules ++ tok.authority.rules)
    (hsub : ∀ g ∈ s.world.facts, g ∈ u.world.facts)
    (hsup : ∀ g ∈ u.world.facts, authorityScope cfg tok.authority s g)
    (hc : s.checks = u.checks) (hp : s.policies = u.policies) (hl : s.limits = u.limits) :
    (authorize cfg tok u).2 = (authorize cfg tok s).2 := by
  obtain ⟨w, hw⟩ := hf.authorityRun
  obtain ⟨hqc, hqp⟩ := hf.authorityQueries w hw
  have hblocks := hf.blockRuns w hw
  obtain ⟨hrun, _⟩ := runWorld_run cfg _ _ w none hw
  have hscope := authorityRun_spec cfg tok.authority s w hw
  obtain ⟨W', hrun', hN', hmem'⟩ := run_between (evalBool cfg) (evalBool_respects cfg)
    s.limits.maxFacts hR s.limits.maxIter _ w.facts
    (insertAll u.world.facts tok.authority.facts) hrun (nodup_insertAll _ _ hnu)
    (fun f hf' => by
      rw [mem_insertAll] at hf' ⊢
      exact hf'.imp_left (hsub f))
    (fun f hf' => by
      rcases (mem_insertAll _ _ f).mp hf' with h1 | h1
      · exact (hscope f).mpr (hsup f h1)
      · exact run_subset _ _ _ _ _ _ _ hrun f ((mem_insertAll _ _ f).mpr (Or.inr h1)))
  have hw' : runWorld cfg u.limits
      { facts := insertAll u.world.facts tok.authority.facts,
        rules := u.world.rules ++ tok.authority.rules } =
      ({ facts := W', rules := u.world.rules ++ tok.authority.rules }, none) := by
    rw [← hl]
    exact runWorld_of_run cfg s.limits
      { facts := insertAll u.world.facts tok.authority.facts,
        rules := u.world.rules ++ tok.authority.rules } W' none hrun'
  exact (authorize_snd_of_same_closure cfg tok s u w _ hw hw'
    (run_nodup _ _ _ _ _ _ (nodup_insertAll _ _ hns) hrun) hN' (fun f => (hmem' f).symm)
    hc hp hl hqc hqp hblocks).symm

/-- What the first `Authorize` leaves behind, when its authority-level run succeeds: the
authorizer's world holds the authority scope — its own facts, the token's authority facts and
everything they entail — and the authorizer's and the authority block's rules. -/
theorem authorize_fst_world (tok : Token) (s : AuthState) (w : World)
    (hw : runWorld cfg s.limits
      { facts := insertAll s.world.facts tok.authority.facts,
        rules := s.world.rules ++ tok.authority.rules } = (w, none)) :
    (authorize cfg tok s).1 = { s with world := w, dirty := true } ∧
    w.rules = s.world.rules ++ tok.authority.rules ∧
    (∀ g, g ∈ w.facts ↔ authorityScope cfg tok.authority s g) ∧
    (∀ g ∈ s.world.facts, g ∈ w.facts) ∧
    (s.world.facts.Nodup → w.facts.Nodup) := by
  obtain ⟨hrun, hr⟩ := runWorld_run cfg _ _ w none hw
  refine ⟨authorize_fst_of_run cfg tok s w hw, hr, authorityRun_spec cfg tok.authority s w hw, ?_, ?_⟩
  · intro g hg
    exact run_subset _ _ _ _ _ _ _ hrun g ((mem_insertAll _ _ g).mpr (Or.inl hg))
  · intro hn
    exact run_nodup _ _ _ _ _ _ (nodup_insertAll _ _ hn) hrun

/-- **A used authorizer answers as a new one holding the same content (general form).** After a
first `Authorize` whose authority-level run succeeded, load any further content `snap`
(`LoadPolicies`; `AddFact`, `AddRule`, `AddCheck`, `AddPolicy` are the one-element cases): the
verdict is the one of an authorizer that was given the earlier content and `snap` and has never
been evaluated. -/
theorem authorize_load_after_authorize (tok : Token) (s : AuthState) (snap : Snapshot) (w : World)
    (hw : runWorld cfg s.limits
      { facts := insertAll s.world.facts tok.authority.facts,
        rules := s.world.rules ++ tok.authority.rules } = (w, none))
    (hn : s.world.facts.Nodup) (hf : WithinFragment cfg tok (load s snap)) :
    (authorize cfg tok (load (authorize cfg tok s).1 snap)).2 =
      (authorize cfg tok (load s snap)).2 := by
  obtain ⟨h1, hr, hscope, hsubw, hnw⟩ := authorize_fst_world cfg tok s w hw
  rw [h1]
  apply authorize_between cfg tok (load s snap) _ hf
  · exact nodup_insertAll _ _ hn
  · exact nodup_insertAll _ _ (hnw hn)
  · intro r
    show r ∈ (s.world.rules ++ snap.rules) ++ tok.authority.rules ↔
      r ∈ (w.rules ++ snap.rules) ++ tok.authority.rules
    rw [hr]
    simp only [List.mem_append]
    constructor
    · rintro ((h | h) | h)
      · exact Or.inl (Or.inl (Or.inl h))
      · exact Or.inl (Or.inr h)
      · exact Or.inr h
    · rintro (((h | h) | h) | h)
      · exact Or.inl (Or.inl h)
      · exact Or.inr h
      · exact Or.inl (Or.inr h)
      · exact Or.inr h
  · intro g hg
    show g ∈ insertAll w.facts snap.facts
    have hg' : g ∈ insertAll s.world.facts snap.facts := hg
    rw [mem_insertAll] at hg' ⊢
    exact hg'.imp_left (hsubw g)
  · intro g hg
    have hg' : g ∈ insertAll w.facts snap.facts := hg
    rcases (mem_insertAll _ _ g).mp hg' with h | h
    · apply authorityScope_mono cfg tok.authority s (load s snap) _ _ g ((hscope g).mp h)
      · intro a ha
        exact (mem_insertAll _ _ a).mpr (Or.inl ha)
      · intro r hr'
        exact List.mem_append_left _ hr'
    · exact DerivableP.base (Or.inl ((mem_insertAll _ _ g).mpr (Or.inr h)))
  · rfl
  · rfl
  · rfl

theorem addFact_eq_load (s : AuthState) (f : DFact) :
    addFact s f = load s { facts := [f], rules := [], checks := [], policies := [] } := by
  simp [addFact, load, insertAll]

theorem addRule_eq_load (s : AuthState) (r : DRule) :
    addRule s r = load s { facts := [], rules := [r], checks := [], policies := [] } := by
  simp [addRule, load, insertAll]

theorem addCheck_eq_load (s : AuthState) (c : Check) :
    addCheck s c = load s { facts := [], rules := [], checks := [c], policies := [] } := by
  simp [addCheck, load, insertAll]

theorem addPolicy_eq_load (s : AuthState) (p : Policy) :
    addPolicy s p = load s { facts := [], rules := [], checks := [], policies := [p] } := by
  simp [addPolicy, load, insertAll]

end Auth

/-! ### A decision procedure for the fragment (for non-vacuity examples) -/

/-- All queries of a list of query lists complete over `facts`. -/
def queriesComplete (cfg : EvalCfg) (facts : List DFact) (qss : List (List DRule)) : Bool :=
  qss.all fun qs => qs.all fun q => (applyRule (evalBool cfg) q facts []).2.isNone

/-- Boolean test of `WithinFragment`. -/
def withinFragmentB (cfg : EvalCfg) (tok : Token) (s : AuthState) : Bool :=
  match runWorld cfg s.limits
      { facts := insertAll s.world.facts tok.authority.facts,
        rules := s.world.rules ++ tok.authority.rules } with
  | (_, some _) => false
  | (w, none) =>
    queriesComplete cfg w.facts ((s.checks ++ tok.authority.checks).map (·.queries)) &&
    queriesComplete cfg w.facts (s.policies.map (·.queries)) &&
    tok.blocks.all fun b =>
      match runWorld cfg s.limits { facts := insertAll w.facts b.facts, rules := b.rules } with
      | (_, some _) => false
      | (wb, none) => queriesComplete cfg wb.facts (b.checks.map (·.queries))

theorem queriesComplete_spec (cfg : EvalCfg) (facts : List DFact) (qss : List (List DRule))
    (h : queriesComplete cfg facts qss = true) :
    ∀ qs ∈ qss, ∀ q ∈ qs, (applyRule (evalBool cfg) q facts []).2 = none := by
  intro qs hqs q hq
  simp only [queriesComplete, List.all_eq_true] at h
  exact Option.isNone_iff_eq_none.mp (h qs hqs q hq)

theorem withinFragment_of_test (cfg : EvalCfg) (tok : Token) (s : AuthState)
    (h : withinFragmentB cfg tok s = true) : WithinFragment cfg tok s := by
  unfold withinFragmentB at h
  split at h
  · cases h
  · next w hw =>
    simp only [Bool.and_eq_true, List.all_eq_true] at h
    obtain ⟨⟨h1, h2⟩, h3⟩ := h
    have key : ∀ w', runWorld cfg s.limits
        { facts := insertAll s.world.facts tok.authority.facts,
          rules := s.world.rules ++ tok.authority.rules } = (w', none) → w' = w := by
      intro w' hw'
      rw [hw] at hw'
      exact (Prod.mk.inj hw').1.symm
    refine ⟨⟨w, hw⟩, ?_, ?_⟩
    · intro w' hw'
      rw [key w' hw']
      exact ⟨fun c hc q hq => queriesComplete_spec cfg _ _ h1 c.queries (List.mem_map_of_mem hc) q hq,
        fun p hp q hq => queriesComplete_spec cfg _ _ h2 p.queries (List.mem_map_of_mem hp) q hq⟩
    · intro w' hw' b hb
      rw [key w' hw']
      have hb' := h3 b hb
      split at hb'
      · cases hb'
      · next wb hwb =>
        exact ⟨wb, hwb, fun c hc q hq =>
          queriesComplete_spec cfg _ _ hb' c.queries (List.mem_map_of_mem hc) q hq⟩

end Biscuit
