/-
Proofs/PrintDates — the literal writers of `Model/Printer` against the literal readers of
`Model/Grammar`: integers, byte strings, dates.

* integers: `natDigits n` (Lean's `toString`) is a non-empty digit string that `natOfDigits`
  reads back as `n`; a negative integer prints as `-` and the digits of its absolute value
  (`printInt_negSucc`);
* bytes: `printHex b` is an even number of hex digits that `bytesOfHex` reads back as `b`;
* dates: `civilFromDays` (Hinnant's `civil_from_days`) and `daysFromCivil` are inverse on all
  days from 1970-01-01 on (`civilFromDays_spec`: month and day in range, the year below 10000
  for days before 10000-01-01), hence for every instant before the year 10000 the printed
  RFC 3339 text is accepted COMPLETELY by the Date rule of the lexer and `unixOfDate` reads it
  back as the same instant (`printDate_roundtrip`).

The year-of-era formula `(doe - doe/1460 + doe/36524 - doe/146096) / 365` is proved correct by
monotonicity plus a table of the 400 years of an era (`yoe_table`, kernel evaluation of 400
cases); everything else is linear arithmetic (`omega`).
-/
import BiscuitModel.Model.Printer

namespace Biscuit.PrintDates
open Biscuit Biscuit.Grammar Biscuit.Printer

/-! ## Integers -/

theorem isDigit_of_charIsDigit (c : Char) (h : c.isDigit = true) : isDigit c = true := by
  simp only [Char.isDigit, Bool.and_eq_true, decide_eq_true_eq] at h
  simp only [isDigit, Bool.and_eq_true, decide_eq_true_eq, Char.le_def]
  exact h

theorem natOfDigits_eq (ds : List Char) : natOfDigits ds = Nat.ofDigitChars 10 ds 0 := by
  unfold natOfDigits Nat.ofDigitChars
  congr 1
  funext acc c
  simp only [digitVal]
  omega

theorem natDigits_eq (n : Nat) : natDigits n = Nat.toDigits 10 n := by
  simp [natDigits]

theorem natDigits_ne_nil (n : Nat) : natDigits n ≠ [] := by
  rw [natDigits_eq]; exact Nat.toDigits_ne_nil

theorem natDigits_all (n : Nat) : (natDigits n).all isDigit = true := by
  rw [natDigits_eq, List.all_eq_true]
  intro c hc
  exact isDigit_of_charIsDigit c (Nat.isDigit_of_mem_toDigits (by decide) (by decide) hc)

theorem natOfDigits_natDigits (n : Nat) : natOfDigits (natDigits n) = n := by
  rw [natDigits_eq, natOfDigits_eq]; exact Nat.ofDigitChars_ten_toDigits

theorem printInt_ofNat (n : Nat) : printInt (n : Int) = natDigits n := rfl

/-- A negative integer prints as `-` directly followed by the digits of its absolute value. -/
theorem printInt_negSucc (m : Nat) : printInt (Int.negSucc m) = '-' :: natDigits (m + 1) := by
  show ("-" ++ toString (m + 1)).toList = _
  rw [String.toList_append]; rfl

/-! ### Bytes -/

theorem hexChar_spec : ∀ k < 16, isHexDigit (hexChar k) = true ∧ hexNibble (hexChar k) = k := by decide

theorem printHex_all (b : Bytes) : (printHex b).all isHexDigit = true := by
  induction b with
  | nil => rfl
  | cons x xs ih =>
    have h1 := (hexChar_spec (x.toNat / 16) (by have := x.toNat_lt; omega)).1
    have h2 := (hexChar_spec (x.toNat % 16) (by omega)).1
    simp only [printHex, List.flatMap_cons, List.all_append, List.all_cons, List.all_nil, h1, h2,
      Bool.and_true, Bool.true_and] at ih ⊢
    exact ih

theorem printHex_length (b : Bytes) : (printHex b).length = 2 * b.length := by
  induction b with
  | nil => rfl
  | cons x xs ih =>
    simp only [printHex, List.flatMap_cons, List.length_append, List.length_cons, List.length_nil] at ih ⊢
    omega

theorem bytesOfHex_printHex (b : Bytes) : bytesOfHex (printHex b) = b := by
  induction b with
  | nil => rfl
  | cons x xs ih =>
    have h1 := (hexChar_spec (x.toNat / 16) (by have := x.toNat_lt; omega)).2
    have h2 := (hexChar_spec (x.toNat % 16) (by omega)).2
    have : printHex (x :: xs) = hexChar (x.toNat / 16) :: hexChar (x.toNat % 16) :: printHex xs := by
      simp [printHex]
    rw [this, bytesOfHex, ih, h1, h2]
    congr 1
    have : x.toNat / 16 * 16 + x.toNat % 16 = x.toNat := by omega
    rw [this]
    exact UInt8.ofNat_toNat


/-! ## Dates -/

def Nf (x : Nat) : Nat := x - x / 1460 + x / 36524 - x / 146096
def yoeOf (doe : Nat) : Nat := Nf doe / 365
def S (y : Nat) : Nat := 365 * y + y / 4 - y / 100 + y / 400

theorem Nf_mono (a b : Nat) (h : a ≤ b) (hb : b < 146097) : Nf a ≤ Nf b := by
  unfold Nf; omega

theorem yoeOf_mono (a b : Nat) (h : a ≤ b) (hb : b < 146097) : yoeOf a ≤ yoeOf b :=
  Nat.div_le_div_right (Nf_mono a b h hb)

theorem yoe_table : ∀ y < 400, yoeOf (S y) = y ∧ yoeOf (S (y + 1) - 1) = y ∧ S y < S (y + 1) ∧ S (y+1) ≤ 146097 := by decide +kernel

theorem yoe_spec (doe : Nat) (h : doe < 146097) :
    yoeOf doe ≤ 399 ∧ S (yoeOf doe) ≤ doe ∧ doe < S (yoeOf doe + 1) := by
  have h1 : yoeOf doe ≤ 399 := by unfold yoeOf Nf; omega
  refine ⟨h1, ?_, ?_⟩
  · apply Classical.byContradiction
    intro hc
    have hlt : doe < S (yoeOf doe) := by omega
    have hpos : yoeOf doe ≠ 0 := by
      intro h0; rw [h0] at hlt; simp [S] at hlt
    obtain ⟨y, hy⟩ : ∃ y, yoeOf doe = y + 1 := ⟨yoeOf doe - 1, by omega⟩
    have ht := yoe_table y (by omega)
    rw [hy] at hlt
    have := yoeOf_mono doe (S (y + 1) - 1) (by omega) (by omega)
    omega
  · apply Classical.byContradiction
    intro hc
    have hge : S (yoeOf doe + 1) ≤ doe := by omega
    have hy : yoeOf doe + 1 < 400 := by
      apply Classical.byContradiction
      intro h4
      have : yoeOf doe = 399 := by omega
      rw [this] at hge
      have : S (399 + 1) = 146097 := by decide
      omega
    have ht := yoe_table (yoeOf doe + 1) hy
    have := yoeOf_mono (S (yoeOf doe + 1)) doe hge h
    omega


/-- The civil date of day `doe` of era `era` (the body of `civilFromDays`). -/
def civilOf (era doe : Nat) : Nat × Nat × Nat :=
  let yoe := yoeOf doe
  let y := yoe + era * 400
  let doy := doe - (365 * yoe + yoe / 4 - yoe / 100)
  let mp := (5 * doy + 2) / 153
  let d := doy - (153 * mp + 2) / 5 + 1
  let m := if mp < 10 then mp + 3 else mp - 9
  (if m ≤ 2 then y + 1 else y, m, d)

theorem civilFromDays_eq (z : Nat) :
    civilFromDays z = civilOf ((z + 719468) / 146097) ((z + 719468) % 146097) := by
  have : z + 719468 - (z + 719468) / 146097 * 146097 = (z + 719468) % 146097 := by omega
  have e : civilFromDays z =
      civilOf ((z + 719468) / 146097) (z + 719468 - (z + 719468) / 146097 * 146097) := rfl
  rw [e, this]

/-- Month and day from the day of the (March-based) year and the month index `mp`. -/
def mdOfMp (doy mp : Nat) : Nat × Nat :=
  (if mp < 10 then mp + 3 else mp - 9, doy - (153 * mp + 2) / 5 + 1)

def mdOf (doy : Nat) : Nat × Nat := mdOfMp doy ((5 * doy + 2) / 153)

theorem civilOf_eq (era doe : Nat) :
    civilOf era doe =
      (if (mdOf (doe - (365 * yoeOf doe + yoeOf doe / 4 - yoeOf doe / 100))).1 ≤ 2
        then yoeOf doe + era * 400 + 1 else yoeOf doe + era * 400,
       (mdOf (doe - (365 * yoeOf doe + yoeOf doe / 4 - yoeOf doe / 100))).1,
       (mdOf (doe - (365 * yoeOf doe + yoeOf doe / 4 - yoeOf doe / 100))).2) := rfl

/-- Month and day are in range; `hl` says that the March-based year has a 29 February. -/
theorem mdOfMp_range (y0 doy mp : Nat) (hd : doy ≤ 365) (hmp : (5 * doy + 2) / 153 = mp)
    (hl : doy = 365 → ((y0 + 1) % 4 = 0 ∧ (y0 + 1) % 100 ≠ 0) ∨ (y0 + 1) % 400 = 0) :
    1 ≤ (mdOfMp doy mp).1 ∧ (mdOfMp doy mp).1 ≤ 12 ∧ 1 ≤ (mdOfMp doy mp).2 ∧
    (mdOfMp doy mp).2 ≤ daysInMonth (if (mdOfMp doy mp).1 ≤ 2 then y0 + 1 else y0) (mdOfMp doy mp).1 := by
  have hcases : mp = 0 ∨ mp = 1 ∨ mp = 2 ∨ mp = 3 ∨ mp = 4 ∨ mp = 5 ∨ mp = 6 ∨ mp = 7 ∨ mp = 8 ∨
      mp = 9 ∨ mp = 10 ∨ mp = 11 := by omega
  rcases hcases with h | h | h | h | h | h | h | h | h | h | h | h <;> subst h
  case inr.inr.inr.inr.inr.inr.inr.inr.inr.inr.inr =>
    simp [mdOfMp, daysInMonth, isLeap]
    split <;> omega
  all_goals
    simp [mdOfMp, daysInMonth]
    omega

theorem daysFromCivil_mdOfMp (y0 doy mp : Nat) (hd : doy ≤ 365) (hmp : (5 * doy + 2) / 153 = mp) :
    daysFromCivil (if (mdOfMp doy mp).1 ≤ 2 then y0 + 1 else y0) (mdOfMp doy mp).1 (mdOfMp doy mp).2 =
      ((y0 / 400 * 146097 + (365 * (y0 % 400) + y0 % 400 / 4 - y0 % 400 / 100 + doy) : Nat) : Int) - 719468 := by
  have hmp11 : mp ≤ 11 := by omega
  have hs : (153 * mp + 2) / 5 ≤ doy := by omega
  by_cases hlt : mp < 10
  · have hm : ¬ (mp + 3 ≤ 2) := by omega
    simp only [mdOfMp, hlt, if_true, hm, if_false, daysFromCivil]
    have hnn : ((y0 : Nat) : Int) ≥ 0 := by omega
    have k1 : (((mp + 3 : Nat) : Int) + 9) % 12 = (mp : Int) := by omega
    have k2 : ((y0 : Int) - (y0 : Int) / 400 * 400) = ((y0 % 400 : Nat) : Int) := by omega
    have k3 : ((y0 : Int) / 400) = ((y0 / 400 : Nat) : Int) := by omega
    have k2' : ((y0 : Int) - ((y0 / 400 : Nat) : Int) * 400) = ((y0 % 400 : Nat) : Int) := by omega
    simp only [hnn, if_true, k3]
    simp only [k2', k1]
    generalize y0 % 400 = r
    generalize y0 / 400 = q
    omega
  · have hm : mp - 9 ≤ 2 := by omega
    simp only [mdOfMp, hlt, if_false, hm, if_true, daysFromCivil]
    have hnn : (((y0 + 1 : Nat) : Int) - 1) ≥ 0 := by omega
    have k0 : (((y0 + 1 : Nat) : Int) - 1) = (y0 : Int) := by omega
    have k1 : (((mp - 9 : Nat) : Int) + 9) % 12 = (mp : Int) := by omega
    have k2 : ((y0 : Int) - (y0 : Int) / 400 * 400) = ((y0 % 400 : Nat) : Int) := by omega
    have k3 : ((y0 : Int) / 400) = ((y0 / 400 : Nat) : Int) := by omega
    have hnn' : ((y0 : Nat) : Int) ≥ 0 := by omega
    have k2' : ((y0 : Int) - ((y0 / 400 : Nat) : Int) * 400) = ((y0 % 400 : Nat) : Int) := by omega
    simp only [k0, hnn', if_true, k3]
    simp only [k2', k1]
    generalize y0 % 400 = r
    generalize y0 / 400 = q
    omega

theorem civilFromDays_spec (z : Nat) :
    1 ≤ (civilFromDays z).2.1 ∧ (civilFromDays z).2.1 ≤ 12 ∧ 1 ≤ (civilFromDays z).2.2 ∧
    (civilFromDays z).2.2 ≤ daysInMonth (civilFromDays z).1 (civilFromDays z).2.1 ∧
    daysFromCivil (civilFromDays z).1 (civilFromDays z).2.1 (civilFromDays z).2.2 = (z : Int) ∧
    (z < 2932897 → (civilFromDays z).1 < 10000) := by
  rw [civilFromDays_eq, civilOf_eq]
  generalize hera : (z + 719468) / 146097 = era
  generalize hdoe : (z + 719468) % 146097 = doe
  have hdoe' : doe < 146097 := by omega
  have hz : z + 719468 = era * 146097 + doe := by omega
  obtain ⟨h1, h2, h3⟩ := yoe_spec doe hdoe'
  generalize yoeOf doe = yoe at h1 h2 h3
  simp only [S] at h2 h3
  have hq : yoe / 400 = 0 := by omega
  generalize hdoy : doe - (365 * yoe + yoe / 4 - yoe / 100) = doy
  have hdoy' : doe = 365 * yoe + yoe / 4 - yoe / 100 + doy := by omega
  have f1 : (yoe + 1) / 4 ≤ yoe / 4 + 1 := by omega
  have f2 : yoe / 100 ≤ (yoe + 1) / 100 := by omega
  have f4 : yoe / 100 ≤ yoe / 4 := by omega
  have f5 : (yoe + 1) / 100 ≤ (yoe + 1) / 4 := by omega
  have hdoy365 : doy ≤ 365 := by
    rcases (by omega : yoe = 399 ∨ yoe < 399) with h | h
    · subst h; omega
    · have f3 : (yoe + 1) / 400 = 0 := by omega
      omega
  have hleap : doy = 365 → ((yoe + era * 400 + 1) % 4 = 0 ∧ (yoe + era * 400 + 1) % 100 ≠ 0) ∨
      (yoe + era * 400 + 1) % 400 = 0 := by
    intro h365
    have m4 : (yoe + era * 400 + 1) % 4 = (yoe + 1) % 4 := by omega
    have m100 : (yoe + era * 400 + 1) % 100 = (yoe + 1) % 100 := by omega
    have m400 : (yoe + era * 400 + 1) % 400 = (yoe + 1) % 400 := by omega
    rw [m4, m100, m400]
    have g1 : (yoe + 1) % 4 ≠ 0 → (yoe + 1) / 4 = yoe / 4 := by omega
    have g2 : (yoe + 1) % 100 = 0 → (yoe + 1) / 100 = yoe / 100 + 1 := by omega
    have g3 : (yoe + 1) % 400 ≠ 0 → (yoe + 1) / 400 = 0 := by omega
    omega
  have r := mdOfMp_range (yoe + era * 400) doy _ hdoy365 rfl hleap
  have e := daysFromCivil_mdOfMp (yoe + era * 400) doy _ hdoy365 rfl
  have q1 : (yoe + era * 400) / 400 = era := by omega
  have q2 : (yoe + era * 400) % 400 = yoe := by omega
  rw [q1, q2, ← hdoy', ← hz] at e
  refine ⟨r.1, r.2.1, r.2.2.1, r.2.2.2, ?_, ?_⟩
  · rw [mdOf, e]; omega
  · intro hz'
    have hera24 : era ≤ 24 := by omega
    unfold mdOf mdOfMp
    simp only []
    split <;> split <;> omega


theorem isDigit_digitChar (k : Nat) (h : k < 10) : isDigit (Nat.digitChar k) = true :=
  isDigit_of_charIsDigit _ (by simp [h])

theorem digitVal_digitChar (k : Nat) (h : k < 10) : digitVal (Nat.digitChar k) = k := by
  unfold digitVal
  exact Nat.toNat_digitChar_sub_48_of_lt_ten h

theorem natDigits_1 (n : Nat) (h : n < 10) : natDigits n = [Nat.digitChar n] := by
  rw [natDigits_eq, Nat.toDigits_of_lt_base h]

theorem natDigits_step (n : Nat) (h : 10 ≤ n) : natDigits n = natDigits (n / 10) ++ [Nat.digitChar (n % 10)] := by
  rw [natDigits_eq, natDigits_eq, Nat.toDigits_of_base_le (by decide) h]

theorem pad2_eq (n : Nat) (h : n < 100) : pad2 n = [Nat.digitChar (n / 10), Nat.digitChar (n % 10)] := by
  unfold pad2
  split
  · rename_i h10
    rw [natDigits_1 n h10]
    have : n / 10 = 0 := by omega
    have : n % 10 = n := by omega
    simp [*]
  · rw [natDigits_step n (by omega), natDigits_1 (n / 10) (by omega)]
    rfl

theorem pad4_eq (n : Nat) (h : n < 10000) :
    pad4 n = [Nat.digitChar (n / 1000), Nat.digitChar (n / 100 % 10), Nat.digitChar (n / 10 % 10),
      Nat.digitChar (n % 10)] := by
  unfold pad4
  split
  · rename_i h10
    rw [natDigits_1 n h10]
    have : n / 1000 = 0 := by omega
    have : n / 100 % 10 = 0 := by omega
    have : n / 10 % 10 = 0 := by omega
    have : n % 10 = n := by omega
    simp [*]
  · split
    · rw [natDigits_step n (by omega), natDigits_1 (n / 10) (by omega)]
      have : n / 1000 = 0 := by omega
      have : n / 100 % 10 = 0 := by omega
      have : n / 10 % 10 = n / 10 := by omega
      simp [*]
    · split
      · rw [natDigits_step n (by omega), natDigits_step (n / 10) (by omega),
          natDigits_1 (n / 10 / 10) (by omega)]
        have : n / 1000 = 0 := by omega
        have : n / 100 % 10 = n / 10 / 10 := by omega
        simp [*]
      · rw [natDigits_step n (by omega), natDigits_step (n / 10) (by omega),
          natDigits_step (n / 10 / 10) (by omega), natDigits_1 (n / 10 / 10 / 10) (by omega)]
        have : n / 1000 = n / 10 / 10 / 10 := by omega
        have : n / 100 % 10 = n / 10 / 10 % 10 := by omega
        simp [*]

theorem lexDate_digits (a1 a2 a3 a4 a5 a6 a7 a8 a9 a10 a11 a12 a13 a14 : Char)
    (h1 : isDigit a1 = true) (h2 : isDigit a2 = true) (h3 : isDigit a3 = true) (h4 : isDigit a4 = true)
    (h5 : isDigit a5 = true) (h6 : isDigit a6 = true) (h7 : isDigit a7 = true) (h8 : isDigit a8 = true)
    (h9 : isDigit a9 = true) (h10 : isDigit a10 = true) (h11 : isDigit a11 = true) (h12 : isDigit a12 = true)
    (h13 : isDigit a13 = true) (h14 : isDigit a14 = true) :
    lexDate [a1, a2, a3, a4, '-', a5, a6, '-', a7, a8, 'T', a9, a10, ':', a11, a12, ':', a13, a14, 'Z'] =
      some ([a1, a2, a3, a4, '-', a5, a6, '-', a7, a8, 'T', a9, a10, ':', a11, a12, ':', a13, a14, 'Z'], []) := by
  simp [lexDate, takeDigits, stripLit, *]

theorem unixOfDate_digits (a1 a2 a3 a4 a5 a6 a7 a8 a9 a10 a11 a12 a13 a14 : Char) :
    unixOfDate [a1, a2, a3, a4, '-', a5, a6, '-', a7, a8, 'T', a9, a10, ':', a11, a12, ':', a13, a14, 'Z'] =
      (if natOfDigits [a5, a6] < 1 || natOfDigits [a5, a6] > 12 || natOfDigits [a7, a8] < 1 ||
          natOfDigits [a7, a8] > daysInMonth (natOfDigits [a1, a2, a3, a4]) (natOfDigits [a5, a6]) ||
          natOfDigits [a9, a10] > 23 || natOfDigits [a11, a12] > 59 || natOfDigits [a13, a14] > 59 then none
       else some (daysFromCivil (natOfDigits [a1, a2, a3, a4]) (natOfDigits [a5, a6]) (natOfDigits [a7, a8]) * 86400 +
         ((natOfDigits [a9, a10] * 3600 + natOfDigits [a11, a12] * 60 + natOfDigits [a13, a14] : Nat) : Int) - 0)) := by
  simp [unixOfDate]


theorem natOfDigits_2 (a b : Nat) (ha : a < 10) (hb : b < 10) :
    natOfDigits [Nat.digitChar a, Nat.digitChar b] = a * 10 + b := by
  simp [natOfDigits, digitVal_digitChar, ha, hb]

theorem natOfDigits_4 (a b c d : Nat) (ha : a < 10) (hb : b < 10) (hc : c < 10) (hd : d < 10) :
    natOfDigits [Nat.digitChar a, Nat.digitChar b, Nat.digitChar c, Nat.digitChar d] =
      ((a * 10 + b) * 10 + c) * 10 + d := by
  simp [natOfDigits, digitVal_digitChar, ha, hb, hc, hd]

theorem printDate_eq (secs y m d : Nat) (hc : civilFromDays (secs / 86400) = (y, m, d)) :
    printDate secs = pad4 y ++ ['-'] ++ pad2 m ++ ['-'] ++ pad2 d ++ ['T'] ++ pad2 (secs % 86400 / 3600) ++ [':'] ++
      pad2 (secs % 86400 % 3600 / 60) ++ [':'] ++ pad2 (secs % 86400 % 60) ++ ['Z'] := by
  simp only [printDate, hc]

/-- **Dates**: for every instant before the year 10000 the printed date is accepted completely by
the Date rule of the lexer and denotes the same instant. -/
theorem printDate_roundtrip (secs : Nat) (h : secs < 253402300800) :
    lexDate (printDate secs) = some (printDate secs, []) ∧ unixOfDate (printDate secs) = some (secs : Int) := by
  obtain ⟨s1, s2, s3, s4, s5, s6⟩ := civilFromDays_spec (secs / 86400)
  have hy := s6 (by omega)
  rcases hc : civilFromDays (secs / 86400) with ⟨y, m, d⟩
  rw [hc] at s1 s2 s3 s4 s5 hy
  simp only at s1 s2 s3 s4 s5 hy
  have hd31 : d ≤ 31 := by
    have : daysInMonth y m ≤ 31 := by
      unfold daysInMonth; split <;> first | omega | (split <;> omega)
    omega
  rw [printDate_eq secs y m d hc, pad4_eq y hy, pad2_eq m (by omega), pad2_eq d (by omega),
    pad2_eq (secs % 86400 / 3600) (by omega), pad2_eq (secs % 86400 % 3600 / 60) (by omega),
    pad2_eq (secs % 86400 % 60) (by omega)]
  simp only [List.cons_append, List.nil_append]
  constructor
  · apply lexDate_digits <;> apply isDigit_digitChar <;> omega
  · rw [unixOfDate_digits]
    rw [natOfDigits_4 _ _ _ _ (by omega) (by omega) (by omega) (by omega),
      natOfDigits_2 (m / 10) _ (by omega) (by omega), natOfDigits_2 (d / 10) _ (by omega) (by omega),
      natOfDigits_2 (secs % 86400 / 3600 / 10) _ (by omega) (by omega),
      natOfDigits_2 (secs % 86400 % 3600 / 60 / 10) _ (by omega) (by omega),
      natOfDigits_2 (secs % 86400 % 60 / 10) _ (by omega) (by omega)]
    have e1 : ((y / 1000 * 10 + y / 100 % 10) * 10 + y / 10 % 10) * 10 + y % 10 = y := by omega
    have e2 : m / 10 * 10 + m % 10 = m := by omega
    have e3 : d / 10 * 10 + d % 10 = d := by omega
    have e4 : secs % 86400 / 3600 / 10 * 10 + secs % 86400 / 3600 % 10 = secs % 86400 / 3600 := by omega
    have e5 : secs % 86400 % 3600 / 60 / 10 * 10 + secs % 86400 % 3600 / 60 % 10 = secs % 86400 % 3600 / 60 := by omega
    have e6 : secs % 86400 % 60 / 10 * 10 + secs % 86400 % 60 % 10 = secs % 86400 % 60 := by omega
    rw [e1, e2, e3, e4, e5, e6, s5]
    have c1 : ¬ (m < 1) := by omega
    have c2 : ¬ (m > 12) := by omega
    have c3 : ¬ (d < 1) := by omega
    have c4 : ¬ (d > daysInMonth y m) := by omega
    have c5 : ¬ (secs % 86400 / 3600 > 23) := by omega
    have c6 : ¬ (secs % 86400 % 3600 / 60 > 59) := by omega
    have c7 : ¬ (secs % 86400 % 60 > 59) := by omega
    simp only [c1, c2, c3, c4, c5, c6, c7, decide_false, Bool.or_false, Bool.false_eq_true, if_false]
    congr 1
    omega

end Biscuit.PrintDates
