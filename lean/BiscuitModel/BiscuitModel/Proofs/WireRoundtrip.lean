/-
Proofs/WireRoundtrip — protobuf wire round trips (C07 §1-2, C18 wire level).
-/
import BiscuitModel.Model.Symbols
import BiscuitModel.Spec.WireWF

namespace Biscuit
open Wire

theorem wire_encodeVarint_eq (n : Nat) : encodeVarint n = if n < 128 then [UInt8.ofNat n] else UInt8.ofNat (n % 128 + 128) :: encodeVarint (n / 128) := by
  rw [encodeVarint]; split <;> simp_all

theorem wire_toNat_ofNat (m : Nat) (h : m < 256) : (UInt8.ofNat m).toNat = m := by
  rw [UInt8.toNat_ofNat']; omega

theorem wire_decodeVarintAux_encode : ∀ (k n : Nat) (rest : Bytes), n < 2^(7*(k+1)) →
    decodeVarintAux (k+1) (encodeVarint n ++ rest) = some (n, rest) := by
  intro k
  induction k with
  | zero =>
    intro n rest h
    have h' : n < 128 := by simpa using h
    rw [wire_encodeVarint_eq, if_pos h']
    simp only [List.cons_append, List.nil_append, decodeVarintAux, wire_toNat_ofNat n (by omega), if_pos h']
  | succ k ih =>
    intro n rest h
    rw [wire_encodeVarint_eq]
    by_cases h' : n < 128
    · rw [if_pos h']
      simp only [List.cons_append, List.nil_append, decodeVarintAux, wire_toNat_ofNat n (by omega), if_pos h']
    · rw [if_neg h']
      have h2 : n / 128 < 2^(7*(k+1)) := by
        rw [Nat.div_lt_iff_lt_mul (by decide)]
        have : 2^(7*(k+1+1)) = 2^(7*(k+1)) * 128 := by
          rw [show 7*(k+1+1) = 7*(k+1) + 7 by omega, Nat.pow_add]
        omega
      have h3 : ¬ (n % 128 + 128 < 128) := by omega
      simp only [List.cons_append, decodeVarintAux, wire_toNat_ofNat (n % 128 + 128) (by omega), if_neg h3, ih _ rest h2]
      congr 2; omega

theorem wire_decodeVarint_encode (n : Nat) (h : n < 2^64) (rest : Bytes) :
    decodeVarint (encodeVarint n ++ rest) = some (n, rest) := by
  unfold decodeVarint
  apply wire_decodeVarintAux_encode 9
  exact Nat.lt_trans h (by decide)

theorem wire_encodeVarint_length_pos (n : Nat) : 0 < (encodeVarint n).length := by
  rw [wire_encodeVarint_eq]; split <;> simp


/-! ## Field lists -/

theorem wire_encodeFields_cons (f : Field) (fs : List Field) :
    encodeFields (f :: fs) = encodeField f ++ encodeFields fs := by
  simp [encodeFields]

theorem wire_encodeFields_nil : encodeFields [] = [] := rfl

theorem wire_encodeFields_append (fs gs : List Field) :
    encodeFields (fs ++ gs) = encodeFields fs ++ encodeFields gs := by
  simp [encodeFields]

theorem wire_encodeField_length_pos (f : Field) : 0 < (encodeField f).length := by
  have h1 := wire_encodeVarint_length_pos (f.num * 8)
  have h2 := wire_encodeVarint_length_pos (f.num * 8 + 2)
  unfold encodeField
  split <;> simp only [List.length_append] <;> omega

theorem wire_decodeFieldsAux_succ (fuel : Nat) (bs : Bytes) (h : bs ≠ []) :
    decodeFieldsAux (fuel + 1) bs =
      match decodeVarint bs with
      | none => none
      | some (tag, rest) =>
        if tag % 8 = 0 then
          match decodeVarint rest with
          | none => none
          | some (n, rest') =>
            match decodeFieldsAux fuel rest' with
            | none => none
            | some fs => some ({ num := tag / 8, val := .varint (n % 2^64) } :: fs)
        else if tag % 8 = 2 then
          match decodeVarint rest with
          | none => none
          | some (len, rest') =>
            if len ≤ rest'.length then
              match decodeFieldsAux fuel (rest'.drop len) with
              | none => none
              | some fs => some ({ num := tag / 8, val := .bytes (rest'.take len) } :: fs)
            else none
        else none := by
  cases bs with
  | nil => exact absurd rfl h
  | cons b bs =>
    rw [decodeFieldsAux]
    · rfl
    · simp

theorem wire_decodeFieldsAux_encode : ∀ (fs : List Field) (fuel : Nat), (∀ f ∈ fs, FieldWF f) →
    (encodeFields fs).length ≤ fuel → decodeFieldsAux fuel (encodeFields fs) = some fs := by
  intro fs
  induction fs with
  | nil => intro fuel _ _; cases fuel <;> simp [wire_encodeFields_nil, decodeFieldsAux]
  | cons f fs ih =>
    intro fuel hwf hlen
    rw [wire_encodeFields_cons] at hlen ⊢
    have hpos := wire_encodeField_length_pos f
    rw [List.length_append] at hlen
    obtain ⟨fuel, rfl⟩ : ∃ k, fuel = k + 1 := ⟨fuel - 1, by omega⟩
    have hf := hwf f (List.mem_cons_self)
    have ih' := ih fuel (fun g hg => hwf g (List.mem_cons_of_mem _ hg)) (by omega)
    obtain ⟨num, val⟩ := f
    obtain ⟨hn0, hn1, hv⟩ := hf
    simp only at hn0 hn1 hv
    cases val with
    | varint n =>
      simp only at hv
      simp only [encodeField, List.append_assoc]
      have hne : encodeVarint (num * 8) ++ (encodeVarint n ++ encodeFields fs) ≠ [] := by
        have := wire_encodeVarint_length_pos (num * 8)
        intro h; have h' := congrArg List.length h
        simp only [List.length_append, List.length_nil] at h'; omega
      rw [wire_decodeFieldsAux_succ _ _ hne, wire_decodeVarint_encode _ (by omega)]
      simp only [Nat.mul_mod_left, if_pos]
      rw [wire_decodeVarint_encode _ hv]
      simp only [ih', Nat.mod_eq_of_lt hv, Nat.mul_div_cancel _ (show 0 < 8 by decide)]
    | bytes b =>
      simp only at hv
      simp only [encodeField, List.append_assoc]
      have hne : encodeVarint (num * 8 + 2) ++ (encodeVarint b.length ++ (b ++ encodeFields fs)) ≠ [] := by
        have := wire_encodeVarint_length_pos (num * 8 + 2)
        intro h; have h' := congrArg List.length h
        simp only [List.length_append, List.length_nil] at h'; omega
      rw [wire_decodeFieldsAux_succ _ _ hne, wire_decodeVarint_encode _ (by omega)]
      have e1 : (num * 8 + 2) % 8 = 2 := by omega
      have e2 : (num * 8 + 2) / 8 = num := by omega
      simp only [e1, e2, if_pos, if_neg (show ¬ (2 = 0) by decide)]
      rw [wire_decodeVarint_encode _ hv]
      simp only [List.length_append, Nat.le_add_right, if_pos, List.drop_left, List.take_left, ih']

theorem wire_decodeFields_encode (fs : List Field) (h : ∀ f ∈ fs, FieldWF f) :
    decodeFields (encodeFields fs) = some fs :=
  wire_decodeFieldsAux_encode fs _ h (Nat.le_refl _)

/-! ### Lengths of nested encodings -/

theorem wire_encodeField_le_of_mem {f : Field} {fs : List Field} (h : f ∈ fs) :
    (encodeField f).length ≤ (encodeFields fs).length := by
  induction fs with
  | nil => cases h
  | cons g gs ih =>
    rw [wire_encodeFields_cons, List.length_append]
    rcases List.mem_cons.mp h with rfl | h
    · omega
    · have := ih h; omega

theorem wire_bytes_le_of_mem {k : Nat} {b : Bytes} {fs : List Field} (h : bField k b ∈ fs) :
    b.length ≤ (encodeFields fs).length := by
  have := wire_encodeField_le_of_mem h
  simp only [bField, encodeField, List.length_append] at this
  omega

/-- Field-list well-formedness from "shape" facts and a bound on the total length. -/
def WireFieldShape (f : Field) : Prop :=
  0 < f.num ∧ f.num < 2^29 ∧ match f.val with | .varint n => n < 2^64 | .bytes _ => True

theorem wire_fieldWF_of_shape {fs : List Field} (hl : (encodeFields fs).length < 2^64)
    (hs : ∀ f ∈ fs, WireFieldShape f) : ∀ f ∈ fs, FieldWF f := by
  intro f hf
  obtain ⟨h0, h1, h2⟩ := hs f hf
  refine ⟨h0, h1, ?_⟩
  obtain ⟨num, val⟩ := f
  cases val with
  | varint n => exact h2
  | bytes b =>
    have := wire_bytes_le_of_mem (k := num) (b := b) (fs := fs) hf
    simp only; omega

theorem wire_shape_bField (k : Nat) (b : Bytes) (h0 : 0 < k) (h1 : k < 2^29) : WireFieldShape (bField k b) :=
  ⟨h0, h1, trivial⟩

theorem wire_shape_vField (k n : Nat) (h0 : 0 < k) (h1 : k < 2^29) (hn : n < 2^64) : WireFieldShape (vField k n) :=
  ⟨h0, h1, hn⟩

/-! ### Accessors -/

theorem wire_allBytes_append (k : Nat) (fs gs : List Field) :
    allBytes k (fs ++ gs) = allBytes k fs ++ allBytes k gs := by
  simp [allBytes]

theorem wire_allBytes_nil (k : Nat) : allBytes k [] = [] := rfl

theorem wire_allBytes_cons_b (k j : Nat) (b : Bytes) (fs : List Field) :
    allBytes k (bField j b :: fs) = if j = k then b :: allBytes k fs else allBytes k fs := by
  simp only [allBytes, bField, List.filterMap_cons]
  split <;> simp_all

theorem wire_allBytes_cons_v (k j n : Nat) (fs : List Field) :
    allBytes k (vField j n :: fs) = allBytes k fs := by
  simp only [allBytes, vField, List.filterMap_cons]
  split <;> simp_all

theorem wire_allBytes_map_same {α} (k : Nat) (g : α → Bytes) (l : List α) :
    allBytes k (l.map fun x => bField k (g x)) = l.map g := by
  induction l with
  | nil => rfl
  | cons x l ih => simp only [List.map_cons, wire_allBytes_cons_b, if_pos, ih]

theorem wire_allBytes_map_other {α} (k j : Nat) (hjk : j ≠ k) (g : α → Bytes) (l : List α) :
    allBytes k (l.map fun x => bField j (g x)) = [] := by
  induction l with
  | nil => rfl
  | cons x l ih => simp only [List.map_cons, wire_allBytes_cons_b, if_neg hjk, ih]

theorem wire_allBytes_optV (k j : Nat) (o : Option Nat) : allBytes k (optV j o) = [] := by
  cases o <;> simp [optV, wire_allBytes_cons_v, wire_allBytes_nil]

theorem wire_allBytes_optB_other (k j : Nat) (hjk : j ≠ k) (o : Option Bytes) : allBytes k (optB j o) = [] := by
  cases o <;> simp [optB, wire_allBytes_cons_b, wire_allBytes_nil, hjk]

/-- The step functions of `lastVarint` / `lastBytes`, named. -/
def wireLvStep (k : Nat) (acc : Option Nat) (f : Field) : Option Nat :=
  if f.num = k then (match f.val with | .varint n => some n | _ => acc) else acc
def wireLbStep (k : Nat) (acc : Option Bytes) (f : Field) : Option Bytes :=
  if f.num = k then (match f.val with | .bytes b => some b | _ => acc) else acc

theorem wire_lastVarint_eq (k : Nat) (fs : List Field) : lastVarint k fs = fs.foldl (wireLvStep k) none := rfl
theorem wire_lastBytes_eq (k : Nat) (fs : List Field) : lastBytes k fs = fs.foldl (wireLbStep k) none := rfl

theorem wire_lv_skip (k : Nat) : ∀ (fs : List Field) (acc : Option Nat), (∀ f ∈ fs, f.num ≠ k) →
    fs.foldl (wireLvStep k) acc = acc := by
  intro fs
  induction fs with
  | nil => intros; rfl
  | cons f fs ih =>
    intro acc h
    rw [List.foldl_cons, ih _ (fun g hg => h g (List.mem_cons_of_mem _ hg))]
    simp [wireLvStep, h f List.mem_cons_self]

theorem wire_lb_skip (k : Nat) : ∀ (fs : List Field) (acc : Option Bytes), (∀ f ∈ fs, f.num ≠ k) →
    fs.foldl (wireLbStep k) acc = acc := by
  intro fs
  induction fs with
  | nil => intros; rfl
  | cons f fs ih =>
    intro acc h
    rw [List.foldl_cons, ih _ (fun g hg => h g (List.mem_cons_of_mem _ hg))]
    simp [wireLbStep, h f List.mem_cons_self]

theorem wire_lb_skip_v (k : Nat) : ∀ (fs : List Field) (acc : Option Bytes),
    (∀ f ∈ fs, ∃ j n, f = vField j n) → fs.foldl (wireLbStep k) acc = acc := by
  intro fs
  induction fs with
  | nil => intros; rfl
  | cons f fs ih =>
    intro acc h
    rw [List.foldl_cons, ih _ (fun g hg => h g (List.mem_cons_of_mem _ hg))]
    obtain ⟨j, n, rfl⟩ := h f List.mem_cons_self
    simp only [wireLbStep, vField]; exact ite_self _

theorem wire_mapM_roundtrip {α β} (enc : α → β) (dec : β → Option α) :
    ∀ (l : List α), (∀ x ∈ l, dec (enc x) = some x) → (l.map enc).mapM dec = some l := by
  intro l
  induction l with
  | nil => intro _; rfl
  | cons x l ih =>
    intro h
    simp only [List.map_cons, List.mapM_cons, h x List.mem_cons_self,
      ih (fun y hy => h y (List.mem_cons_of_mem _ hy))]
    rfl

/-! ## Schema layer -/
theorem wire_int64_roundtrip (i : Int) (h : -(2^63 : Int) ≤ i ∧ i < 2^63) :
    varintToInt64 (int64ToVarint i) = i := by
  unfold varintToInt64 int64ToVarint
  by_cases hi : i ≥ 0
  · rw [if_pos hi]
    have : i.toNat < 2^63 := by omega
    rw [if_pos this]; omega
  · rw [if_neg hi]
    have : ¬ (i + 2^64).toNat < 2^63 := by omega
    rw [if_neg this]; omega

theorem wire_int64ToVarint_lt (i : Int) (h : -(2^63 : Int) ≤ i ∧ i < 2^63) : int64ToVarint i < 2^64 := by
  unfold int64ToVarint; split <;> omega

theorem wire_FieldWF_vField (k n : Nat) (h0 : 0 < k) (h1 : k < 2^29) (hn : n < 2^64) : FieldWF (vField k n) :=
  ⟨h0, h1, hn⟩
theorem wire_FieldWF_bField (k : Nat) (b : Bytes) (h0 : 0 < k) (h1 : k < 2^29) (hn : b.length < 2^64) :
    FieldWF (bField k b) := ⟨h0, h1, hn⟩

theorem wire_encAtom_WF (a : IAtom) (h : AtomWF a) : ∀ f ∈ encAtom a, FieldWF f := by
  intro f hf
  cases a <;> simp only [encAtom, List.mem_singleton] at hf <;> subst hf <;>
    simp only [AtomWF] at h
  · exact wire_FieldWF_vField _ _ (by decide) (by decide) (by omega)
  · exact wire_FieldWF_vField _ _ (by decide) (by decide) (wire_int64ToVarint_lt _ h)
  · exact wire_FieldWF_vField _ _ (by decide) (by decide) h
  · exact wire_FieldWF_vField _ _ (by decide) (by decide) h
  · exact wire_FieldWF_bField _ _ (by decide) (by decide) (by omega)
  · exact wire_FieldWF_vField _ _ (by decide) (by decide) (by split <;> decide)

theorem wire_decAtomFields_enc (a : IAtom) (h : AtomWF a) : decAtomFields (encAtom a) = some a := by
  cases a <;> simp only [AtomWF] at h <;> simp only [encAtom, decAtomFields, List.foldl_cons, List.foldl_nil, decAtomField, vField, bField]
  · rw [Nat.mod_eq_of_lt h]
  · rw [wire_int64_roundtrip _ h]
  · rename_i b; cases b <;> rfl

theorem wire_lastContentIsSet_atom (a : IAtom) : lastContentIsSet (encAtom a) = false := by
  cases a <;> simp [lastContentIsSet, encAtom, vField, bField]

theorem wire_decAtom_enc (a : IAtom) (h : AtomWF a) : decAtom (encodeFields (encAtom a)) = some a := by
  simp only [decAtom, wire_decodeFields_encode _ (wire_encAtom_WF a h), Option.bind_some, wire_decAtomFields_enc a h]


theorem wire_decSet_enc (l : List IAtom) (h : TermWF (.set l))
    (hl : (encodeFields (l.map fun a => bField 1 (encodeFields (encAtom a)))).length < 2^64) :
    decSet (encodeFields (l.map fun a => bField 1 (encodeFields (encAtom a)))) = some l := by
  obtain ⟨hne, _, hwf, hk⟩ := h
  have hF : ∀ f ∈ (l.map fun a => bField 1 (encodeFields (encAtom a))), FieldWF f := by
    apply wire_fieldWF_of_shape hl
    intro f hf
    obtain ⟨a, _, rfl⟩ := List.mem_map.mp hf
    exact wire_shape_bField _ _ (by decide) (by decide)
  have hm : ((l.map fun a => encodeFields (encAtom a))).mapM decAtom = some l :=
    wire_mapM_roundtrip (fun a => encodeFields (encAtom a)) decAtom l (fun a ha => wire_decAtom_enc a (hwf a ha))
  simp only [decSet, wire_decodeFields_encode _ hF, wire_allBytes_map_same, hm, Option.bind_eq_bind, Option.bind_some]
  cases l with
  | nil => exact absurd rfl hne
  | cons a rest =>
    simp only at hk
    obtain ⟨h1, h2⟩ := hk
    cases a <;> simp_all
theorem wire_encodeFields_singleton_b (k : Nat) (b : Bytes) :
    b.length ≤ (encodeFields [bField k b]).length :=
  wire_bytes_le_of_mem (List.mem_singleton.mpr rfl)

theorem wire_decTerm_enc (t : ITerm) (h : TermWF t) (hl : (encodeFields (encTerm t)).length < 2^64) :
    decTerm (encodeFields (encTerm t)) = some t := by
  cases t with
  | atom a =>
    simp only [encTerm] at hl ⊢
    simp only [TermWF] at h
    simp only [decTerm, wire_decodeFields_encode _ (wire_encAtom_WF a h), Option.bind_some, decTermFields,
      wire_lastContentIsSet_atom, wire_decAtomFields_enc a h]
    rfl
  | set l =>
    simp only [encTerm] at hl ⊢
    have hX := wire_encodeFields_singleton_b 7 (encodeFields (l.map fun a => bField 1 (encodeFields (encAtom a))))
    have hF : ∀ f ∈ [bField 7 (encodeFields (l.map fun a => bField 1 (encodeFields (encAtom a))))], FieldWF f := by
      intro f hf
      rw [List.mem_singleton] at hf; subst hf
      exact wire_FieldWF_bField _ _ (by decide) (by decide) (by omega)
    have hs := wire_decSet_enc l h (by omega)
    simp only [decTerm, wire_decodeFields_encode _ hF, Option.bind_some, decTermFields]
    have : lastContentIsSet [bField 7 (encodeFields (l.map fun a => bField 1 (encodeFields (encAtom a))))] = true := by
      simp [lastContentIsSet, bField]
    rw [if_pos this]
    simp only [wire_lastBytes_eq, List.foldl_cons, List.foldl_nil, wireLbStep, bField, if_pos]
    simp only [bField] at hs
    rw [hs]; rfl
theorem wire_wrongType_cons (k : Nat) (w : Bool) (f : Field) (fs : List Field) :
    wrongType k w (f :: fs) = ((f.num = k && (match f.val with | .varint _ => !w | .bytes _ => w)) || wrongType k w fs) := by
  simp only [wrongType, List.any_cons]; rfl

theorem wire_wrongType_map_b {α} (k j : Nat) (w : Bool) (g : α → Bytes) (l : List α) (h : j ≠ k ∨ w = false) :
    wrongType k w (l.map fun x => bField j (g x)) = false := by
  induction l with
  | nil => rfl
  | cons x l ih =>
    rw [List.map_cons, wire_wrongType_cons, ih]
    rcases h with h | h <;> simp [bField, h]

theorem wire_encPred_shape (p : IPred) (h : PredWF p) : ∀ f ∈ encPred p, WireFieldShape f := by
  intro f hf
  simp only [encPred, List.mem_cons, List.mem_map] at hf
  rcases hf with rfl | ⟨t, _, rfl⟩
  · exact wire_shape_vField _ _ (by decide) (by decide) h.1
  · exact wire_shape_bField _ _ (by decide) (by decide)

theorem wire_decPred_enc (p : IPred) (h : PredWF p) (hl : (encodeFields (encPred p)).length < 2^64) :
    decPred (encodeFields (encPred p)) = some p := by
  have hF := wire_fieldWF_of_shape hl (wire_encPred_shape p h)
  have hm : (p.terms.map fun t => encodeFields (encTerm t)).mapM decTerm = some p.terms := by
    apply wire_mapM_roundtrip (fun t => encodeFields (encTerm t)) decTerm
    intro t ht
    apply wire_decTerm_enc t (h.2.2 t ht)
    have : bField 2 (encodeFields (encTerm t)) ∈ encPred p := by
      simp only [encPred, List.mem_cons, List.mem_map]
      exact Or.inr ⟨t, ht, rfl⟩
    have := wire_bytes_le_of_mem this
    omega
  simp only [decPred, wire_decodeFields_encode _ hF, Option.bind_eq_bind, Option.bind_some]
  simp only [encPred, wire_wrongType_cons, wire_wrongType_map_b _ _ _ _ _ (Or.inr rfl),
    wire_wrongType_map_b 1 2 true _ _ (Or.inl (by decide)), wire_allBytes_cons_v, wire_allBytes_map_same, hm,
    wire_lastVarint_eq, List.foldl_cons]
  rw [wire_lv_skip 1 _ _ (by intro f hf; obtain ⟨t, _, rfl⟩ := List.mem_map.mp hf; simp [bField])]
  simp [vField, wireLvStep]
theorem wire_decKind_enc (k : Nat) (h : k < 2^64) : decKind (encodeFields [vField 1 k]) = some k := by
  have hF : ∀ f ∈ [vField 1 k], FieldWF f := by
    intro f hf; rw [List.mem_singleton] at hf; subst hf
    exact wire_FieldWF_vField _ _ (by decide) (by decide) h
  simp only [decKind, wire_decodeFields_encode _ hF, Option.bind_eq_bind, Option.bind_some]
  simp [wire_lastVarint_eq, wireLvStep, vField]

theorem wire_singleton_WF (k : Nat) (b : Bytes) (h0 : 0 < k) (h1 : k < 2^29)
    (hl : (encodeFields [bField k b]).length < 2^64) : ∀ f ∈ [bField k b], FieldWF f := by
  intro f hf; rw [List.mem_singleton] at hf; subst hf
  have := wire_encodeFields_singleton_b k b
  exact wire_FieldWF_bField _ _ h0 h1 (by omega)

theorem wire_decOp_enc (o : IOp) (h : OpWF o) (hl : (encodeFields (encOp o)).length < 2^64) :
    decOp (encodeFields (encOp o)) = some o := by
  cases o with
  | value t =>
    simp only [encOp] at hl ⊢
    have hX := wire_encodeFields_singleton_b 1 (encodeFields (encTerm t))
    have ht := wire_decTerm_enc t h (by omega)
    simp only [decOp, wire_decodeFields_encode _ (wire_singleton_WF _ _ (by decide) (by decide) hl),
      Option.bind_eq_bind, Option.bind_some]
    simp [bField, ht]
  | unary k =>
    simp only [encOp] at hl ⊢
    have hk := wire_decKind_enc k (Nat.lt_trans h (by decide))
    simp only [decOp, wire_decodeFields_encode _ (wire_singleton_WF _ _ (by decide) (by decide) hl),
      Option.bind_eq_bind, Option.bind_some]
    simp [bField, hk]
  | binary k =>
    simp only [encOp] at hl ⊢
    have hk := wire_decKind_enc k (Nat.lt_trans h (by decide))
    simp only [decOp, wire_decodeFields_encode _ (wire_singleton_WF _ _ (by decide) (by decide) hl),
      Option.bind_eq_bind, Option.bind_some]
    simp [bField, hk]

/-- Generic: a list of same-numbered nested messages decodes pointwise. -/
theorem wire_mapM_nested {α} (k : Nat) (enc : α → List Field) (dec : Bytes → Option α) (l : List α)
    (fs : List Field) (hsub : ∀ x ∈ l, bField k (encodeFields (enc x)) ∈ fs)
    (hl : (encodeFields fs).length < 2^64)
    (hdec : ∀ x ∈ l, (encodeFields (enc x)).length < 2^64 → dec (encodeFields (enc x)) = some x) :
    (l.map fun x => encodeFields (enc x)).mapM dec = some l := by
  apply wire_mapM_roundtrip (fun x => encodeFields (enc x)) dec
  intro x hx
  apply hdec x hx
  have := wire_bytes_le_of_mem (hsub x hx)
  omega

theorem wire_decExpr_enc (e : List IOp) (h : ∀ o ∈ e, OpWF o) (hl : (encodeFields (encExpr e)).length < 2^64) :
    decExpr (encodeFields (encExpr e)) = some e := by
  have hF : ∀ f ∈ encExpr e, FieldWF f := by
    apply wire_fieldWF_of_shape hl
    intro f hf
    obtain ⟨a, _, rfl⟩ := List.mem_map.mp hf
    exact wire_shape_bField _ _ (by decide) (by decide)
  have hm := wire_mapM_nested 1 encOp decOp e (encExpr e)
    (fun o ho => List.mem_map.mpr ⟨o, ho, rfl⟩) hl (fun o ho hlo => wire_decOp_enc o (h o ho) hlo)
  simp only [decExpr, wire_decodeFields_encode _ hF, Option.bind_eq_bind, Option.bind_some]
  simp only [encExpr, wire_allBytes_map_same, hm]

theorem wire_encRule_eq (r : IRule) : encRule r =
    bField 1 (encodeFields (encPred r.head)) ::
      ((r.body.map fun p => bField 2 (encodeFields (encPred p))) ++
       (r.exprs.map fun e => bField 3 (encodeFields (encExpr e)))) := by
  simp [encRule]

theorem wire_decRule_enc (r : IRule) (h : RuleWF r) (hl : (encodeFields (encRule r)).length < 2^64) :
    decRule (encodeFields (encRule r)) = some r := by
  obtain ⟨hh, _, hb, _, he⟩ := h
  have hF : ∀ f ∈ encRule r, FieldWF f := by
    apply wire_fieldWF_of_shape hl
    intro f hf
    simp only [wire_encRule_eq, List.mem_cons, List.mem_append, List.mem_map] at hf
    rcases hf with rfl | ⟨a, _, rfl⟩ | ⟨a, _, rfl⟩ <;> exact wire_shape_bField _ _ (by decide) (by decide)
  have hhead : decPred (encodeFields (encPred r.head)) = some r.head := by
    apply wire_decPred_enc _ hh
    have : bField 1 (encodeFields (encPred r.head)) ∈ encRule r := by simp [wire_encRule_eq]
    have := wire_bytes_le_of_mem this
    omega
  have hbody := wire_mapM_nested 2 encPred decPred r.body (encRule r)
    (fun p hp => by simp only [wire_encRule_eq, List.mem_cons, List.mem_append, List.mem_map]; exact Or.inr (Or.inl ⟨p, hp, rfl⟩))
    hl (fun p hp hlp => wire_decPred_enc p (hb p hp) hlp)
  have hexprs := wire_mapM_nested 3 encExpr decExpr r.exprs (encRule r)
    (fun p hp => by simp only [wire_encRule_eq, List.mem_cons, List.mem_append, List.mem_map]; exact Or.inr (Or.inr ⟨p, hp, rfl⟩))
    hl (fun e hx hle => wire_decExpr_enc e (he e hx).2 hle)
  simp only [decRule, wire_decodeFields_encode _ hF, Option.bind_eq_bind, Option.bind_some]
  have hlb : lastBytes 1 (encRule r) = some (encodeFields (encPred r.head)) := by
    rw [wire_lastBytes_eq, wire_encRule_eq, List.foldl_cons, wire_lb_skip]
    · simp [wireLbStep, bField]
    · intro f hf
      simp only [List.mem_append, List.mem_map] at hf
      rcases hf with ⟨a, _, rfl⟩ | ⟨a, _, rfl⟩ <;> simp [bField]
  have hab2 : allBytes 2 (encRule r) = r.body.map fun p => encodeFields (encPred p) := by
    simp [wire_encRule_eq, wire_allBytes_cons_b, wire_allBytes_append, wire_allBytes_map_same, wire_allBytes_map_other 2 3]
  have hab3 : allBytes 3 (encRule r) = r.exprs.map fun p => encodeFields (encExpr p) := by
    simp [wire_encRule_eq, wire_allBytes_cons_b, wire_allBytes_append, wire_allBytes_map_same, wire_allBytes_map_other 3 2]
  simp only [hlb, hab2, hab3, hhead, hbody, hexprs, Option.bind_some]
  rfl

theorem wire_decCheck_enc (c : ICheck) (h : CheckWF c) (hl : (encodeFields (encCheck c)).length < 2^64) :
    decCheck (encodeFields (encCheck c)) = some c := by
  have hF : ∀ f ∈ encCheck c, FieldWF f := by
    apply wire_fieldWF_of_shape hl
    intro f hf
    obtain ⟨a, _, rfl⟩ := List.mem_map.mp hf
    exact wire_shape_bField _ _ (by decide) (by decide)
  have hm := wire_mapM_nested 1 encRule decRule c.queries (encCheck c)
    (fun o ho => List.mem_map.mpr ⟨o, ho, rfl⟩) hl (fun o ho hlo => wire_decRule_enc o (h.2 o ho) hlo)
  simp only [decCheck, wire_decodeFields_encode _ hF, Option.bind_eq_bind, Option.bind_some]
  simp only [encCheck, wire_allBytes_map_same, hm]
  rfl

theorem wire_decFact_enc (p : IPred) (h : PredWF p) (hl : (encodeFields (encFact p)).length < 2^64) :
    decFact (encodeFields (encFact p)) = some p := by
  simp only [encFact] at hl ⊢
  have hX := wire_encodeFields_singleton_b 1 (encodeFields (encPred p))
  have hp := wire_decPred_enc p h (by omega)
  simp only [decFact, wire_decodeFields_encode _ (wire_singleton_WF _ _ (by decide) (by decide) hl),
    Option.bind_eq_bind, Option.bind_some]
  simp [wire_lastBytes_eq, wireLbStep, bField, hp]

theorem wire_mem_optB {k : Nat} {o : Option Bytes} {f : Field} (h : f ∈ optB k o) : ∃ b, o = some b ∧ f = bField k b := by
  cases o with
  | none => simp [optB] at h
  | some b => simp only [optB, List.mem_singleton] at h; exact ⟨b, rfl, h⟩

theorem wire_mem_optV {k : Nat} {o : Option Nat} {f : Field} (h : f ∈ optV k o) : ∃ n, o = some n ∧ f = vField k n := by
  cases o with
  | none => simp [optV] at h
  | some b => simp only [optV, List.mem_singleton] at h; exact ⟨b, rfl, h⟩

theorem wire_lb_map_other {α} (k j : Nat) (hjk : j ≠ k) (g : α → Bytes) (l : List α) (acc : Option Bytes) :
    (l.map fun x => bField j (g x)).foldl (wireLbStep k) acc = acc := by
  apply wire_lb_skip
  intro f hf; obtain ⟨a, _, rfl⟩ := List.mem_map.mp hf; exact hjk

theorem wire_lv_map_b {α} (k j : Nat) (g : α → Bytes) (l : List α) (acc : Option Nat) :
    (l.map fun x => bField j (g x)).foldl (wireLvStep k) acc = acc := by
  induction l generalizing acc with
  | nil => rfl
  | cons x l ih =>
    rw [List.map_cons, List.foldl_cons, ih]
    simp only [wireLvStep, bField]; exact ite_self _

theorem wire_lv_map_b' (k j : Nat) (l : List Bytes) (acc : Option Nat) :
    (l.map fun x => bField j x).foldl (wireLvStep k) acc = acc := wire_lv_map_b k j id l acc

theorem wire_lb_map_other' (k j : Nat) (hjk : j ≠ k) (l : List Bytes) (acc : Option Bytes) :
    (l.map fun x => bField j x).foldl (wireLbStep k) acc = acc := wire_lb_map_other k j hjk id l acc

theorem wire_allBytes_map_same' (k : Nat) (l : List Bytes) :
    allBytes k (l.map fun x => bField k x) = l :=
  (wire_allBytes_map_same k id l).trans (List.map_id _)

theorem wire_allBytes_map_other' (k j : Nat) (hjk : j ≠ k) (l : List Bytes) :
    allBytes k (l.map fun x => bField j x) = [] := wire_allBytes_map_other k j hjk id l

theorem wire_lv_optB (k j : Nat) (o : Option Bytes) (acc : Option Nat) :
    (optB j o).foldl (wireLvStep k) acc = acc := by
  cases o with
  | none => rfl
  | some b => simp only [optB, List.foldl_cons, List.foldl_nil, wireLvStep, bField]; exact ite_self _

theorem wire_lb_optV (k j : Nat) (o : Option Nat) (acc : Option Bytes) :
    (optV j o).foldl (wireLbStep k) acc = acc := by
  cases o with
  | none => rfl
  | some b => simp only [optV, List.foldl_cons, List.foldl_nil, wireLbStep, vField]; exact ite_self _

theorem wire_lb_optB_same (k : Nat) (o : Option Bytes) : (optB k o).foldl (wireLbStep k) none = o := by
  cases o <;> simp [optB, wireLbStep, bField]

theorem wire_lv_optV_same (k : Nat) (o : Option Nat) : (optV k o).foldl (wireLvStep k) none = o := by
  cases o <;> simp [optV, wireLvStep, vField]

theorem wire_decodeBlock_enc (b : BlockMsg) (h : BlockWF b) : decodeBlock (encodeBlock b) = some b := by
  obtain ⟨_, hsym, hctx, hver, _, hfacts, _, hrules, _, hchecks, hl⟩ := h
  unfold encodeBlock at hl ⊢
  have hF : ∀ f ∈ encBlock b, FieldWF f := by
    apply wire_fieldWF_of_shape hl
    intro f hf
    simp only [encBlock, List.mem_append, List.mem_map] at hf
    rcases hf with ((((⟨a, _, rfl⟩ | hf) | hf) | ⟨a, _, rfl⟩) | ⟨a, _, rfl⟩) | ⟨a, _, rfl⟩
    · exact wire_shape_bField _ _ (by decide) (by decide)
    · obtain ⟨c, _, rfl⟩ := wire_mem_optB hf; exact wire_shape_bField _ _ (by decide) (by decide)
    · obtain ⟨v, hv, rfl⟩ := wire_mem_optV hf
      exact wire_shape_vField _ _ (by decide) (by decide) (Nat.lt_trans (hver v hv) (by decide))
    · exact wire_shape_bField _ _ (by decide) (by decide)
    · exact wire_shape_bField _ _ (by decide) (by decide)
    · exact wire_shape_bField _ _ (by decide) (by decide)
  have hmf := wire_mapM_nested 4 encFact decFact b.facts (encBlock b)
    (fun p hp => by simp only [encBlock, List.mem_append, List.mem_map]; exact Or.inl (Or.inl (Or.inr ⟨p, hp, rfl⟩)))
    hl (fun p hp hlp => wire_decFact_enc p (hfacts p hp) hlp)
  have hmr := wire_mapM_nested 5 encRule decRule b.rules (encBlock b)
    (fun p hp => by simp only [encBlock, List.mem_append, List.mem_map]; exact Or.inl (Or.inr ⟨p, hp, rfl⟩))
    hl (fun p hp hlp => wire_decRule_enc p (hrules p hp) hlp)
  have hmc := wire_mapM_nested 6 encCheck decCheck b.checks (encBlock b)
    (fun p hp => by simp only [encBlock, List.mem_append, List.mem_map]; exact Or.inr ⟨p, hp, rfl⟩)
    hl (fun p hp hlp => wire_decCheck_enc p (hchecks p hp) hlp)
  simp only [decodeBlock, wire_decodeFields_encode _ hF, Option.bind_eq_bind, Option.bind_some]
  have hab1 : allBytes 1 (encBlock b) = b.symbols := by
    simp [encBlock, wire_allBytes_append, wire_allBytes_map_other 1 4,
      wire_allBytes_map_other 1 5, wire_allBytes_map_other 1 6, wire_allBytes_optV, wire_allBytes_optB_other 1 2,
      wire_allBytes_map_same']
  have hab4 : allBytes 4 (encBlock b) = b.facts.map fun p => encodeFields (encFact p) := by
    simp [encBlock, wire_allBytes_append, wire_allBytes_map_same, wire_allBytes_map_other' 4 1,
      wire_allBytes_map_other 4 5, wire_allBytes_map_other 4 6, wire_allBytes_optV, wire_allBytes_optB_other 4 2]
  have hab5 : allBytes 5 (encBlock b) = b.rules.map fun p => encodeFields (encRule p) := by
    simp [encBlock, wire_allBytes_append, wire_allBytes_map_same, wire_allBytes_map_other' 5 1,
      wire_allBytes_map_other 5 4, wire_allBytes_map_other 5 6, wire_allBytes_optV, wire_allBytes_optB_other 5 2]
  have hab6 : allBytes 6 (encBlock b) = b.checks.map fun p => encodeFields (encCheck p) := by
    simp [encBlock, wire_allBytes_append, wire_allBytes_map_same, wire_allBytes_map_other' 6 1,
      wire_allBytes_map_other 6 4, wire_allBytes_map_other 6 5, wire_allBytes_optV, wire_allBytes_optB_other 6 2]
  have hlb : lastBytes 2 (encBlock b) = b.context := by
    simp only [wire_lastBytes_eq, encBlock, List.foldl_append, wire_lb_map_other' 2 1 (by decide),
      wire_lb_map_other 2 4 (by decide), wire_lb_map_other 2 5 (by decide), wire_lb_map_other 2 6 (by decide),
      wire_lb_optV, wire_lb_optB_same]
  have hlv : lastVarint 3 (encBlock b) = b.version := by
    simp only [wire_lastVarint_eq, encBlock, List.foldl_append, wire_lv_map_b, wire_lv_map_b', wire_lv_optB, wire_lv_optV_same]
  simp only [hab1, hab4, hab5, hab6, hlb, hlv, hmf, hmr, hmc, Option.bind_some]
  have hv : b.version.map (· % 2^32) = b.version := by
    cases hb : b.version with
    | none => rfl
    | some v => simp only [Option.map_some]; rw [Nat.mod_eq_of_lt (hver v hb)]
  rw [hv]; rfl

theorem wire_decPolicy_enc (p : IPolicy) (hk : p.kind < 2^31) (hq : ∀ q ∈ p.queries, RuleWF q)
    (hl : (encodeFields (encPolicy p)).length < 2^64) :
    decPolicy (encodeFields (encPolicy p)) = some p := by
  have hF : ∀ f ∈ encPolicy p, FieldWF f := by
    apply wire_fieldWF_of_shape hl
    intro f hf
    simp only [encPolicy, List.mem_append, List.mem_map, List.mem_singleton] at hf
    rcases hf with ⟨a, _, rfl⟩ | rfl
    · exact wire_shape_bField _ _ (by decide) (by decide)
    · exact wire_shape_vField _ _ (by decide) (by decide) (Nat.lt_trans hk (by decide))
  have hm := wire_mapM_nested 1 encRule decRule p.queries (encPolicy p)
    (fun o ho => by simp only [encPolicy, List.mem_append, List.mem_map]; exact Or.inl ⟨o, ho, rfl⟩)
    hl (fun o ho hlo => wire_decRule_enc o (hq o ho) hlo)
  simp only [decPolicy, wire_decodeFields_encode _ hF, Option.bind_eq_bind, Option.bind_some]
  have hab : allBytes 1 (encPolicy p) = p.queries.map fun q => encodeFields (encRule q) := by
    simp [encPolicy, wire_allBytes_append, wire_allBytes_map_same, wire_allBytes_cons_v, wire_allBytes_nil]
  have hlv : lastVarint 2 (encPolicy p) = some p.kind := by
    simp only [wire_lastVarint_eq, encPolicy, List.foldl_append, wire_lv_map_b]
    simp [wireLvStep, vField]
  simp only [hab, hlv, hm, Option.bind_some]
  rfl

theorem wire_decodePolicies_enc (m : PoliciesMsg)
    (hver : ∀ v, m.version = some v → v < 2^32)
    (hfacts : ∀ f ∈ m.facts, PredWF f) (hrules : ∀ r ∈ m.rules, RuleWF r)
    (hchecks : ∀ c ∈ m.checks, CheckWF c)
    (hpol : ∀ p ∈ m.policies, p.kind < 2^31 ∧ ∀ q ∈ p.queries, RuleWF q)
    (hl : (encodePolicies m).length < 2^64) :
    decodePolicies (encodePolicies m) = some m := by
  unfold encodePolicies at hl ⊢
  have hF : ∀ f ∈ encPolicies m, FieldWF f := by
    apply wire_fieldWF_of_shape hl
    intro f hf
    simp only [encPolicies, List.mem_append, List.mem_map] at hf
    rcases hf with ((((⟨a, _, rfl⟩ | hf) | ⟨a, _, rfl⟩) | ⟨a, _, rfl⟩) | ⟨a, _, rfl⟩) | ⟨a, _, rfl⟩
    · exact wire_shape_bField _ _ (by decide) (by decide)
    · obtain ⟨v, hv, rfl⟩ := wire_mem_optV hf
      exact wire_shape_vField _ _ (by decide) (by decide) (Nat.lt_trans (hver v hv) (by decide))
    · exact wire_shape_bField _ _ (by decide) (by decide)
    · exact wire_shape_bField _ _ (by decide) (by decide)
    · exact wire_shape_bField _ _ (by decide) (by decide)
    · exact wire_shape_bField _ _ (by decide) (by decide)
  have hmf := wire_mapM_nested 3 encFact decFact m.facts (encPolicies m)
    (fun p hp => by simp only [encPolicies, List.mem_append, List.mem_map]; exact Or.inl (Or.inl (Or.inl (Or.inr ⟨p, hp, rfl⟩))))
    hl (fun p hp hlp => wire_decFact_enc p (hfacts p hp) hlp)
  have hmr := wire_mapM_nested 4 encRule decRule m.rules (encPolicies m)
    (fun p hp => by simp only [encPolicies, List.mem_append, List.mem_map]; exact Or.inl (Or.inl (Or.inr ⟨p, hp, rfl⟩)))
    hl (fun p hp hlp => wire_decRule_enc p (hrules p hp) hlp)
  have hmc := wire_mapM_nested 5 encCheck decCheck m.checks (encPolicies m)
    (fun p hp => by simp only [encPolicies, List.mem_append, List.mem_map]; exact Or.inl (Or.inr ⟨p, hp, rfl⟩))
    hl (fun p hp hlp => wire_decCheck_enc p (hchecks p hp) hlp)
  have hmp := wire_mapM_nested 6 encPolicy decPolicy m.policies (encPolicies m)
    (fun p hp => by simp only [encPolicies, List.mem_append, List.mem_map]; exact Or.inr ⟨p, hp, rfl⟩)
    hl (fun p hp hlp => wire_decPolicy_enc p (hpol p hp).1 (hpol p hp).2 hlp)
  simp only [decodePolicies, wire_decodeFields_encode _ hF, Option.bind_eq_bind, Option.bind_some]
  have hab1 : allBytes 1 (encPolicies m) = m.symbols := by
    simp [encPolicies, wire_allBytes_append, wire_allBytes_map_other 1 3, wire_allBytes_map_other 1 4,
      wire_allBytes_map_other 1 5, wire_allBytes_map_other 1 6, wire_allBytes_optV, wire_allBytes_map_same']
  have hab3 : allBytes 3 (encPolicies m) = m.facts.map fun p => encodeFields (encFact p) := by
    simp [encPolicies, wire_allBytes_append, wire_allBytes_map_same, wire_allBytes_map_other' 3 1,
      wire_allBytes_map_other 3 4, wire_allBytes_map_other 3 5, wire_allBytes_map_other 3 6, wire_allBytes_optV]
  have hab4 : allBytes 4 (encPolicies m) = m.rules.map fun p => encodeFields (encRule p) := by
    simp [encPolicies, wire_allBytes_append, wire_allBytes_map_same, wire_allBytes_map_other' 4 1,
      wire_allBytes_map_other 4 3, wire_allBytes_map_other 4 5, wire_allBytes_map_other 4 6, wire_allBytes_optV]
  have hab5 : allBytes 5 (encPolicies m) = m.checks.map fun p => encodeFields (encCheck p) := by
    simp [encPolicies, wire_allBytes_append, wire_allBytes_map_same, wire_allBytes_map_other' 5 1,
      wire_allBytes_map_other 5 3, wire_allBytes_map_other 5 4, wire_allBytes_map_other 5 6, wire_allBytes_optV]
  have hab6 : allBytes 6 (encPolicies m) = m.policies.map fun p => encodeFields (encPolicy p) := by
    simp [encPolicies, wire_allBytes_append, wire_allBytes_map_same, wire_allBytes_map_other' 6 1,
      wire_allBytes_map_other 6 3, wire_allBytes_map_other 6 4, wire_allBytes_map_other 6 5, wire_allBytes_optV]
  have hlv : lastVarint 2 (encPolicies m) = m.version := by
    simp only [wire_lastVarint_eq, encPolicies, List.foldl_append, wire_lv_map_b, wire_lv_map_b', wire_lv_optV_same]
  simp only [hab1, hab3, hab4, hab5, hab6, hlv, hmf, hmr, hmc, hmp, Option.bind_some]
  have hv : m.version.map (· % 2^32) = m.version := by
    cases hb : m.version with
    | none => rfl
    | some v => simp only [Option.map_some]; rw [Nat.mod_eq_of_lt (hver v hb)]
  rw [hv]; rfl

end Biscuit
