/-
Proofs/Grammar — helper lemmas for C14 / C15.
-/
import BiscuitModel.Model.Printer

namespace Biscuit.Grammar

end Biscuit.Grammar
