/-
Proofs/Grammar — helper lemmas for C14 / C15.

The recursive-descent parser of `Model/Grammar` re-reads the minimal rendering
(`Printer.renderToks`) of every well-formed tree.  `lvl`, `WFx`, … are copies of the
definitions `level`, `WF`, … of `Props/C14` (which imports this file); C14 proves that
they coincide.

Structure of the proof: for every precedence level `k` a predicate `Sk e` says "the
parser function of level `k` reads `renderToks e ++ rest` as `e`" — in continuation
style for the levels that have a loop (`||`, `&&`, `+ -`, `* /`, method calls): whatever
the loop of that level returns when started with the accumulator `e` on `rest` is what
the parser function returns on `renderToks e ++ rest`.  Fuel is handled by explicit lower
bounds (`16 * tokens + 2 * (7 - k)`), no monotonicity lemma is needed.
-/
import BiscuitModel.Model.Printer

namespace Biscuit.Grammar
open Biscuit Biscuit.Printer

/-! ## Copies of the definitions of Props/C14 -/

def lvl : PExpr → Nat
  | .bin .or _ _ => 0
  | .bin .and _ _ => 1
  | .bin .lt _ _ | .bin .le _ _ | .bin .gt _ _ | .bin .ge _ _ | .bin .eq _ _ => 2
  | .bin .add _ _ | .bin .sub _ _ => 3
  | .bin .mul _ _ | .bin .div _ _ => 4
  | .bin _ _ _ => 8
  | .neg _ => 5
  | .method _ _ _ | .length _ => 6
  | .term _ | .paren _ => 7

def isMethOp : BinOp → Bool
  | .contains | .pfx | .sfx | .regex | .intersection | .union => true
  | _ => false

def AtomOK : PTerm → Prop
  | .set _ => False
  | _ => True

def TermOK : PTerm → Prop
  | .set elts => elts ≠ [] ∧ ∀ t ∈ elts, AtomOK t
  | _ => True

def WFx : PExpr → Prop
  | .term t => TermOK t
  | .paren e => WFx e
  | .neg e => WFx e ∧ lvl e ≥ 6
  | .bin op l r =>
    WFx l ∧ WFx r ∧ lvl (.bin op l r) ≤ 4 ∧
    (if lvl (.bin op l r) = 2 then lvl l ≥ 3 ∧ lvl r ≥ 3
     else lvl l ≥ lvl (.bin op l r) ∧ lvl r > lvl (.bin op l r))
  | .method op recv arg => isMethOp op = true ∧ WFx recv ∧ WFx arg ∧ lvl recv ≥ 6
  | .length recv => WFx recv ∧ lvl recv ≥ 6

def opLvl : BinOp → Nat
  | .or => 0 | .and => 1 | .lt | .le | .gt | .ge | .eq => 2 | .add | .sub => 3 | .mul | .div => 4
  | _ => 8

theorem lvl_bin (op : BinOp) (a b : PExpr) : lvl (.bin op a b) = opLvl op := by
  cases op <;> rfl

/-! ## Follow sets -/

def orStop (rest : List Tok) : Prop := ∀ r, rest = .orOp :: r → False
def andStop (rest : List Tok) : Prop := ∀ r, rest = .andOp :: r → False
def cmpStop (rest : List Tok) : Prop := ∀ t r, rest = t :: r → cmpOfTok t = none
def addStop (rest : List Tok) : Prop := ∀ t r, rest = t :: r → addOfTok t = none
def mulStop (rest : List Tok) : Prop := ∀ t r, rest = t :: r → mulOfTok t = none
def dotStop (rest : List Tok) : Prop := ∀ r, rest = .dot :: r → False

/-- The head of `rest` is not an operator token that a loop of level `≥ k` consumes. -/
def Follow (k : Nat) (rest : List Tok) : Prop :=
  (k ≤ 0 → orStop rest) ∧ (k ≤ 1 → andStop rest) ∧ (k ≤ 2 → cmpStop rest) ∧
  (k ≤ 3 → addStop rest) ∧ (k ≤ 4 → mulStop rest) ∧ (k ≤ 6 → dotStop rest)

theorem Follow.mono {k k' : Nat} {rest : List Tok} (h : Follow k rest) (hk : k ≤ k') :
    Follow k' rest := by
  unfold Follow at *
  exact ⟨fun h' => h.1 (by omega), fun h' => h.2.1 (by omega), fun h' => h.2.2.1 (by omega),
    fun h' => h.2.2.2.1 (by omega), fun h' => h.2.2.2.2.1 (by omega), fun h' => h.2.2.2.2.2 (by omega)⟩

theorem Follow.or {rest : List Tok} (h : Follow 0 rest) : orStop rest := h.1 (by omega)
theorem Follow.and {k : Nat} {rest : List Tok} (h : Follow k rest) (hk : k ≤ 1 := by omega) : andStop rest := h.2.1 hk
theorem Follow.cmp {k : Nat} {rest : List Tok} (h : Follow k rest) (hk : k ≤ 2 := by omega) : cmpStop rest := h.2.2.1 hk
theorem Follow.add {k : Nat} {rest : List Tok} (h : Follow k rest) (hk : k ≤ 3 := by omega) : addStop rest := h.2.2.2.1 hk
theorem Follow.mul {k : Nat} {rest : List Tok} (h : Follow k rest) (hk : k ≤ 4 := by omega) : mulStop rest := h.2.2.2.2.1 hk
theorem Follow.dot {k : Nat} {rest : List Tok} (h : Follow k rest) (hk : k ≤ 6 := by omega) : dotStop rest := h.2.2.2.2.2 hk

/-! ## Loops stop on their follow sets -/

theorem orLoop_stop {rest : List Tok} (h : orStop rest) (f : Nat) (l : PExpr) :
    orLoop (f + 1) l rest = some (l, rest) := orLoop.eq_3 l rest f h

theorem andLoop_stop {rest : List Tok} (h : andStop rest) (f : Nat) (l : PExpr) :
    andLoop (f + 1) l rest = some (l, rest) := andLoop.eq_3 l rest f h

theorem addLoop_stop {rest : List Tok} (h : addStop rest) (f : Nat) (l : PExpr) :
    addLoop (f + 1) l rest = some (l, rest) := by
  cases rest with
  | nil => simp [addLoop]
  | cons t r => rw [addLoop.eq_2, h t r rfl]

theorem mulLoop_stop {rest : List Tok} (h : mulStop rest) (f : Nat) (l : PExpr) :
    mulLoop (f + 1) l rest = some (l, rest) := by
  cases rest with
  | nil => simp [mulLoop]
  | cons t r => rw [mulLoop.eq_2, h t r rfl]

theorem methodLoop_stop {rest : List Tok} (h : dotStop rest) (f : Nat) (l : PExpr) :
    methodLoop (f + 1) l rest = some (l, rest) :=
  methodLoop.eq_4 l rest f (fun _ _ hr => h _ hr)

/-- `∀ f ≥ 1`, phrased for the continuation-style statements below. -/
theorem orLoop_stop' {rest : List Tok} (h : orStop rest) (l : PExpr) :
    ∀ f, f ≥ 1 → orLoop f l rest = some (l, rest) := by
  intro f hf; obtain ⟨g, rfl⟩ : ∃ g, f = g + 1 := ⟨f - 1, by omega⟩; exact orLoop_stop h g l
theorem andLoop_stop' {rest : List Tok} (h : andStop rest) (l : PExpr) :
    ∀ f, f ≥ 1 → andLoop f l rest = some (l, rest) := by
  intro f hf; obtain ⟨g, rfl⟩ : ∃ g, f = g + 1 := ⟨f - 1, by omega⟩; exact andLoop_stop h g l
theorem addLoop_stop' {rest : List Tok} (h : addStop rest) (l : PExpr) :
    ∀ f, f ≥ 1 → addLoop f l rest = some (l, rest) := by
  intro f hf; obtain ⟨g, rfl⟩ : ∃ g, f = g + 1 := ⟨f - 1, by omega⟩; exact addLoop_stop h g l
theorem mulLoop_stop' {rest : List Tok} (h : mulStop rest) (l : PExpr) :
    ∀ f, f ≥ 1 → mulLoop f l rest = some (l, rest) := by
  intro f hf; obtain ⟨g, rfl⟩ : ∃ g, f = g + 1 := ⟨f - 1, by omega⟩; exact mulLoop_stop h g l
theorem methodLoop_stop' {rest : List Tok} (h : dotStop rest) (l : PExpr) :
    ∀ f, f ≥ 1 → methodLoop f l rest = some (l, rest) := by
  intro f hf; obtain ⟨g, rfl⟩ : ∃ g, f = g + 1 := ⟨f - 1, by omega⟩; exact methodLoop_stop h g l

/-! ## The per-level statements -/

/-- Fuel measure of a tree: the number of tokens of the minimal rendering, a signed integer
literal (two tokens, `-` and the digits) counted as ONE, a set as its number of elements
plus two.  `esize_le_length`: never more than the number of rendered tokens. -/
def esize : PExpr → Nat
  | .term (.set elts) => elts.length + 2
  | .term _ => 1
  | .paren e => esize e + 2
  | .neg e => esize e + 1
  | .bin _ l r => esize l + 1 + esize r
  | .method _ recv arg => esize recv + esize arg + 4
  | .length recv => esize recv + 4

/-- The fuel measure used by the per-level statements. -/
abbrev ntok (e : PExpr) : Nat := esize e

def S7 (e : PExpr) : Prop :=
  ∀ rest f, f ≥ 16 * ntok e → parseAtom f (renderToks e ++ rest) = some (e, rest)

def S6 (e : PExpr) : Prop :=
  ∀ rest res m, (∀ f, f ≥ m → methodLoop f e rest = some res) →
    ∀ f, f ≥ m + 16 * ntok e + 2 → parsePostfix f (renderToks e ++ rest) = some res

def S5 (e : PExpr) : Prop :=
  ∀ rest, Follow 6 rest → ∀ f, f ≥ 16 * ntok e + 4 →
    parseNot f (renderToks e ++ rest) = some (e, rest)

def S4 (e : PExpr) : Prop :=
  ∀ rest res m, Follow 5 rest → (∀ f, f ≥ m → mulLoop f e rest = some res) →
    ∀ f, f ≥ m + 16 * ntok e + 6 → parseMul f (renderToks e ++ rest) = some res

def S3 (e : PExpr) : Prop :=
  ∀ rest res m, Follow 4 rest → (∀ f, f ≥ m → addLoop f e rest = some res) →
    ∀ f, f ≥ m + 16 * ntok e + 8 → parseAdd f (renderToks e ++ rest) = some res

def S2 (e : PExpr) : Prop :=
  ∀ rest, Follow 2 rest → ∀ f, f ≥ 16 * ntok e + 10 →
    parseCmp f (renderToks e ++ rest) = some (e, rest)

def S1 (e : PExpr) : Prop :=
  ∀ rest res m, Follow 2 rest → (∀ f, f ≥ m → andLoop f e rest = some res) →
    ∀ f, f ≥ m + 16 * ntok e + 12 → parseAnd f (renderToks e ++ rest) = some res

def S0 (e : PExpr) : Prop :=
  ∀ rest res m, Follow 1 rest → (∀ f, f ≥ m → orLoop f e rest = some res) →
    ∀ f, f ≥ m + 16 * ntok e + 14 → parseOr f (renderToks e ++ rest) = some res

/-- The rendering does not start with `!` (true of everything at method level or above). -/
def NoBang (e : PExpr) : Prop := ∀ rest r, renderToks e ++ rest = .punct '!' :: r → False

/-! ## Descending through the levels -/

theorem S6_of_S7 {e : PExpr} (h : S7 e) : S6 e := by
  intro rest res m hloop f hf
  obtain ⟨g, rfl⟩ : ∃ g, f = g + 1 := ⟨f - 1, by omega⟩
  rw [parsePostfix.eq_2, h rest g (by omega)]
  exact hloop g (by omega)

theorem S5_of_S6 {e : PExpr} (hb : NoBang e) (h : S6 e) : S5 e := by
  intro rest hF f hf
  obtain ⟨g, rfl⟩ : ∃ g, f = g + 1 := ⟨f - 1, by omega⟩
  rw [parseNot.eq_3 _ _ (hb rest)]
  exact h rest (e, rest) 1 (methodLoop_stop' hF.dot e) g (by omega)

theorem S4_of_S5 {e : PExpr} (h : S5 e) : S4 e := by
  intro rest res m hF hloop f hf
  obtain ⟨g, rfl⟩ : ∃ g, f = g + 1 := ⟨f - 1, by omega⟩
  rw [parseMul.eq_2, h rest (hF.mono (by omega)) g (by omega)]
  exact hloop g (by omega)

theorem S3_of_S4 {e : PExpr} (h : S4 e) : S3 e := by
  intro rest res m hF hloop f hf
  obtain ⟨g, rfl⟩ : ∃ g, f = g + 1 := ⟨f - 1, by omega⟩
  rw [parseAdd.eq_2, h rest (e, rest) 1 (hF.mono (by omega)) (mulLoop_stop' hF.mul e) g (by omega)]
  exact hloop g (by omega)

/-- What `parseCmp` does after its left operand when no comparison operator follows. -/
theorem cmp_tail_stop {rest : List Tok} (h : cmpStop rest) (e : PExpr) (g : Nat) :
    (match (some (e, rest) : Option (PExpr × List Tok)) with
      | none => none
      | some (l, t :: rest) =>
        match cmpOfTok t with
        | some op =>
          match parseAdd g rest with
          | none => none
          | some (r, rest') => some (PExpr.bin op l r, rest')
        | none => some (l, t :: rest)
      | some (l, []) => some (l, [])) = some (e, rest) := by
  cases rest with
  | nil => rfl
  | cons t r => simp only [h t r rfl]

theorem S2_of_S3 {e : PExpr} (h : S3 e) : S2 e := by
  intro rest hF f hf
  obtain ⟨g, rfl⟩ : ∃ g, f = g + 1 := ⟨f - 1, by omega⟩
  rw [parseCmp.eq_2, h rest (e, rest) 1 (hF.mono (by omega)) (addLoop_stop' hF.add e) g (by omega)]
  exact cmp_tail_stop hF.cmp e g

theorem S1_of_S2 {e : PExpr} (h : S2 e) : S1 e := by
  intro rest res m hF hloop f hf
  obtain ⟨g, rfl⟩ : ∃ g, f = g + 1 := ⟨f - 1, by omega⟩
  rw [parseAnd.eq_2, h rest hF g (by omega)]
  exact hloop g (by omega)

theorem S0_of_S1 {e : PExpr} (h : S1 e) : S0 e := by
  intro rest res m hF hloop f hf
  obtain ⟨g, rfl⟩ : ∃ g, f = g + 1 := ⟨f - 1, by omega⟩
  rw [parseOr.eq_2, h rest (e, rest) 1 (hF.mono (by omega)) (andLoop_stop' hF.and e) g (by omega)]
  exact hloop g (by omega)

/-! ## One node of the tree at its own level -/

theorem S0_or {a b : PExpr} (ha : S0 a) (hb : S1 b) : S0 (.bin .or a b) := by
  intro rest res m hF hloop f hf
  have hn : ntok (.bin .or a b) = ntok a + 1 + ntok b := rfl
  have ht : renderToks (.bin .or a b) ++ rest = renderToks a ++ (.orOp :: (renderToks b ++ rest)) := by
    simp [renderToks, binTok]
  rw [ht]
  refine ha _ res (m + 16 * ntok b + 14) ?_ ?_ f (by omega)
  · simp [Follow, andStop, cmpStop, addStop, mulStop, dotStop, cmpOfTok, addOfTok, mulOfTok]
  · intro f' hf'
    obtain ⟨g, rfl⟩ : ∃ g, f' = g + 1 := ⟨f' - 1, by omega⟩
    rw [orLoop.eq_2, hb rest (b, rest) 1 (hF.mono (by omega)) (andLoop_stop' hF.and b) g (by omega)]
    exact hloop g (by omega)

theorem S1_and {a b : PExpr} (ha : S1 a) (hb : S2 b) : S1 (.bin .and a b) := by
  intro rest res m hF hloop f hf
  have hn : ntok (.bin .and a b) = ntok a + 1 + ntok b := rfl
  have ht : renderToks (.bin .and a b) ++ rest = renderToks a ++ (.andOp :: (renderToks b ++ rest)) := by
    simp [renderToks, binTok]
  rw [ht]
  refine ha _ res (m + 16 * ntok b + 14) ?_ ?_ f (by omega)
  · simp [Follow, cmpStop, addStop, mulStop, dotStop, cmpOfTok, addOfTok, mulOfTok]
  · intro f' hf'
    obtain ⟨g, rfl⟩ : ∃ g, f' = g + 1 := ⟨f' - 1, by omega⟩
    rw [andLoop.eq_2, hb rest hF g (by omega)]
    exact hloop g (by omega)

theorem S2_cmp' {a b : PExpr} {op : BinOp} {t : Tok} (hbt : binTok op = some t)
    (hct : cmpOfTok t = some op) (hFt : ∀ r, Follow 3 (t :: r)) (ha : S3 a) (hb : S3 b)
    (rest : List Tok) (hF : Follow 3 rest) (f : Nat) (hf : f ≥ 16 * ntok (.bin op a b) + 10) :
    parseCmp f (renderToks (.bin op a b) ++ rest) = some (.bin op a b, rest) := by
  have hn : ntok (.bin op a b) = ntok a + 1 + ntok b := rfl
  have ht : renderToks (.bin op a b) ++ rest = renderToks a ++ (t :: (renderToks b ++ rest)) := by
    simp [renderToks, hbt]
  rw [ht]
  obtain ⟨g, rfl⟩ : ∃ g, f = g + 1 := ⟨f - 1, by omega⟩
  rw [parseCmp.eq_2, ha _ (a, _) 1 ((hFt _).mono (by omega)) (addLoop_stop' (hFt _).add a) g (by omega)]
  simp only [hct]
  rw [hb rest (b, rest) 1 (hF.mono (by omega)) (addLoop_stop' hF.add b) g (by omega)]

theorem S2_cmp {a b : PExpr} {op : BinOp} {t : Tok} (hbt : binTok op = some t)
    (hct : cmpOfTok t = some op) (hFt : ∀ r, Follow 3 (t :: r)) (ha : S3 a) (hb : S3 b) :
    S2 (.bin op a b) :=
  fun rest hF f hf => S2_cmp' hbt hct hFt ha hb rest (hF.mono (by omega)) f hf

theorem S3_add {a b : PExpr} {op : BinOp} {t : Tok} (hbt : binTok op = some t)
    (hct : addOfTok t = some op) (hFt : ∀ r, Follow 4 (t :: r)) (ha : S3 a) (hb : S4 b) :
    S3 (.bin op a b) := by
  intro rest res m hF hloop f hf
  have hn : ntok (.bin op a b) = ntok a + 1 + ntok b := rfl
  have ht : renderToks (.bin op a b) ++ rest = renderToks a ++ (t :: (renderToks b ++ rest)) := by
    simp [renderToks, hbt]
  rw [ht]
  refine ha _ res (m + 16 * ntok b + 14) (hFt _) ?_ f (by omega)
  intro f' hf'
  obtain ⟨g, rfl⟩ : ∃ g, f' = g + 1 := ⟨f' - 1, by omega⟩
  rw [addLoop.eq_2]
  simp only [hct]
  rw [hb rest (b, rest) 1 (hF.mono (by omega)) (mulLoop_stop' hF.mul b) g (by omega)]
  exact hloop g (by omega)

theorem S4_mul {a b : PExpr} {op : BinOp} {t : Tok} (hbt : binTok op = some t)
    (hct : mulOfTok t = some op) (hFt : ∀ r, Follow 5 (t :: r)) (ha : S4 a) (hb : S5 b) :
    S4 (.bin op a b) := by
  intro rest res m hF hloop f hf
  have hn : ntok (.bin op a b) = ntok a + 1 + ntok b := rfl
  have ht : renderToks (.bin op a b) ++ rest = renderToks a ++ (t :: (renderToks b ++ rest)) := by
    simp [renderToks, hbt]
  rw [ht]
  refine ha _ res (m + 16 * ntok b + 14) (hFt _) ?_ f (by omega)
  intro f' hf'
  obtain ⟨g, rfl⟩ : ∃ g, f' = g + 1 := ⟨f' - 1, by omega⟩
  rw [mulLoop.eq_2]
  simp only [hct]
  rw [hb rest (hF.mono (by omega)) g (by omega)]
  exact hloop g (by omega)

theorem S5_neg {e : PExpr} (h : S6 e) : S5 (.neg e) := by
  intro rest hF f hf
  have hn : ntok (.neg e) = ntok e + 1 := rfl
  have ht : renderToks (.neg e) ++ rest = .punct '!' :: (renderToks e ++ rest) := by
    simp [renderToks]
  rw [ht]
  obtain ⟨g, rfl⟩ : ∃ g, f = g + 1 := ⟨f - 1, by omega⟩
  rw [parseNot.eq_2, h rest (e, rest) 1 (methodLoop_stop' hF.dot e) g (by omega)]

theorem methodOfTok_methodTok {op : BinOp} (h : isMethOp op = true) :
    methodOfTok (methodTok op) = some (some op) := by
  cases op <;> first | rfl | (simp [isMethOp] at h)

theorem orStop_rparen (r : List Tok) : orStop (.punct ')' :: r) := by
  intro r' h; cases h

theorem Follow_rparen (k : Nat) (r : List Tok) : Follow k (.punct ')' :: r) := by
  simp [Follow, orStop, andStop, cmpStop, addStop, mulStop, dotStop, cmpOfTok, addOfTok, mulOfTok]

theorem S6_method {recv arg : PExpr} {op : BinOp} (hop : isMethOp op = true)
    (hr : S6 recv) (ha : S0 arg) : S6 (.method op recv arg) := by
  intro rest res m hloop f hf
  have hn : ntok (.method op recv arg) = ntok recv + ntok arg + 4 := rfl
  have ht : renderToks (.method op recv arg) ++ rest =
      renderToks recv ++ (.dot :: methodTok op :: .punct '(' :: (renderToks arg ++ (.punct ')' :: rest))) := by
    simp [renderToks]
  rw [ht]
  refine hr _ res (m + 16 * ntok arg + 17) ?_ f (by omega)
  intro f' hf'
  obtain ⟨g, rfl⟩ : ∃ g, f' = g + 1 := ⟨f' - 1, by omega⟩
  rw [methodLoop.eq_def]
  simp only [methodOfTok_methodTok hop]
  rw [ha (.punct ')' :: rest) (arg, .punct ')' :: rest) 1 (Follow_rparen 1 rest)
    (orLoop_stop' (orStop_rparen rest) arg) g (by omega)]
  exact hloop g (by omega)

theorem S6_length {recv : PExpr} (hr : S6 recv) : S6 (.length recv) := by
  intro rest res m hloop f hf
  have hn : ntok (.length recv) = ntok recv + 4 := rfl
  have ht : renderToks (.length recv) ++ rest =
      renderToks recv ++ (.dot :: .func "length" :: .punct '(' :: .punct ')' :: rest) := by
    simp [renderToks]
  rw [ht]
  refine hr _ res (m + 1) ?_ f (by omega)
  intro f' hf'
  obtain ⟨g, rfl⟩ : ∃ g, f' = g + 1 := ⟨f' - 1, by omega⟩
  rw [methodLoop.eq_def]
  simp only [methodOfTok]
  exact hloop g (by omega)

theorem S7_paren {e : PExpr} (h : S0 e) : S7 (.paren e) := by
  intro rest f hf
  have hn : ntok (.paren e) = ntok e + 2 := rfl
  have ht : renderToks (.paren e) ++ rest = .punct '(' :: (renderToks e ++ (.punct ')' :: rest)) := by
    simp [renderToks]
  rw [ht]
  obtain ⟨g, rfl⟩ : ∃ g, f = g + 1 := ⟨f - 1, by omega⟩
  rw [parseAtom.eq_2, h (.punct ')' :: rest) (e, .punct ')' :: rest) 1 (Follow_rparen 1 rest)
    (orLoop_stop' (orStop_rparen rest) e) g (by omega)]
  rfl

/-! ## Terms -/

/-- One non-set term as a token (the inner `match` of `renderTermToks`). -/
def atomToks : PTerm → List Tok
  | .param n => [Tok.param n] | .var n => [.var n] | .int ds => [.int ds]
  | .negInt ds => [.op "-", .int ds] | .str s => [.str s]
  | .date s => [.date s] | .bytes ds => [.hex ds] | .bool b => [.bool b] | .set _ => []

theorem renderTermToks_set (elts : List PTerm) :
    renderTermToks (.set elts) =
      [.punct '['] ++ renderTermToks.joinToks (elts.map atomToks) ++ [.punct ']'] := by
  rfl

theorem renderTermToks_atom {t : PTerm} (h : AtomOK t) : renderTermToks t = atomToks t := by
  cases t <;> first | rfl | exact absurd h (by simp [AtomOK])

theorem parseAtomTerm_atom {t : PTerm} (h : AtomOK t) (rest : List Tok) :
    parseAtomTerm (atomToks t ++ rest) = some (t, rest) := by
  cases t <;> first | rfl | exact absurd h (by simp [AtomOK])

def commaStop (rest : List Tok) : Prop := ∀ r, rest = .punct ',' :: r → False

theorem parseAtomList_join (elts : List PTerm) (hne : elts ≠ []) (hok : ∀ t ∈ elts, AtomOK t)
    (rest : List Tok) (hr : commaStop rest) (f : Nat) (hf : f ≥ elts.length) :
    parseAtomList f (renderTermToks.joinToks (elts.map atomToks) ++ rest) = some (elts, rest) := by
  induction elts generalizing f with
  | nil => exact absurd rfl hne
  | cons t ts ih =>
    obtain ⟨g, rfl⟩ : ∃ g, f = g + 1 := ⟨f - 1, by simp at hf; omega⟩
    have ht := hok t (by simp)
    cases ts with
    | nil =>
      simp only [List.map, renderTermToks.joinToks]
      rw [parseAtomList.eq_2, parseAtomTerm_atom ht]
      cases rest with
      | nil => rfl
      | cons x xs =>
        split
        · next heq => simp at heq
        · next heq =>
          simp only [Option.some.injEq, Prod.mk.injEq] at heq
          exact absurd heq.2 (fun h => hr _ h)
        · next heq => simp only [Option.some.injEq, Prod.mk.injEq] at heq; obtain ⟨rfl, rfl⟩ := heq; rfl
    | cons t' ts' =>
      have := ih (by simp) (fun x hx => hok x (by simp [hx])) g (by simp at hf ⊢; omega)
      simp only [List.map, renderTermToks.joinToks, List.append_assoc,
        List.cons_append] at this ⊢
      rw [parseAtomList.eq_2, parseAtomTerm_atom ht]
      simp only [List.nil_append, this]

theorem length_le_joinToks (elts : List PTerm) (hok : ∀ t ∈ elts, AtomOK t) :
    elts.length ≤ (renderTermToks.joinToks (elts.map atomToks)).length := by
  induction elts with
  | nil => simp
  | cons t ts ih =>
    have h1 : 1 ≤ (atomToks t).length := by
      have := hok t (by simp)
      cases t <;> first | exact Nat.le_refl _ | exact Nat.le_succ _ | exact absurd this (by simp [AtomOK])
    cases ts with
    | nil => simpa [renderTermToks.joinToks] using h1
    | cons t' ts' =>
      have := ih (fun x hx => hok x (by simp [hx]))
      simp only [List.map, renderTermToks.joinToks, List.length_append, List.length_cons,
        List.length_nil] at this ⊢
      omega

theorem S7_term {t : PTerm} (h : TermOK t) : S7 (.term t) := by
  intro rest f hf
  by_cases hs : AtomOK t
  · have hn : ntok (.term t) = 1 := by
      cases t <;> first | rfl | exact absurd hs (by simp [AtomOK])
    obtain ⟨g, rfl⟩ : ∃ g, f = g + 1 := ⟨f - 1, by omega⟩
    have hr : renderToks (.term t) = atomToks t := renderTermToks_atom hs
    rw [hr, parseAtom.eq_3, parseTerm.eq_2, parseAtomTerm_atom hs]
    · intro r hx; cases t <;> simp [atomToks] at hx; exact hs
    · intro r hx; cases t <;> simp [atomToks] at hx; exact hs
  · cases t with
    | set elts =>
      obtain ⟨hne, hok⟩ := h
      have hr : renderToks (.term (.set elts)) ++ rest =
          .punct '[' :: (renderTermToks.joinToks (elts.map atomToks) ++ (.punct ']' :: rest)) := by
        show renderTermToks (.set elts) ++ rest = _
        rw [renderTermToks_set]; simp
      have hn : ntok (.term (.set elts)) = elts.length + 2 := rfl
      obtain ⟨g, rfl⟩ : ∃ g, f = g + 1 := ⟨f - 1, by omega⟩
      rw [hr, parseAtom.eq_3, parseTerm.eq_1,
        parseAtomList_join elts hne hok _ (by intro r hx; simp at hx) g (by omega)]
      · rfl
      · intro r hx; simp at hx
    | _ => exact absurd trivial hs

theorem noBang_of_lvl (e : PExpr) (h : WFx e) (hl : 6 ≤ lvl e) : NoBang e := by
  induction e with
  | term t =>
    intro rest r hx
    cases t <;> simp [renderToks, renderTermToks] at hx
  | paren e _ => intro rest r hx; simp [renderToks] at hx
  | neg e _ => simp [lvl] at hl
  | bin op a b _ _ =>
    have : lvl (.bin op a b) ≤ 4 := h.2.2.1
    omega
  | method op recv arg ihr _ =>
    intro rest r hx
    have := ihr h.2.1 h.2.2.2
    simp only [renderToks, List.append_assoc] at hx
    exact this _ _ hx
  | length recv ihr =>
    intro rest r hx
    have := ihr h.1 h.2
    simp only [renderToks, List.append_assoc] at hx
    exact this _ _ hx

/-! ## All levels at once -/

structure Reads (e : PExpr) : Prop where
  s7 : 7 ≤ lvl e → S7 e
  s6 : 6 ≤ lvl e → S6 e
  s5 : 5 ≤ lvl e → S5 e
  s4 : 4 ≤ lvl e → S4 e
  s3 : 3 ≤ lvl e → S3 e
  s2 : 2 ≤ lvl e → S2 e
  s1 : 1 ≤ lvl e → S1 e
  s0 : S0 e

theorem Reads.of0 {e : PExpr} (hl : lvl e < 1) (h : S0 e) : Reads e :=
  ⟨fun _ => by omega, fun _ => by omega, fun _ => by omega, fun _ => by omega,
   fun _ => by omega, fun _ => by omega, fun _ => by omega, h⟩
theorem Reads.of1 {e : PExpr} (hl : lvl e < 2) (h : S1 e) : Reads e :=
  ⟨fun _ => by omega, fun _ => by omega, fun _ => by omega, fun _ => by omega,
   fun _ => by omega, fun _ => by omega, fun _ => h, S0_of_S1 h⟩
theorem Reads.of2 {e : PExpr} (hl : lvl e < 3) (h : S2 e) : Reads e :=
  ⟨fun _ => by omega, fun _ => by omega, fun _ => by omega, fun _ => by omega,
   fun _ => by omega, fun _ => h, fun _ => S1_of_S2 h, S0_of_S1 (S1_of_S2 h)⟩
theorem Reads.of3 {e : PExpr} (hl : lvl e < 4) (h : S3 e) : Reads e :=
  ⟨fun _ => by omega, fun _ => by omega, fun _ => by omega, fun _ => by omega,
   fun _ => h, fun _ => S2_of_S3 h, fun _ => S1_of_S2 (S2_of_S3 h), S0_of_S1 (S1_of_S2 (S2_of_S3 h))⟩
theorem Reads.of4 {e : PExpr} (hl : lvl e < 5) (h : S4 e) : Reads e :=
  have h3 := S3_of_S4 h
  ⟨fun _ => by omega, fun _ => by omega, fun _ => by omega, fun _ => h,
   fun _ => h3, fun _ => S2_of_S3 h3, fun _ => S1_of_S2 (S2_of_S3 h3), S0_of_S1 (S1_of_S2 (S2_of_S3 h3))⟩
theorem Reads.of5 {e : PExpr} (hl : lvl e < 6) (h : S5 e) : Reads e :=
  have h4 := S4_of_S5 h
  have h3 := S3_of_S4 h4
  ⟨fun _ => by omega, fun _ => by omega, fun _ => h, fun _ => h4,
   fun _ => h3, fun _ => S2_of_S3 h3, fun _ => S1_of_S2 (S2_of_S3 h3), S0_of_S1 (S1_of_S2 (S2_of_S3 h3))⟩
theorem Reads.of6 {e : PExpr} (hl : lvl e < 7) (nb : NoBang e) (h : S6 e) : Reads e :=
  have h5 := S5_of_S6 nb h
  have h4 := S4_of_S5 h5
  have h3 := S3_of_S4 h4
  ⟨fun _ => by omega, fun _ => h, fun _ => h5, fun _ => h4,
   fun _ => h3, fun _ => S2_of_S3 h3, fun _ => S1_of_S2 (S2_of_S3 h3), S0_of_S1 (S1_of_S2 (S2_of_S3 h3))⟩
theorem Reads.of7 {e : PExpr} (nb : NoBang e) (h : S7 e) : Reads e :=
  have h6 := S6_of_S7 h
  have h5 := S5_of_S6 nb h6
  have h4 := S4_of_S5 h5
  have h3 := S3_of_S4 h4
  ⟨fun _ => h, fun _ => h6, fun _ => h5, fun _ => h4,
   fun _ => h3, fun _ => S2_of_S3 h3, fun _ => S1_of_S2 (S2_of_S3 h3), S0_of_S1 (S1_of_S2 (S2_of_S3 h3))⟩

theorem follow_op (k : Nat) (s : String) (r : List Tok)
    (h2 : k ≤ 2 → cmpOfTok (.op s) = none) (h3 : k ≤ 3 → addOfTok (.op s) = none)
    (h4 : k ≤ 4 → mulOfTok (.op s) = none) (hk : 1 ≤ k) : Follow k (.op s :: r) := by
  refine ⟨fun h => by omega, fun _ r' h => (by cases h), fun h t r' hx => ?_, fun h t r' hx => ?_,
    fun h t r' hx => ?_, fun _ r' h => (by cases h)⟩
  · cases hx; exact h2 h
  · cases hx; exact h3 h
  · cases hx; exact h4 h

theorem follow_slash (r : List Tok) : Follow 5 (.punct '/' :: r) := by
  simp [Follow, dotStop]

/-- **Main lemma**: every well-formed tree is read back at every level up to its own. -/
theorem reads_of_WFx (e : PExpr) (h : WFx e) : Reads e := by
  induction e with
  | term t => exact Reads.of7 (noBang_of_lvl _ h (by simp [lvl])) (S7_term h)
  | paren e ih => exact Reads.of7 (noBang_of_lvl _ h (by simp [lvl])) (S7_paren (ih h).s0)
  | neg e ih => exact Reads.of5 (by simp [lvl]) (S5_neg ((ih h.1).s6 h.2))
  | method op recv arg ihr iha =>
    exact Reads.of6 (by simp [lvl]) (noBang_of_lvl _ h (by simp [lvl]))
      (S6_method h.1 ((ihr h.2.1).s6 h.2.2.2) (iha h.2.2.1).s0)
  | length recv ihr =>
    exact Reads.of6 (by simp [lvl]) (noBang_of_lvl _ h (by simp [lvl]))
      (S6_length ((ihr h.1).s6 h.2))
  | bin op a b iha ihb =>
    obtain ⟨wa, wb, h4, hc⟩ := h
    have ra := iha wa
    have rb := ihb wb
    rw [lvl_bin] at h4 hc
    cases op <;> simp [opLvl] at h4 hc
    · -- lt
      exact Reads.of2 (by simp [lvl]) (S2_cmp (t := .op "<") rfl rfl
        (fun r => follow_op 3 _ r (by omega) (fun _ => rfl) (fun _ => rfl) (by omega))
        (ra.s3 (by omega)) (rb.s3 (by omega)))
    · -- le
      exact Reads.of2 (by simp [lvl]) (S2_cmp (t := .op "<=") rfl rfl
        (fun r => follow_op 3 _ r (by omega) (fun _ => rfl) (fun _ => rfl) (by omega))
        (ra.s3 (by omega)) (rb.s3 (by omega)))
    · -- gt
      exact Reads.of2 (by simp [lvl]) (S2_cmp (t := .op ">") rfl rfl
        (fun r => follow_op 3 _ r (by omega) (fun _ => rfl) (fun _ => rfl) (by omega))
        (ra.s3 (by omega)) (rb.s3 (by omega)))
    · -- ge
      exact Reads.of2 (by simp [lvl]) (S2_cmp (t := .op ">=") rfl rfl
        (fun r => follow_op 3 _ r (by omega) (fun _ => rfl) (fun _ => rfl) (by omega))
        (ra.s3 (by omega)) (rb.s3 (by omega)))
    · -- eq
      exact Reads.of2 (by simp [lvl]) (S2_cmp (t := .op "==") rfl rfl
        (fun r => follow_op 3 _ r (by omega) (fun _ => rfl) (fun _ => rfl) (by omega))
        (ra.s3 (by omega)) (rb.s3 (by omega)))
    · -- add
      exact Reads.of3 (by simp [lvl]) (S3_add (t := .op "+") rfl rfl
        (fun r => follow_op 4 _ r (by omega) (by omega) (fun _ => rfl) (by omega))
        (ra.s3 (by omega)) (rb.s4 (by omega)))
    · -- sub
      exact Reads.of3 (by simp [lvl]) (S3_add (t := .op "-") rfl rfl
        (fun r => follow_op 4 _ r (by omega) (by omega) (fun _ => rfl) (by omega))
        (ra.s3 (by omega)) (rb.s4 (by omega)))
    · -- mul
      exact Reads.of4 (by simp [lvl]) (S4_mul (t := .op "*") rfl rfl
        (fun r => follow_op 5 _ r (by omega) (by omega) (by omega) (by omega))
        (ra.s4 (by omega)) (rb.s5 (by omega)))
    · -- div
      exact Reads.of4 (by simp [lvl]) (S4_mul (t := .punct '/') rfl rfl follow_slash
        (ra.s4 (by omega)) (rb.s5 (by omega)))
    · -- and
      exact Reads.of1 (by simp [lvl]) (S1_and (ra.s1 (by omega)) (rb.s2 (by omega)))
    · -- or
      exact Reads.of0 (by simp [lvl]) (S0_or ra.s0 (rb.s1 (by omega)))

/-- Level 0 with an ordinary follow condition, fuel by the measure `esize` (a signed integer
literal counts as one token). -/
theorem parseOr_render_size (e : PExpr) (h : WFx e) (rest : List Tok) (hr : Follow 0 rest)
    (fuel : Nat) (hf : fuel ≥ 16 * esize e + 15) :
    parseOr fuel (renderToks e ++ rest) = some (e, rest) :=
  (reads_of_WFx e h).s0 rest (e, rest) 1 (hr.mono (by omega)) (orLoop_stop' hr.or e) fuel
    (by simp only [ntok]; omega)

/-- The fuel measure never exceeds the number of rendered tokens. -/
theorem esize_le_length (e : PExpr) (h : WFx e) : esize e ≤ (renderToks e).length := by
  induction e with
  | term t =>
    cases t with
    | set elts =>
      have := length_le_joinToks elts h.2
      show elts.length + 2 ≤ (renderTermToks (.set elts)).length
      rw [renderTermToks_set]; simp; omega
    | negInt ds => exact Nat.le_succ _
    | _ => exact Nat.le_refl _
  | paren e ih => have := ih h; simp only [esize, renderToks, List.length_append, List.length_cons, List.length_nil]; omega
  | neg e ih => have := ih h.1; simp only [esize, renderToks, List.length_cons]; omega
  | bin op a b iha ihb =>
    have h1 := iha h.1
    have h2 := ihb h.2.1
    have h4 : lvl (.bin op a b) ≤ 4 := h.2.2.1
    have hb : ∃ t, binTok op = some t := by
      rw [lvl_bin] at h4
      cases op <;> first | exact ⟨_, rfl⟩ | (simp [opLvl] at h4)
    obtain ⟨t, ht⟩ := hb
    simp only [esize, renderToks, ht, List.length_append, List.length_cons, List.length_nil]; omega
  | method op recv arg ihr iha =>
    have h1 := ihr h.2.1
    have h2 := iha h.2.2.1
    simp only [esize, renderToks, List.length_append, List.length_cons, List.length_nil]; omega
  | length recv ihr =>
    have h1 := ihr h.1
    simp only [esize, renderToks, List.length_append, List.length_cons, List.length_nil]; omega

/-- Level 0 with an ordinary follow condition: the statement used by C14. -/
theorem parseOr_render (e : PExpr) (h : WFx e) (rest : List Tok) (hr : Follow 0 rest)
    (fuel : Nat) (hf : fuel ≥ 16 * (renderToks e).length + 15) :
    parseOr fuel (renderToks e ++ rest) = some (e, rest) :=
  parseOr_render_size e h rest hr fuel (by have := esize_le_length e h; omega)

/-! ## Atoms, and the chained comparison -/

theorem termOK_of_atomOK {t : PTerm} (h : AtomOK t) : TermOK t := by
  cases t <;> first | trivial | exact absurd h id

/-- An atom is one token, a signed integer literal two (`-` and the digits). -/
theorem length_renderTermToks_atom {t : PTerm} (h : AtomOK t) :
    1 ≤ (renderTermToks t).length ∧ (renderTermToks t).length ≤ 2 := by
  cases t <;> first | exact ⟨Nat.le_refl _, Nat.le_succ _⟩ | exact ⟨Nat.le_succ _, Nat.le_refl _⟩ | exact absurd h id

/-- For the fuel every atom counts as one token. -/
theorem esize_term_atom {t : PTerm} (h : AtomOK t) : esize (.term t) = 1 := by
  cases t <;> first | rfl | exact absurd h id

theorem reads_atom {t : PTerm} (h : AtomOK t) : Reads (.term t) :=
  reads_of_WFx (.term t) (termOK_of_atomOK h)

theorem cmpOfTok_cases {t : Tok} (h : (cmpOfTok t).isSome) :
    t = .op "<=" ∨ t = .op ">=" ∨ t = .op "<" ∨ t = .op ">" ∨ t = .op "==" := by
  unfold cmpOfTok at h
  split at h <;> simp_all

theorem binTok_of_cmpOfTok {t : Tok} {op : BinOp} (h : cmpOfTok t = some op) : binTok op = some t := by
  have hs : (cmpOfTok t).isSome := by simp [h]
  rcases cmpOfTok_cases hs with rfl | rfl | rfl | rfl | rfl <;>
    (simp [cmpOfTok] at h; subst h; rfl)

theorem follow3_of_cmp {t : Tok} (h : (cmpOfTok t).isSome) (r : List Tok) : Follow 3 (t :: r) := by
  rcases cmpOfTok_cases h with rfl | rfl | rfl | rfl | rfl <;>
    exact follow_op 3 _ r (by omega) (fun _ => rfl) (fun _ => rfl) (by omega)

/-- `a op1 b op2 c ;` after `check if`: the expression parser stops before `op2`, and nothing
above it accepts a comparison operator. -/
theorem chained_cmp_rejected (a b c : PTerm) (ha : AtomOK a) (hb : AtomOK b) (_hc : AtomOK c)
    (op1 op2 : Tok) (h1 : (cmpOfTok op1).isSome) (h2 : (cmpOfTok op2).isSome) (pol : Bool)
    (f : Nat) (hf : f ≥ 64) :
    parseItems (f + 7) pol (.keyword "check if" :: (renderTermToks a ++ op1 ::
      (renderTermToks b ++ op2 :: (renderTermToks c ++ [.punct ';'])))) = none := by
  obtain ⟨o1, ho1⟩ := Option.isSome_iff_exists.mp h1
  have hb1 := binTok_of_cmpOfTok ho1
  have hF2 := follow3_of_cmp h2 (renderTermToks c ++ [.punct ';'])
  have la := esize_term_atom ha
  have lb := esize_term_atom hb
  have hrend : renderToks (.bin o1 (.term a) (.term b)) = renderTermToks a ++ op1 :: renderTermToks b := by
    simp [renderToks, hb1]
  have hcmp := S2_cmp' hb1 ho1 (follow3_of_cmp h1) ((reads_atom ha).s3 (by simp [lvl]))
    ((reads_atom hb).s3 (by simp [lvl])) _ hF2 (f + 2) (by simp only [ntok, esize, la, lb]; omega)
  simp only [hrend, List.append_assoc, List.cons_append] at hcmp
  have hand : andStop (op2 :: (renderTermToks c ++ [.punct ';'])) := by
    rcases cmpOfTok_cases h2 with rfl | rfl | rfl | rfl | rfl <;> (intro r h; cases h)
  have hor : orStop (op2 :: (renderTermToks c ++ [.punct ';'])) := by
    rcases cmpOfTok_cases h2 with rfl | rfl | rfl | rfl | rfl <;> (intro r h; cases h)
  have hparseAnd : parseAnd (f + 3) (renderTermToks a ++ op1 :: (renderTermToks b ++ op2 ::
      (renderTermToks c ++ [.punct ';']))) = some (.bin o1 (.term a) (.term b), op2 :: (renderTermToks c ++ [.punct ';'])) := by
    rw [parseAnd.eq_2, hcmp]; exact andLoop_stop hand (f + 1) _
  have hparseOr : parseOr (f + 4) (renderTermToks a ++ op1 :: (renderTermToks b ++ op2 ::
      (renderTermToks c ++ [.punct ';']))) = some (.bin o1 (.term a) (.term b), op2 :: (renderTermToks c ++ [.punct ';'])) := by
    rw [parseOr.eq_2, hparseAnd]; exact orLoop_stop hor (f + 2) _
  have helem : parseElem (f + 4) (renderTermToks a ++ op1 :: (renderTermToks b ++ op2 ::
      (renderTermToks c ++ [.punct ';']))) = some (.expr (.bin o1 (.term a) (.term b)), op2 :: (renderTermToks c ++ [.punct ';'])) := by
    rw [parseElem.eq_2, hparseOr]; rfl
    intro n r hx
    cases a <;> first | exact absurd ha id | simp [renderTermToks] at hx
  rw [parseItems.eq_3 _ _ _ (by simp), parseItem.eq_1, parseQueries.eq_2, parseElems.eq_2, helem]
  rcases cmpOfTok_cases h2 with rfl | rfl | rfl | rfl | rfl <;> rfl

end Biscuit.Grammar
