/-
Proofs/Expr — helper lemmas for C06.
-/
import BiscuitModel.Model.Expr

namespace Biscuit

/-! ## Outcome -/

theorem Outcome.isPanic_bind {α β : Type} {x : Outcome α} {f : α → Outcome β}
    (hx : x.isPanic = false) (hf : ∀ a, (f a).isPanic = false) :
    (x.bind f).isPanic = false := by
  cases x with
  | ok a => exact hf a
  | err e => rfl
  | panic s => cases hx

theorem Outcome.bind_eq_ok {α β : Type} {x : Outcome α} {f : α → Outcome β} {b : β}
    (h : x.bind f = .ok b) : ∃ a, x = .ok a ∧ f a = .ok b := by
  cases x with
  | ok a => exact ⟨a, rfl, h⟩
  | err e => cases h
  | panic s => cases h

/-! ## No panics -/

theorem boolV_no_panic (b : Bool) : (boolV b).isPanic = false := rfl

theorem checkedInt_no_panic (x : Int) : (checkedInt x).isPanic = false := by
  unfold checkedInt; split <;> rfl

theorem evalUnary_no_panic (u : UnOp) (v : Val) : (evalUnary u v).isPanic = false := by
  cases u <;> cases v <;> (try (rename_i a; cases a)) <;> rfl

theorem evalCompare_no_panic (cmpI : Int → Int → Bool) (cmpN : Nat → Nat → Bool) (l r : Val) :
    (evalCompare cmpI cmpN l r).isPanic = false := by
  cases l <;> cases r <;> (try (rename_i a b; cases a <;> cases b)) <;> rfl

theorem evalEqual_no_panic (cfg : EvalCfg) (hs : cfg.sets = .loops) (l r : Val) :
    (evalEqual cfg l r).isPanic = false := by
  cases l <;> cases r <;> simp only [evalEqual, hs]
  · split <;> rfl
  · rfl
  · rfl
  · rfl

theorem pinnedSetGuard_loops (cfg : EvalCfg) (hs : cfg.sets = .loops) (s t : List Atom)
    (k : Outcome Val) : pinnedSetGuard cfg s t k = k := by
  simp [pinnedSetGuard, hs]

theorem evalBinary_no_panic (cfg : EvalCfg) (hs : cfg.sets = .loops) (op : BinOp) (l r : Val) :
    (evalBinary cfg op l r).isPanic = false := by
  cases op
  case lt => exact evalCompare_no_panic _ _ l r
  case le => exact evalCompare_no_panic _ _ l r
  case gt => exact evalCompare_no_panic _ _ l r
  case ge => exact evalCompare_no_panic _ _ l r
  case eq => exact evalEqual_no_panic cfg hs l r
  case regex =>
    cases l <;> cases r <;> (try (rename_i a b; cases a <;> cases b)) <;> try rfl
    simp only [evalBinary]
    split <;> rfl
  case div =>
    cases l <;> cases r <;> (try (rename_i a b; cases a <;> cases b)) <;> try rfl
    simp only [evalBinary]
    split
    · rfl
    · split
      · exact checkedInt_no_panic _
      · rfl
  all_goals
    cases l <;> cases r <;> (try (rename_i a b; cases a <;> (try cases b))) <;>
      first
        | rfl
        | exact checkedInt_no_panic _
        | (simp only [evalBinary, pinnedSetGuard_loops cfg hs]; rfl)

theorem push_no_panic (st : List Val) (v : Val) : (push st v).isPanic = false := by
  unfold push; split <;> rfl

theorem stepOp_no_panic (cfg : EvalCfg) (hs : cfg.sets = .loops) (σ : Bindings Val)
    (st : List Val) (op : Op) : (stepOp cfg σ st op).isPanic = false := by
  cases op with
  | value t =>
    cases t with
    | const v => exact push_no_panic st v
    | var n =>
      simp only [stepOp]
      split
      · rfl
      · exact push_no_panic st _
  | unary u =>
    cases st with
    | nil => rfl
    | cons v rest =>
      exact Outcome.isPanic_bind (evalUnary_no_panic u v) (push_no_panic rest)
  | binary b =>
    match st with
    | [] => rfl
    | [_] => rfl
    | r :: l :: rest =>
      exact Outcome.isPanic_bind (evalBinary_no_panic cfg hs b l r) (push_no_panic rest)

theorem runOps_no_panic (cfg : EvalCfg) (hs : cfg.sets = .loops) (σ : Bindings Val)
    (ops : List Op) : ∀ st, (runOps cfg σ ops st).isPanic = false := by
  induction ops with
  | nil => intro st; rfl
  | cons op ops ih =>
    intro st
    exact Outcome.isPanic_bind (stepOp_no_panic cfg hs σ st op) ih

/-! ## Stack depth -/

theorem push_ok {st st1 : List Val} {v : Val} (h : push st v = .ok st1) :
    st.length < maxStackSize ∧ st1 = v :: st := by
  unfold push at h
  split at h
  · cases h
  · cases h; exact ⟨by omega, rfl⟩

/-- Local copy of the depth function of `Props/C06` (same equations), so that the
helper lemmas can be stated here. -/
def depthAfter' : List Op → Nat → Option Nat
  | [], d => some d
  | .value _ :: ops, d => if d ≥ maxStackSize then none else depthAfter' ops (d + 1)
  | .unary _ :: ops, d => if d = 0 then none else depthAfter' ops d
  | .binary _ :: ops, d => if d < 2 then none else depthAfter' ops (d - 1)

theorem stepOp_ok_depth (cfg : EvalCfg) (σ : Bindings Val) (ops : List Op) {st st1 : List Val}
    {op : Op} (h : stepOp cfg σ st op = .ok st1) :
    depthAfter' (op :: ops) st.length = depthAfter' ops st1.length := by
  cases op with
  | value t =>
    have hp : ∃ v, push st v = .ok st1 := by
      cases t with
      | const v => exact ⟨v, h⟩
      | var n =>
        simp only [stepOp] at h
        split at h
        · cases h
        · exact ⟨_, h⟩
    obtain ⟨v, hv⟩ := hp
    obtain ⟨hl, rfl⟩ := push_ok hv
    have : ¬ st.length ≥ maxStackSize := by omega
    simp [depthAfter', this]
  | unary u =>
    cases st with
    | nil => cases h
    | cons v rest =>
      obtain ⟨w, _, hw⟩ := Outcome.bind_eq_ok h
      obtain ⟨_, rfl⟩ := push_ok hw
      simp [depthAfter']
  | binary b =>
    match st, h with
    | [], h => cases h
    | [_], h => cases h
    | r :: l :: rest, h =>
      obtain ⟨w, _, hw⟩ := Outcome.bind_eq_ok h
      obtain ⟨_, rfl⟩ := push_ok hw
      have : ¬ (rest.length + 1 + 1 < 2) := by omega
      simp [depthAfter', this]

theorem runOps_ok_depth (cfg : EvalCfg) (σ : Bindings Val) (ops : List Op) :
    ∀ st st', runOps cfg σ ops st = .ok st' → depthAfter' ops st.length = some st'.length := by
  induction ops with
  | nil => intro st st' h; cases h; rfl
  | cons op ops ih =>
    intro st st' h
    obtain ⟨st1, h1, h2⟩ := Outcome.bind_eq_ok h
    rw [stepOp_ok_depth cfg σ ops h1]
    exact ih st1 st' h2

theorem eval_ok_depth (cfg : EvalCfg) (σ : Bindings Val) (e : Expr) (v : Val)
    (h : eval cfg σ e = .ok v) : depthAfter' e 0 = some 1 := by
  obtain ⟨st, h1, h2⟩ := Outcome.bind_eq_ok h
  have := runOps_ok_depth cfg σ e [] st h1
  match st, h2 with
  | [w], _ => exact this
  | [], h2 => cases h2
  | _ :: _ :: _, h2 => cases h2

theorem eval_no_panic' (cfg : EvalCfg) (hs : cfg.sets = .loops) (σ : Bindings Val) (e : Expr) :
    (eval cfg σ e).isPanic = false := by
  refine Outcome.isPanic_bind (runOps_no_panic cfg hs σ e []) ?_
  intro st
  match st with
  | [] => rfl
  | [_] => rfl
  | _ :: _ :: _ => rfl

theorem runOps_append (cfg : EvalCfg) (σ : Bindings Val) (a b : List Op) :
    ∀ st, runOps cfg σ (a ++ b) st = (runOps cfg σ a st).bind (runOps cfg σ b) := by
  induction a with
  | nil => intro st; rfl
  | cons op a ih =>
    intro st
    simp only [List.cons_append, runOps]
    cases stepOp cfg σ st op with
    | ok st1 => exact ih st1
    | err e => rfl
    | panic s => rfl

theorem stepOp_unbound (cfg : EvalCfg) (σ : Bindings Val) (n : Bytes) (h : σ.lookup n = none)
    (st : List Val) : stepOp cfg σ st (.value (.var n)) = .err .unknownVar := by
  simp [stepOp, h]

/-! ## Sets -/

theorem subset_of_nodup_of_length_le : ∀ {s t : List Atom}, s.Nodup → (∀ x ∈ s, x ∈ t) →
    t.length ≤ s.length → ∀ x ∈ t, x ∈ s := by
  intro s
  induction s with
  | nil =>
    intro t _ _ hl x hx
    cases t with
    | nil => exact hx
    | cons _ _ => simp at hl
  | cons a s ih =>
    intro t hs hst hl x hx
    obtain ⟨has, hs'⟩ := List.nodup_cons.mp hs
    have hat : a ∈ t := hst a (List.mem_cons_self ..)
    have hsub : ∀ y ∈ s, y ∈ t.erase a := by
      intro y hy
      have hne : y ≠ a := by intro e; subst e; exact has hy
      exact (List.mem_erase_of_ne hne).mpr (hst y (List.mem_cons_of_mem _ hy))
    have hlen : (t.erase a).length ≤ s.length := by
      rw [List.length_erase_of_mem hat]; simp at hl; omega
    by_cases hxa : x = a
    · subst hxa; exact List.mem_cons_self ..
    · exact List.mem_cons_of_mem _ (ih hs' hsub hlen x ((List.mem_erase_of_ne hxa).mpr hx))

theorem length_le_of_nodup_subset : ∀ {s t : List Atom}, s.Nodup → (∀ x ∈ s, x ∈ t) →
    s.length ≤ t.length := by
  intro s
  induction s with
  | nil => intros; simp
  | cons a s ih =>
    intro t hs hst
    obtain ⟨has, hs'⟩ := List.nodup_cons.mp hs
    have hat : a ∈ t := hst a (List.mem_cons_self ..)
    have hsub : ∀ y ∈ s, y ∈ t.erase a := by
      intro y hy
      have hne : y ≠ a := by intro e; subst e; exact has hy
      exact (List.mem_erase_of_ne hne).mpr (hst y (List.mem_cons_of_mem _ hy))
    have := ih hs' hsub
    rw [List.length_erase_of_mem hat] at this
    have : 0 < t.length := List.length_pos_of_mem hat
    simp; omega

theorem setEqual_iff (s t : List Atom) :
    setEqual s t = true ↔ s.length = t.length ∧ (∀ x ∈ s, x ∈ t) ∧ (∀ x ∈ t, x ∈ s) := by
  simp [setEqual, and_assoc]

/-! ## Typing -/

theorem checkedInt_ne_type (x : Int) : checkedInt x ≠ .err .type := by
  unfold checkedInt; split <;> simp

theorem checkedInt_eq (x : Int) :
    checkedInt x = if inI64 x then .ok (.atom (.int x)) else .err .overflow := rfl

/-! ## Strings, 64-bit division -/

theorem bytesContains_iff (a b : Bytes) : bytesContains a b = true ↔ ∃ p q, a = p ++ b ++ q := by
  induction a with
  | nil =>
    simp only [bytesContains]
    constructor
    · intro h
      have : b = [] := by simpa using h
      exact ⟨[], [], by simp [this]⟩
    · rintro ⟨p, q, h⟩
      have h' := h.symm
      simp at h'
      simp [h'.2.1]
  | cons x xs ih =>
    simp only [bytesContains, Bool.or_eq_true, ih, List.isPrefixOf_iff_prefix]
    constructor
    · rintro (⟨q, hq⟩ | ⟨p, q, h⟩)
      · exact ⟨[], q, by simp [hq]⟩
      · exact ⟨x :: p, q, by simp [h]⟩
    · rintro ⟨p, q, h⟩
      cases p with
      | nil => left; exact ⟨q, by simpa using h.symm⟩
      | cons y p =>
        right
        simp at h
        exact ⟨p, q, by simp [h.2]⟩

theorem wrapI64_of_inI64 (x : Int) (h : inI64 x = true) : wrapI64 x = x := by
  rw [inI64_iff] at h
  unfold wrapI64
  rw [BitVec.toInt_ofInt]
  apply Int.bmod_eq_of_le <;> simp [i64Min, i64Max] at h ⊢ <;> omega

theorem toInt_ofInt_of_inI64 (x : Int) (h : inI64 x = true) : (BitVec.ofInt 64 x).toInt = x :=
  wrapI64_of_inI64 x h

theorem tdiv_inI64 (a b : Int) (ha : inI64 a = true) (hb0 : b ≠ 0)
    (h : ¬ (a = i64Min ∧ b = -1)) : inI64 (Int.tdiv a b) = true := by
  rw [inI64_iff] at ha ⊢
  simp only [i64Min, i64Max] at ha h ⊢
  have hq := Int.natAbs_tdiv a b
  have hle : (Int.tdiv a b).natAbs ≤ a.natAbs := by
    rw [hq]; exact Nat.div_le_self _ _
  by_cases h1 : b.natAbs = 1
  · -- b = 1 or b = -1
    have hb : b = 1 ∨ b = -1 := by omega
    rcases hb with rfl | rfl
    · simp; omega
    · have : a ≠ -9223372036854775808 := fun e => h ⟨e, rfl⟩
      simp; omega
  · have h2 : 1 < b.natAbs := by omega
    by_cases ha0 : a.natAbs = 0
    · have : a = 0 := by omega
      subst this; simp
    · have : (Int.tdiv a b).natAbs < a.natAbs := by
        rw [hq]; exact Nat.div_lt_self (by omega) h2
      omega


theorem intMin64_toInt : (BitVec.intMin 64).toInt = i64Min := by decide

theorem negOne64_toInt : (-1#64 : BitVec 64).toInt = -1 := by decide

theorem machine_div_guard (a b : Int) (ha : inI64 a = true) (hb : inI64 b = true)
    (h : ¬ (a = i64Min ∧ b = -1)) :
    BitVec.ofInt 64 a ≠ BitVec.intMin 64 ∨ BitVec.ofInt 64 b ≠ -1#64 := by
  by_cases h1 : a = i64Min
  · right
    intro e
    have := congrArg BitVec.toInt e
    rw [toInt_ofInt_of_inI64 b hb, negOne64_toInt] at this
    exact h ⟨h1, this⟩
  · left
    intro e
    have := congrArg BitVec.toInt e
    rw [toInt_ofInt_of_inI64 a ha, intMin64_toInt] at this
    exact h1 this

theorem wrap_tdiv_eq_sdiv (a b : Int) (ha : inI64 a = true) (hb : inI64 b = true) (hb0 : b ≠ 0) :
    wrapI64 (Int.tdiv a b) = ((BitVec.ofInt 64 a).sdiv (BitVec.ofInt 64 b)).toInt := by
  by_cases hc : a = i64Min ∧ b = -1
  · obtain ⟨rfl, rfl⟩ := hc
    decide
  · rw [BitVec.toInt_sdiv_of_ne_or_ne _ _ (machine_div_guard a b ha hb hc),
      toInt_ofInt_of_inI64 a ha, toInt_ofInt_of_inI64 b hb,
      wrapI64_of_inI64 _ (tdiv_inI64 a b ha hb0 hc)]

end Biscuit
