/-
Proofs/Expr — helper lemmas for C06.
-/
import BiscuitModel.Model.Expr

namespace Biscuit

end Biscuit
