/-
Proofs/Perm — helper lemmas for C12 (order independence).
-/
import BiscuitModel.Proofs.Decision
import BiscuitModel.Proofs.Authorizer

namespace Biscuit

end Biscuit
