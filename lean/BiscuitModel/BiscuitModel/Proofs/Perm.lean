/-
Proofs/Perm — helper lemmas for C12 (order independence).

The engine is characterised by *membership*: whether a rule application, a round or
a run errs depends only on the set of facts and the set of rules it is given, and so
does the set of facts it produces. Duplicate-free lists with the same members are
permutations of each other (`List.perm_ext_iff_of_nodup`).
-/
import BiscuitModel.Proofs.Decision
import BiscuitModel.Proofs.Authorizer

namespace Biscuit

set_option linter.unusedSectionVars false

/-! ### Engine -/

section Engine
variable {V E : Type} [DecidableEq V]

theorem solve_mem_mono {S S' : List (Fact V)} (h : ∀ f ∈ S, f ∈ S') :
    ∀ (body : List (Pred V)) (σ τ : Bindings V), τ ∈ solve S body σ → τ ∈ solve S' body σ := by
  intro body
  induction body with
  | nil => intro σ τ hτ; simpa [solve] using hτ
  | cons p ps ih =>
    intro σ τ hτ
    simp only [solve, List.mem_flatMap] at hτ ⊢
    obtain ⟨f, hf, hτ⟩ := hτ
    refine ⟨f, h f hf, ?_⟩
    cases hu : unifyPred p f σ with
    | none => simp [hu] at hτ
    | some σ₁ =>
      rw [hu] at hτ
      exact ih σ₁ τ hτ

theorem solve_mem_congr {S S' : List (Fact V)} (h : ∀ f, f ∈ S ↔ f ∈ S')
    (body : List (Pred V)) (σ τ : Bindings V) : τ ∈ solve S body σ ↔ τ ∈ solve S' body σ :=
  ⟨solve_mem_mono (fun f => (h f).mp) body σ τ, solve_mem_mono (fun f => (h f).mpr) body σ τ⟩

/-- A combination the consumer loop of `Rule.Apply` gets past without aborting. -/
def comboOk (ev : Bindings V → E → Outcome Bool) (r : Rule V E) (σ : Bindings V) : Bool :=
  match checkExprs ev σ r.exprs with
  | .err _ => false
  | .panic _ => false
  | .ok false => true
  | .ok true => (substHead r.head σ).isSome

/-- The consumer loop aborts iff *some* combination aborts: independent of the order
of the combinations and of the accumulator. -/
theorem applyCombos_ok_iff (ev : Bindings V → E → Outcome Bool) (r : Rule V E) :
    ∀ (cs : List (Bindings V)) (acc : List (Fact V)),
    (applyCombos ev r cs acc).2 = none ↔ ∀ σ ∈ cs, comboOk ev r σ = true := by
  intro cs
  induction cs with
  | nil => intro acc; simp [applyCombos]
  | cons σ rest ih =>
    intro acc
    simp only [applyCombos, List.forall_mem_cons, comboOk]
    cases hc : checkExprs ev σ r.exprs with
    | err c => simp
    | panic s => simp
    | ok b =>
      cases b with
      | false => simpa [comboOk] using ih acc
      | true =>
        cases hs : substHead r.head σ with
        | none => simp
        | some f => simpa [comboOk] using ih (insertFact acc f)

theorem applyCombos_nodup (ev : Bindings V → E → Outcome Bool) (r : Rule V E) :
    ∀ (cs : List (Bindings V)) (acc : List (Fact V)), acc.Nodup →
    (applyCombos ev r cs acc).1.Nodup := by
  intro cs
  induction cs with
  | nil => intro acc h; simpa [applyCombos] using h
  | cons σ rest ih =>
    intro acc h
    simp only [applyCombos]
    split
    · exact h
    · exact h
    · exact ih acc h
    · split
      · exact h
      · exact ih _ (nodup_insertFact acc _ h)

theorem applyRule_ok_iff (ev : Bindings V → E → Outcome Bool) (r : Rule V E)
    (S acc : List (Fact V)) :
    (applyRule ev r S acc).2 = none ↔ ∀ σ ∈ solve S r.body [], comboOk ev r σ = true :=
  applyCombos_ok_iff ev r _ acc

/-- Whether a rule application errs depends only on the set of facts it reads. -/
theorem applyRule_ok_congr (ev : Bindings V → E → Outcome Bool) (r : Rule V E)
    {S S' : List (Fact V)} (h : ∀ f, f ∈ S ↔ f ∈ S') (acc acc' : List (Fact V)) :
    (applyRule ev r S acc).2 = none ↔ (applyRule ev r S' acc').2 = none := by
  rw [applyRule_ok_iff, applyRule_ok_iff]
  constructor
  · intro hh σ hσ; exact hh σ ((solve_mem_congr h _ _ _).mpr hσ)
  · intro hh σ hσ; exact hh σ ((solve_mem_congr h _ _ _).mp hσ)

theorem eq_pair_none {α β : Type} (p : α × Option β) (h : p.2 = none) : p = (p.1, none) :=
  Prod.ext rfl h

theorem stepAll_ok_iff (ev : Bindings V → E → Outcome Bool) (S : List (Fact V)) :
    ∀ (P : List (Rule V E)) (acc : List (Fact V)),
    (stepAll ev S P acc).2 = none ↔
      ∀ r ∈ P, ∀ σ ∈ solve S r.body [], comboOk ev r σ = true := by
  intro P
  induction P with
  | nil => intro acc; simp [stepAll]
  | cons r rs ih =>
    intro acc
    simp only [stepAll, List.forall_mem_cons]
    rw [← applyRule_ok_iff ev r S acc]
    cases hr : applyRule ev r S acc with
    | mk acc' e =>
      cases e with
      | none => simpa using ih acc'
      | some e => simp

theorem Sat.congr {ev : Bindings V → E → Outcome Bool} {r : Rule V E} {S S' : List (Fact V)}
    (h : ∀ f, f ∈ S ↔ f ∈ S') (σ : Bindings V) : Sat ev r S σ ↔ Sat ev r S' σ := by
  constructor
  · intro hs
    exact ⟨fun p hp => (hs.body p hp).imp fun g hg => ⟨hg.1, (h g).mp hg.2⟩, hs.dom, hs.exprs⟩
  · intro hs
    exact ⟨fun p hp => (hs.body p hp).imp fun g hg => ⟨hg.1, (h g).mpr hg.2⟩, hs.dom, hs.exprs⟩

/-- One round over the same set of facts and the same set of rules: errs or not
alike, and derives the same set of new facts. -/
theorem stepAll_congr (ev : Bindings V → E → Outcome Bool) (hev : EvRespects ev)
    {S S' : List (Fact V)} {P P' : List (Rule V E)}
    (hS : ∀ f, f ∈ S ↔ f ∈ S') (hP : ∀ r, r ∈ P ↔ r ∈ P') (new : List (Fact V))
    (h : stepAll ev S P [] = (new, none)) :
    ∃ new', stepAll ev S' P' [] = (new', none) ∧ ∀ f, f ∈ new ↔ f ∈ new' := by
  have hok : (stepAll ev S' P' []).2 = none := by
    rw [stepAll_ok_iff]
    have h0 : (stepAll ev S P []).2 = none := by rw [h]
    rw [stepAll_ok_iff] at h0
    intro r hr σ hσ
    exact h0 r ((hP r).mpr hr) σ ((solve_mem_congr hS _ _ _).mpr hσ)
  refine ⟨(stepAll ev S' P' []).1, eq_pair_none _ hok, fun f => ?_⟩
  rw [stepAll_spec ev hev S P [] new h f,
    stepAll_spec ev hev S' P' [] _ (eq_pair_none _ hok) f]
  constructor
  · rintro (h' | ⟨r, hr, σ, hs, hh⟩)
    · exact Or.inl h'
    · exact Or.inr ⟨r, (hP r).mp hr, σ, (Sat.congr hS σ).mp hs, hh⟩
  · rintro (h' | ⟨r, hr, σ, hs, hh⟩)
    · exact Or.inl h'
    · exact Or.inr ⟨r, (hP r).mpr hr, σ, (Sat.congr hS σ).mpr hs, hh⟩

theorem length_eq_of_nodup_mem {α : Type} [DecidableEq α] {l l' : List α}
    (h : l.Nodup) (h' : l'.Nodup) (hm : ∀ a, a ∈ l ↔ a ∈ l') : l.length = l'.length :=
  ((List.perm_ext_iff_of_nodup h h').mpr hm).length_eq

/-- A run over the same set of facts (both presentations duplicate-free) and the same
set of rules succeeds alike and derives the same set of facts. -/
theorem run_congr (ev : Bindings V → E → Outcome Bool) (hev : EvRespects ev)
    (mf : Nat) {P P' : List (Rule V E)} (hP : ∀ r, r ∈ P ↔ r ∈ P') :
    ∀ (n : Nat) (F F' W : List (Fact V)), F.Nodup → F'.Nodup → (∀ f, f ∈ F ↔ f ∈ F') →
    run ev mf P n F = (W, none) →
    ∃ W', run ev mf P' n F' = (W', none) ∧ W'.Nodup ∧ ∀ f, f ∈ W ↔ f ∈ W' := by
  intro n
  induction n with
  | zero => intro F F' W _ _ _ h; simp [run] at h
  | succ n ih =>
    intro F F' W hn hn' hF h
    simp only [run] at h
    split at h
    · simp at h
    · next new hs =>
      obtain ⟨new', hs', hnew⟩ := stepAll_congr ev hev hF hP new hs
      have hN := nodup_insertAll new F hn
      have hN' := nodup_insertAll new' F' hn'
      have hmem : ∀ f, f ∈ insertAll F new ↔ f ∈ insertAll F' new' := by
        intro f
        rw [mem_insertAll, mem_insertAll, hF f, hnew f]
      have hlen := length_eq_of_nodup_mem hN hN' hmem
      have hlenF := length_eq_of_nodup_mem hn hn' hF
      simp only [run, hs']
      rw [← hlen, ← hlenF]
      split at h
      · simp at h
      · next hlt =>
        rw [if_neg hlt]
        split at h
        · next heq =>
          rw [if_pos heq]
          simp only [Prod.mk.injEq, and_true] at h
          subst h
          exact ⟨_, rfl, hN', hmem⟩
        · next hne =>
          rw [if_neg hne]
          exact ih _ _ W hN hN' hmem h

theorem insertFact_of_mem (s : List (Fact V)) (g : Fact V) (h : g ∈ s) : insertFact s g = s := by
  unfold insertFact
  rw [if_pos (by simpa using h)]

theorem insertAll_of_subset : ∀ (new s : List (Fact V)), (∀ f ∈ new, f ∈ s) → insertAll s new = s
  | [], s, _ => rfl
  | g :: gs, s, h => by
    rw [insertAll, insertFact_of_mem s g (h g (List.mem_cons_self ..))]
    exact insertAll_of_subset gs s (fun f hf => h f (List.mem_cons_of_mem _ hf))

/-- Running again from the result of a successful run, with a subset of the rules,
stops after one round and returns the very same list. -/
theorem run_again (ev : Bindings V → E → Outcome Bool) (hev : EvRespects ev)
    (mf : Nat) (P P' : List (Rule V E)) (hP : ∀ r ∈ P', r ∈ P) (n : Nat) (F W : List (Fact V))
    (h : run ev mf P n F = (W, none)) : run ev mf P' n W = (W, none) := by
  cases n with
  | zero => simp [run] at h
  | succ n =>
    obtain ⟨new, hs, hnew⟩ := run_fixpoint ev mf P (n + 1) F W h
    have hlt := run_ok_lt ev mf P (n + 1) F W h
    have hok : (stepAll ev W P' []).2 = none := by
      rw [stepAll_ok_iff]
      have h0 : (stepAll ev W P []).2 = none := by rw [hs]
      rw [stepAll_ok_iff] at h0
      intro r hr σ hσ
      exact h0 r (hP r hr) σ hσ
    have hs' := eq_pair_none _ hok
    have hsub : ∀ f ∈ (stepAll ev W P' []).1, f ∈ W := by
      intro f hf
      rw [stepAll_spec ev hev W P' [] _ hs' f] at hf
      rcases hf with hf | ⟨r, hr, σ, hsat, hh⟩
      · cases hf
      · apply hnew
        rw [stepAll_spec ev hev W P [] new hs f]
        exact Or.inr ⟨r, hP r hr, σ, hsat, hh⟩
    have hins := insertAll_of_subset _ W hsub
    rw [run, hs']
    simp only [hins]
    rw [if_neg (by omega)]
    simp

end Engine

/-! ### Authorizer -/

/-- Position-wise relation between two lists. -/
inductive Pointwise {α β : Type} (R : α → β → Prop) : List α → List β → Prop
  | nil : Pointwise R [] []
  | cons {a b l l'} : R a b → Pointwise R l l' → Pointwise R (a :: l) (b :: l')

theorem Pointwise.imp_mem {α β : Type} {R R' : α → β → Prop} {l : List α} {l' : List β}
    (h : Pointwise R l l') : (∀ a ∈ l, ∀ b, R a b → R' a b) → Pointwise R' l l' := by
  induction h with
  | nil => intro _; exact Pointwise.nil
  | cons hab _ ih =>
    intro hh
    exact Pointwise.cons (hh _ (List.mem_cons_self ..) _ hab)
      (ih fun a ha b hr => hh a (List.mem_cons_of_mem _ ha) b hr)

/-- Same queries / policies / blocks as sets. -/
def SameQueries (c c' : Check) : Prop := ∀ q, q ∈ c.queries ↔ q ∈ c'.queries
def SamePolicy (p p' : Policy) : Prop := p.kind = p'.kind ∧ ∀ q, q ∈ p.queries ↔ q ∈ p'.queries
def SameBlock (b b' : Block) : Prop :=
  (∀ f, f ∈ b.facts ↔ f ∈ b'.facts) ∧ (∀ r, r ∈ b.rules ↔ r ∈ b'.rules) ∧
    Pointwise SameQueries b.checks b'.checks

section Auth
variable (cfg : EvalCfg)

theorem any_queryHolds_congr {W W' : List DFact} (hW : ∀ f, f ∈ W ↔ f ∈ W')
    {qs qs' : List DRule} (hq : ∀ q, q ∈ qs ↔ q ∈ qs')
    (h : ∀ q ∈ qs, (applyRule (evalBool cfg) q W []).2 = none) :
    qs.any (queryHolds cfg W) = qs'.any (queryHolds cfg W') := by
  have h' : ∀ q ∈ qs', (applyRule (evalBool cfg) q W' []).2 = none := fun q hq' =>
    (applyRule_ok_congr _ q hW [] []).mp (h q ((hq q).mpr hq'))
  rw [Bool.eq_iff_iff, any_queryHolds_iff cfg W (fun g => g ∈ W) (fun _ => Iff.rfl) qs h,
    any_queryHolds_iff cfg W' (fun g => g ∈ W) (fun f => (hW f).symm) qs' h']
  constructor
  · rintro ⟨q, hq1, hh⟩; exact ⟨q, (hq q).mp hq1, hh⟩
  · rintro ⟨q, hq1, hh⟩; exact ⟨q, (hq q).mpr hq1, hh⟩

theorem failedFrom_congr {W W' : List DFact} (mk : Nat → CheckId) {cs cs' : List Check}
    (h : Pointwise (fun c c' => checkHolds cfg W c = checkHolds cfg W' c') cs cs') :
    ∀ i, failedFrom cfg W mk cs i = failedFrom cfg W' mk cs' i := by
  induction h with
  | nil => intro i; rfl
  | cons hab _ ih => intro i; simp only [failedFrom, hab, ih]

theorem failedChecks_congr {W W' : List DFact} (hW : ∀ f, f ∈ W ↔ f ∈ W') (mk : Nat → CheckId)
    {cs cs' : List Check} (hc : Pointwise SameQueries cs cs')
    (h : ∀ c ∈ cs, ∀ q ∈ c.queries, (applyRule (evalBool cfg) q W []).2 = none) :
    failedChecks cfg W mk cs = failedChecks cfg W' mk cs' := by
  unfold failedChecks
  apply failedFrom_congr
  exact hc.imp_mem fun c hcm c' hcc' => any_queryHolds_congr cfg hW hcc' (h c hcm)

theorem firstPolicy_congr {W W' : List DFact} (hW : ∀ f, f ∈ W ↔ f ∈ W')
    {ps ps' : List Policy} (hp : Pointwise SamePolicy ps ps') :
    (∀ p ∈ ps, ∀ q ∈ p.queries, (applyRule (evalBool cfg) q W []).2 = none) →
    firstPolicy cfg W ps = firstPolicy cfg W' ps' := by
  induction hp with
  | nil => intro _; rfl
  | @cons p p' l l' hpp _ ih =>
    intro h
    simp only [firstPolicy]
    rw [any_queryHolds_congr cfg hW hpp.2 (h p (List.mem_cons_self ..)), hpp.1,
      ih fun a ha => h a (List.mem_cons_of_mem _ ha)]

theorem runWorld_run (lim : Limits) (W w : World) (e : Option RunErr)
    (h : runWorld cfg lim W = (w, e)) :
    run (evalBool cfg) lim.maxFacts W.rules lim.maxIter W.facts = (w.facts, e) ∧ w.rules = W.rules := by
  unfold runWorld at h
  simp only [Prod.mk.injEq] at h
  obtain ⟨hw, he⟩ := h
  subst hw
  exact ⟨Prod.ext rfl he, rfl⟩

theorem runWorld_of_run (lim : Limits) (W : World) (F : List DFact) (e : Option RunErr)
    (h : run (evalBool cfg) lim.maxFacts W.rules lim.maxIter W.facts = (F, e)) :
    runWorld cfg lim W = ({ W with facts := F }, e) := by
  unfold runWorld
  rw [h]

/-- A run of two worlds with the same facts and rules as sets. -/
theorem runWorld_congr (lim : Limits) (W W' v : World) (hn : W.facts.Nodup) (hn' : W'.facts.Nodup)
    (hF : ∀ f, f ∈ W.facts ↔ f ∈ W'.facts) (hR : ∀ r, r ∈ W.rules ↔ r ∈ W'.rules)
    (h : runWorld cfg lim W = (v, none)) :
    ∃ v', runWorld cfg lim W' = (v', none) ∧ v.facts.Nodup ∧ v'.facts.Nodup ∧
      ∀ f, f ∈ v.facts ↔ f ∈ v'.facts := by
  obtain ⟨hrun, _⟩ := runWorld_run cfg lim W v none h
  obtain ⟨F', hrun', hN', hmem⟩ :=
    run_congr (evalBool cfg) (evalBool_respects cfg) lim.maxFacts hR lim.maxIter _ _ _ hn hn' hF hrun
  exact ⟨_, runWorld_of_run cfg lim W' F' none hrun', run_nodup _ _ _ _ _ _ hn hrun, hN', hmem⟩

theorem evalBlock_congr (lim : Limits) {base base' : List DFact} (hn : base.Nodup)
    (hn' : base'.Nodup) (hB : ∀ f, f ∈ base ↔ f ∈ base') {b b' : Block} (hb : SameBlock b b')
    (idx : Nat)
    (h : ∃ wb, runWorld cfg lim { facts := insertAll base b.facts, rules := b.rules } = (wb, none) ∧
      ∀ c ∈ b.checks, ∀ q ∈ c.queries, (applyRule (evalBool cfg) q wb.facts []).2 = none) :
    evalBlock cfg lim base b idx = evalBlock cfg lim base' b' idx := by
  obtain ⟨wb, hrun, hq⟩ := h
  obtain ⟨wb', hrun', _, _, hmem⟩ := runWorld_congr cfg lim
    { facts := insertAll base b.facts, rules := b.rules }
    { facts := insertAll base' b'.facts, rules := b'.rules } wb
    (nodup_insertAll _ _ hn) (nodup_insertAll _ _ hn')
    (fun f => by
      show f ∈ insertAll base b.facts ↔ f ∈ insertAll base' b'.facts
      rw [mem_insertAll, mem_insertAll, hB f, hb.1 f])
    hb.2.1 hrun
  simp only [evalBlock, hrun, hrun']
  rw [failedChecks_congr cfg hmem _ hb.2.2 hq]

theorem blockPhase_congr (lim : Limits) {base base' : List DFact} (hn : base.Nodup)
    (hn' : base'.Nodup) (hB : ∀ f, f ∈ base ↔ f ∈ base') {bs bs' : List Block}
    (hbs : Pointwise SameBlock bs bs') :
    BlocksComplete cfg lim base bs → ∀ (idx : Nat) (acc : List CheckId),
    blockPhase cfg lim base bs idx acc = blockPhase cfg lim base' bs' idx acc := by
  induction hbs with
  | nil => intro _ idx acc; rfl
  | @cons b b' l l' hb _ ih =>
    intro hc idx acc
    simp only [blockPhase]
    rw [evalBlock_congr cfg lim hn hn' hB hb idx (hc b (List.mem_cons_self ..))]
    cases evalBlock cfg lim base' b' idx with
    | error e => rfl
    | ok failed => exact ih (fun b0 hb0 => hc b0 (List.mem_cons_of_mem _ hb0)) _ _

theorem authorityPhase_of_run (A : Block) (s : AuthState) (w2 : World)
    (h : runWorld cfg s.limits
      { facts := insertAll s.world.facts A.facts, rules := s.world.rules ++ A.rules } = (w2, none)) :
    authorityPhase cfg A s =
      (w2,
       .ok { world := { w2 with rules := [] },
             failed := failedChecks cfg w2.facts CheckId.authorizer s.checks ++
               failedChecks cfg w2.facts (CheckId.block 0) A.checks,
             policy := firstPolicy cfg w2.facts s.policies }) := by
  simp only [authorityPhase, h]

theorem authorize_snd_of_run (tok : Token) (s : AuthState) (w2 : World)
    (h : runWorld cfg s.limits
      { facts := insertAll s.world.facts tok.authority.facts,
        rules := s.world.rules ++ tok.authority.rules } = (w2, none)) :
    (authorize cfg tok s).2 =
      finish (firstPolicy cfg w2.facts s.policies)
        (blockPhase cfg s.limits w2.facts tok.blocks 1
          (failedChecks cfg w2.facts CheckId.authorizer s.checks ++
            failedChecks cfg w2.facts (CheckId.block 0) tok.authority.checks)) := by
  rw [authorize, authorizeWith_snd_ok cfg false tok s _ _ (authorityPhase_of_run cfg _ s w2 h)]

/-- Order independence of `authorize`, set-level form. -/
theorem authorize_same (tok tok' : Token) (s s' : AuthState)
    (hf : WithinFragment cfg tok s) (hn : s.world.facts.Nodup) (hn' : s'.world.facts.Nodup)
    (hA : SameBlock tok.authority tok'.authority)
    (hbs : Pointwise SameBlock tok.blocks tok'.blocks)
    (hF : ∀ f, f ∈ s.world.facts ↔ f ∈ s'.world.facts)
    (hR : ∀ r, r ∈ s.world.rules ↔ r ∈ s'.world.rules)
    (hc : Pointwise SameQueries s.checks s'.checks)
    (hp : Pointwise SamePolicy s.policies s'.policies)
    (hl : s.limits = s'.limits) :
    (authorize cfg tok s).2 = (authorize cfg tok' s').2 := by
  obtain ⟨w, hw⟩ := hf.authorityRun
  obtain ⟨hqc, hqp⟩ := hf.authorityQueries w hw
  have hblocks := hf.blockRuns w hw
  obtain ⟨w', hw', hN, hN', hmem⟩ := runWorld_congr cfg s.limits
    { facts := insertAll s.world.facts tok.authority.facts,
      rules := s.world.rules ++ tok.authority.rules }
    { facts := insertAll s'.world.facts tok'.authority.facts,
      rules := s'.world.rules ++ tok'.authority.rules } w
    (nodup_insertAll _ _ hn) (nodup_insertAll _ _ hn')
    (fun f => by
      show f ∈ insertAll s.world.facts tok.authority.facts ↔
        f ∈ insertAll s'.world.facts tok'.authority.facts
      rw [mem_insertAll, mem_insertAll, hF f, hA.1 f])
    (fun r => by
      show r ∈ s.world.rules ++ tok.authority.rules ↔ r ∈ s'.world.rules ++ tok'.authority.rules
      rw [List.mem_append, List.mem_append, hR r, hA.2.1 r])
    hw
  rw [hl] at hw'
  rw [authorize_snd_of_run cfg tok s w hw, authorize_snd_of_run cfg tok' s' w' hw', ← hl,
    firstPolicy_congr cfg hmem hp hqp,
    failedChecks_congr cfg hmem _ hc (fun c hc' => hqc c (List.mem_append_left _ hc')),
    failedChecks_congr cfg hmem _ hA.2.2 (fun c hc' => hqc c (List.mem_append_right _ hc')),
    blockPhase_congr cfg s.limits hN hN' hmem hbs hblocks]

/-! ### Permuting the checks: only the number of failures is comparable -/

theorem failedFrom_length (W : List DFact) (mk : Nat → CheckId) :
    ∀ (cs : List Check) (i : Nat),
    (failedFrom cfg W mk cs i).length = cs.countP (fun c => !checkHolds cfg W c)
  | [], _ => rfl
  | c :: cs, i => by
    simp only [failedFrom, List.countP_cons]
    cases hc : checkHolds cfg W c with
    | true => simpa using failedFrom_length W mk cs (i + 1)
    | false => simpa using failedFrom_length W mk cs (i + 1)

theorem failedChecks_length_perm (W : List DFact) (mk mk' : Nat → CheckId) {cs cs' : List Check}
    (h : cs.Perm cs') :
    (failedChecks cfg W mk cs).length = (failedChecks cfg W mk' cs').length := by
  unfold failedChecks
  rw [failedFrom_length, failedFrom_length, h.countP_eq]

/-- Outcome of the block loop up to the identity of the failures (and of the error). -/
def lenOf : Except RunErr (List CheckId) → Option Nat
  | .error _ => none
  | .ok l => some l.length

/-- Same facts and rules, checks permuted. -/
def ChecksPermuted (b b' : Block) : Prop :=
  b.facts = b'.facts ∧ b.rules = b'.rules ∧ b.checks.Perm b'.checks

theorem evalBlock_lenOf (lim : Limits) (base : List DFact) {b b' : Block}
    (hb : ChecksPermuted b b') (idx idx' : Nat) :
    lenOf (evalBlock cfg lim base b idx) = lenOf (evalBlock cfg lim base b' idx') := by
  obtain ⟨h1, h2, h3⟩ := hb
  simp only [evalBlock, ← h1, ← h2]
  cases hr : runWorld cfg lim { facts := insertAll base b.facts, rules := b.rules } with
  | mk wb e =>
    cases e with
    | some e => rfl
    | none =>
      simp only [lenOf]
      rw [failedChecks_length_perm cfg wb.facts _ (CheckId.block idx') h3]

theorem blockPhase_lenOf (lim : Limits) (base : List DFact) {bs bs' : List Block}
    (hbs : Pointwise ChecksPermuted bs bs') :
    ∀ (idx idx' : Nat) (acc acc' : List CheckId), acc.length = acc'.length →
    lenOf (blockPhase cfg lim base bs idx acc) = lenOf (blockPhase cfg lim base bs' idx' acc') := by
  induction hbs with
  | nil => intro idx idx' acc acc' h; simp only [blockPhase, lenOf, h]
  | @cons b b' l l' hb _ ih =>
    intro idx idx' acc acc' h
    simp only [blockPhase]
    have he := evalBlock_lenOf cfg lim base hb idx idx'
    cases h1 : evalBlock cfg lim base b idx with
    | error e =>
      cases h2 : evalBlock cfg lim base b' idx' with
      | error e' => rfl
      | ok f' => rw [h1, h2] at he; cases he
    | ok f =>
      cases h2 : evalBlock cfg lim base b' idx' with
      | error e' => rw [h1, h2] at he; cases he
      | ok f' =>
        rw [h1, h2] at he
        simp only [lenOf, Option.some.injEq] at he
        exact ih _ _ _ _ (by simp only [List.length_append, h, he])

/-- Two outcomes of `finish` that agree up to the identity of the failures. -/
def SameShape (v v' : Verdict) : Prop :=
  (∃ e e', v = .runError e ∧ v' = .runError e') ∨
  (∃ ids ids', v = .checksFailed ids ∧ v' = .checksFailed ids' ∧ ids.length = ids'.length) ∨
  (∃ o, v = policyVerdict o ∧ v' = policyVerdict o)

theorem finish_sameShape (pol : Option PolicyKind) (r r' : Except RunErr (List CheckId))
    (h : lenOf r = lenOf r') : SameShape (finish pol r) (finish pol r') := by
  cases r with
  | error e =>
    cases r' with
    | error e' => exact Or.inl ⟨e, e', rfl, rfl⟩
    | ok l' => cases h
  | ok l =>
    cases r' with
    | error e' => cases h
    | ok l' =>
      simp only [lenOf, Option.some.injEq] at h
      cases l with
      | nil =>
        cases l' with
        | nil => exact Or.inr (Or.inr ⟨pol, rfl, rfl⟩)
        | cons a' t' => simp at h
      | cons a t =>
        cases l' with
        | nil => simp at h
        | cons a' t' => exact Or.inr (Or.inl ⟨a :: t, a' :: t', rfl, rfl, h⟩)

/-- Permuting the checks of the authorizer, of the authority block and of each later
block keeps the shape of the verdict (no fragment hypothesis is needed). -/
theorem authorize_checks_sameShape (A A' : Block) (bs bs' : List Block) (s : AuthState)
    (cs' : List Check) (hA : ChecksPermuted A A') (hbs : Pointwise ChecksPermuted bs bs')
    (hc : s.checks.Perm cs') :
    SameShape (authorize cfg ⟨A, bs⟩ s).2 (authorize cfg ⟨A', bs'⟩ { s with checks := cs' }).2 := by
  obtain ⟨h1, h2, h3⟩ := hA
  cases hr : runWorld cfg s.limits
      { facts := insertAll s.world.facts A.facts, rules := s.world.rules ++ A.rules } with
  | mk w e =>
    have hr' : runWorld cfg ({ s with checks := cs' } : AuthState).limits
        { facts := insertAll ({ s with checks := cs' } : AuthState).world.facts A'.facts,
          rules := ({ s with checks := cs' } : AuthState).world.rules ++ A'.rules } = (w, e) := by
      rw [← h1, ← h2]; exact hr
    cases e with
    | some e =>
      have e1 : authorityPhase cfg A s = (w, .error e) := by
        simp only [authorityPhase, hr]
      have e2 : authorityPhase cfg A' { s with checks := cs' } = (w, .error e) := by
        simp only [authorityPhase, hr']
      rw [authorize, authorize, authorizeWith_snd_err cfg false ⟨A, bs⟩ s w e e1,
        authorizeWith_snd_err cfg false ⟨A', bs'⟩ _ w e e2]
      exact Or.inl ⟨e, e, rfl, rfl⟩
    | none =>
      rw [authorize_snd_of_run cfg ⟨A, bs⟩ s w hr,
        authorize_snd_of_run cfg ⟨A', bs'⟩ { s with checks := cs' } w hr']
      apply finish_sameShape
      apply blockPhase_lenOf cfg _ _ hbs
      simp only [List.length_append]
      rw [failedChecks_length_perm cfg w.facts _ CheckId.authorizer hc,
        failedChecks_length_perm cfg w.facts _ (CheckId.block 0) h3]

/-! ### Authorizing twice -/

theorem authorize_fst_of_run (tok : Token) (s : AuthState) (w2 : World)
    (h : runWorld cfg s.limits
      { facts := insertAll s.world.facts tok.authority.facts,
        rules := s.world.rules ++ tok.authority.rules } = (w2, none)) :
    (authorize cfg tok s).1 = { s with world := w2, dirty := true } := by
  rw [authorize, authorizeWith_fst_false, authorityPhase_of_run cfg _ s w2 h]

/-- Inside the fragment (in fact: as soon as the authority-level run succeeds), a second
`Authorize` on the state left by the first returns the same verdict. -/
theorem authorize_twice_run (tok : Token) (s : AuthState) (w : World)
    (hw : runWorld cfg s.limits
      { facts := insertAll s.world.facts tok.authority.facts,
        rules := s.world.rules ++ tok.authority.rules } = (w, none)) :
    (authorize cfg tok (authorize cfg tok s).1).2 = (authorize cfg tok s).2 := by
  obtain ⟨hrun, _⟩ := runWorld_run cfg _ _ w none hw
  have hsubA : ∀ f ∈ tok.authority.facts, f ∈ w.facts := fun f hf =>
    run_subset _ _ _ _ _ _ _ hrun f ((mem_insertAll _ _ f).mpr (Or.inr hf))
  have hwr : w.rules = s.world.rules ++ tok.authority.rules := (runWorld_run cfg _ _ w none hw).2
  have hagain := run_again (evalBool cfg) (evalBool_respects cfg) s.limits.maxFacts
    (s.world.rules ++ tok.authority.rules) (w.rules ++ tok.authority.rules)
    (fun r hr => by
      rw [hwr] at hr
      rcases List.mem_append.mp hr with h1 | h2
      · exact h1
      · exact List.mem_append_right _ h2) s.limits.maxIter _ w.facts hrun
  have hw1 : runWorld cfg s.limits
      { facts := insertAll w.facts tok.authority.facts, rules := w.rules ++ tok.authority.rules } =
      ({ facts := w.facts, rules := w.rules ++ tok.authority.rules }, none) := by
    rw [insertAll_of_subset _ _ hsubA]
    exact runWorld_of_run cfg s.limits { facts := w.facts, rules := w.rules ++ tok.authority.rules }
      w.facts none hagain
  rw [authorize_fst_of_run cfg tok s w hw,
    authorize_snd_of_run cfg tok { s with world := w, dirty := true } _ hw1,
    authorize_snd_of_run cfg tok s w hw]

end Auth

end Biscuit
