/-
Proofs/TextRoundtrip — lemmas for the character-level round trip of whole statements
(`Props/C14Text`): which tokens the reference rendering (`Model/Render`, `Model/Printer`)
produces.

* `forall_joinWith`, `forall_joinToks`: a property that holds of the separator holds of all
  tokens of a separated list exactly when it holds of all tokens of the pieces.
* the fixed tokens of the rendering (`(`, `)`, `[`, `]`, `,`, `;`, `!`, `.`, `<-`, `or`, the
  keywords, `length`, every infix operator token) are `C14Lexer.TokWF`.
* `forall_renderItems`: the tokens of a statement list are `;` and the tokens of the statements.
-/
import BiscuitModel.Props.C14Lexer
import BiscuitModel.Model.Render

namespace Biscuit.TextRoundtrip
open Biscuit Biscuit.Grammar Biscuit.Printer Biscuit.Render Biscuit.C14Lexer

/-! ## Separated lists -/

theorem forall_joinWith {P : Tok → Prop} (sep : Tok) (hsep : P sep) (xs : List (List Tok)) :
    (∀ t ∈ joinWith sep xs, P t) ↔ ∀ x ∈ xs, ∀ t ∈ x, P t := by
  induction xs with
  | nil => simp [joinWith]
  | cons x ys ih =>
    cases ys with
    | nil => simp [joinWith]
    | cons y ys =>
      simp only [joinWith, List.mem_append, List.mem_cons] at ih ⊢
      constructor
      · intro h x' hx' t ht
        rcases hx' with rfl | hx'
        · exact h t (Or.inl ht)
        · exact ih.1 (fun t ht => h t (Or.inr (Or.inr ht))) x' hx' t ht
      · intro h t ht
        rcases ht with ht | rfl | ht
        · exact h x (Or.inl rfl) t ht
        · exact hsep
        · exact ih.2 (fun x' hx' => h x' (Or.inr hx')) t ht

theorem forall_joinToks {P : Tok → Prop} (hsep : P (.punct ',')) (xs : List (List Tok)) :
    (∀ t ∈ renderTermToks.joinToks xs, P t) ↔ ∀ x ∈ xs, ∀ t ∈ x, P t := by
  induction xs with
  | nil => simp [renderTermToks.joinToks]
  | cons x ys ih =>
    cases ys with
    | nil => simp [renderTermToks.joinToks]
    | cons y ys =>
      simp only [renderTermToks.joinToks, List.mem_append, List.mem_cons,
        List.not_mem_nil, or_false] at ih ⊢
      constructor
      · intro h x' hx' t ht
        rcases hx' with rfl | hx'
        · exact h t (Or.inl (Or.inl ht))
        · exact ih.1 (fun t ht => h t (Or.inr ht)) x' hx' t ht
      · intro h t ht
        rcases ht with (ht | rfl) | ht
        · exact h x (Or.inl rfl) t ht
        · exact hsep
        · exact ih.2 (fun x' hx' => h x' (Or.inr hx')) t ht

/-! ## The fixed tokens of the rendering -/

theorem tokWF_lparen : TokWF (.punct '(') := by decide
theorem tokWF_rparen : TokWF (.punct ')') := by decide
theorem tokWF_lbracket : TokWF (.punct '[') := by decide
theorem tokWF_rbracket : TokWF (.punct ']') := by decide
theorem tokWF_comma : TokWF (.punct ',') := by decide
theorem tokWF_semicolon : TokWF (.punct ';') := by decide
theorem tokWF_bang : TokWF (.punct '!') := by decide
theorem tokWF_dot : TokWF .dot := by decide
theorem tokWF_arrow : TokWF .arrow := by decide
theorem tokWF_or : TokWF (.ident "or") := by decide
theorem tokWF_length : TokWF (.func "length") := by decide
theorem tokWF_check : TokWF (.keyword "check if") := by decide
theorem tokWF_policy (allow : Bool) : TokWF (.keyword (policyKeyword allow)) := by
  cases allow <;> decide

/-- Every infix operator that has a token has a well-formed one
(`< <= > >= == + - *` are Operator tokens, `/` is punctuation, `&&` and `||` their own rules). -/
theorem binTok_tokWF (op : BinOp) (t : Tok) (h : binTok op = some t) : TokWF t := by
  cases op <;> simp only [binTok, Option.some.injEq, reduceCtorEq] at h <;> subst h <;> decide

/-! ## Statement lists -/

theorem forall_renderItems {P : Tok → Prop} (hsemi : P (.punct ';')) (its : List PItem) :
    (∀ t ∈ renderItems its, P t) ↔ ∀ it ∈ its, ∀ t ∈ renderItem it, P t := by
  induction its with
  | nil => simp [renderItems]
  | cons it its ih =>
    simp only [renderItems, List.mem_append, List.mem_cons]
    constructor
    · intro h it' hit' t ht
      rcases hit' with rfl | hit'
      · exact h t (Or.inl ht)
      · exact ih.1 (fun t ht => h t (Or.inr (Or.inr ht))) it' hit' t ht
    · intro h t ht
      rcases ht with ht | rfl | ht
      · exact h it (Or.inl rfl) t ht
      · exact hsemi
      · exact ih.2 (fun it' hit' => h it' (Or.inr hit')) t ht

end Biscuit.TextRoundtrip
