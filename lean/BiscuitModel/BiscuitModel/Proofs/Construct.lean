/-
Proofs/Construct — helper lemmas about the construction step (Model/Construct): the key
order `keyLe`, the key `atomKey`, insertion sort `sortAtoms`.
-/
import BiscuitModel.Model.Construct
import BiscuitModel.Props.C12Sets

namespace Biscuit.Construct
open Biscuit

/-! ### `keyLe` is a total order on keys -/

theorem keyLe_refl : ∀ a : List Nat, keyLe a a = true
  | [] => rfl
  | x :: xs => by simp [keyLe, keyLe_refl xs]

theorem keyLe_total : ∀ a b : List Nat, keyLe a b = true ∨ keyLe b a = true
  | [], _ => .inl (by simp [keyLe])
  | _ :: _, [] => .inr (by simp [keyLe])
  | x :: xs, y :: ys => by
    simp only [keyLe, Bool.or_eq_true, Bool.and_eq_true, beq_iff_eq, decide_eq_true_eq]
    rcases Nat.lt_trichotomy x y with h | h | h
    · exact .inl (.inl h)
    · rcases keyLe_total xs ys with h' | h'
      · exact .inl (.inr ⟨h, h'⟩)
      · exact .inr (.inr ⟨h.symm, h'⟩)
    · exact .inr (.inl h)

theorem keyLe_trans : ∀ {a b c : List Nat}, keyLe a b = true → keyLe b c = true → keyLe a c = true
  | [], _, _, _, _ => by simp [keyLe]
  | _ :: _, [], _, h, _ => by simp [keyLe] at h
  | _ :: _, _ :: _, [], _, h => by simp [keyLe] at h
  | x :: xs, y :: ys, z :: zs, h1, h2 => by
    simp only [keyLe, Bool.or_eq_true, Bool.and_eq_true, beq_iff_eq, decide_eq_true_eq] at h1 h2 ⊢
    rcases h1 with h1 | ⟨e1, h1⟩ <;> rcases h2 with h2 | ⟨e2, h2⟩
    · exact .inl (by omega)
    · exact .inl (by omega)
    · exact .inl (by omega)
    · exact .inr ⟨by omega, keyLe_trans h1 h2⟩

theorem keyLe_antisymm : ∀ {a b : List Nat}, keyLe a b = true → keyLe b a = true → a = b
  | [], [], _, _ => rfl
  | [], _ :: _, _, h => by simp [keyLe] at h
  | _ :: _, [], h, _ => by simp [keyLe] at h
  | x :: xs, y :: ys, h1, h2 => by
    simp only [keyLe, Bool.or_eq_true, Bool.and_eq_true, beq_iff_eq, decide_eq_true_eq] at h1 h2
    rcases h1 with h1 | ⟨e1, h1⟩ <;> rcases h2 with h2 | ⟨e2, h2⟩
    · omega
    · omega
    · omega
    · rw [e1, keyLe_antisymm h1 h2]

/-! ### `atomKey` -/

/-- The key determines the atom. -/
theorem atomKey_injective : ∀ a b : Atom, atomKey a = atomKey b → a = b := by
  intro a b h
  have hu : ∀ x y : UInt8, x.toNat = y.toNat → x = y := fun _ _ e => UInt8.toNat_inj.1 e
  cases a <;> cases b <;> simp only [atomKey, List.cons.injEq, reduceCtorEq] at h <;>
    try (simp at h; done)
  case int.int i j =>
    obtain ⟨_, h1, h2⟩ := h
    simp only [and_true] at h2
    congr 1
    split at h1 <;> split at h1 <;> simp at h1 <;> omega
  case str.str s t =>
    rw [(List.map_inj_right hu).1 h.2]
  case date.date d e =>
    simp at h; rw [h]
  case bytes.bytes s t =>
    rw [(List.map_inj_right hu).1 h.2]
  case bool.bool x y =>
    cases x <;> cases y <;> simp at h <;> rfl

theorem atomLe_antisymm {a b : Atom} (h1 : atomLe a b = true) (h2 : atomLe b a = true) : a = b :=
  atomKey_injective a b (keyLe_antisymm h1 h2)

/-! ### Insertion sort -/

theorem insertSorted_perm (a : Atom) : ∀ l : List Atom, (insertSorted a l).Perm (a :: l)
  | [] => .refl _
  | b :: bs => by
    simp only [insertSorted]
    split
    · exact .refl _
    · exact ((insertSorted_perm a bs).cons b).trans (.swap a b bs)

theorem sortAtoms_perm : ∀ l : List Atom, (sortAtoms l).Perm l
  | [] => .refl _
  | a :: as => (insertSorted_perm a _).trans ((sortAtoms_perm as).cons a)

theorem mem_sortAtoms (l : List Atom) (a : Atom) : a ∈ sortAtoms l ↔ a ∈ l :=
  (sortAtoms_perm l).mem_iff

theorem atomLe_total (a b : Atom) : atomLe a b = true ∨ atomLe b a = true := keyLe_total _ _

theorem atomLe_trans {a b c : Atom} (h1 : atomLe a b = true) (h2 : atomLe b c = true) :
    atomLe a c = true := keyLe_trans h1 h2

abbrev Sorted (l : List Atom) : Prop := l.Pairwise (fun a b => atomLe a b = true)

theorem insertSorted_sorted (a : Atom) : ∀ l : List Atom, Sorted l → Sorted (insertSorted a l)
  | [], _ => by simp [insertSorted, Sorted]
  | b :: bs, h => by
    simp only [insertSorted]
    have hb := List.pairwise_cons.1 h
    split
    next hab =>
      refine List.pairwise_cons.2 ⟨?_, h⟩
      intro c hc
      rcases List.mem_cons.1 hc with rfl | hc
      · exact hab
      · exact atomLe_trans hab (hb.1 c hc)
    next hab =>
      have hba : atomLe b a = true := (atomLe_total a b).resolve_left hab
      refine List.pairwise_cons.2 ⟨?_, insertSorted_sorted a bs hb.2⟩
      intro c hc
      rcases List.mem_cons.1 ((insertSorted_perm a bs).mem_iff.1 hc) with rfl | hc
      · exact hba
      · exact hb.1 c hc

theorem sortAtoms_sorted : ∀ l : List Atom, Sorted (sortAtoms l)
  | [] => List.Pairwise.nil
  | a :: as => insertSorted_sorted a _ (sortAtoms_sorted as)

/-- Sorting a sorted list changes nothing (no hypothesis on the key). -/
theorem sortAtoms_of_sorted : ∀ l : List Atom, Sorted l → sortAtoms l = l
  | [], _ => rfl
  | a :: as, h => by
    have ha := List.pairwise_cons.1 h
    simp only [sortAtoms, sortAtoms_of_sorted as ha.2]
    cases as with
    | nil => rfl
    | cons b bs => simp [insertSorted, ha.1 b List.mem_cons_self]

/-- Two sorted lists with the same elements are equal. -/
theorem sorted_ext {l l' : List Atom} (hs : Sorted l) (hs' : Sorted l') (hp : l.Perm l') : l = l' :=
  hp.eq_of_pairwise (fun _ _ _ _ h1 h2 => atomLe_antisymm h1 h2) hs hs'

end Biscuit.Construct
