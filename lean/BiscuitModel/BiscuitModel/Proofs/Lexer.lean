/-
Proofs/Lexer — lemmas for the character-level round trip of the lexer (`Props/C14Lexer`).

* `spanWhile`, `hexPairs`: behaviour on `s ++ x :: r` when `x` stops the scan.
* space locality (`*_sp`): the sub-lexers `stripLit`, `firstWord`, `takeDigits`, `spanWhile`,
  `lexDate` never look past a space: on `s ++ ' ' :: rest` they do what they do on `s`, with
  `' ' :: rest` appended to the remainder (`padR`).
* `lexOne_tail`: when the literal rules (Keyword, Function, Hex, Dot, Arrow, Or, And,
  Operator, Comment) cannot start at `c`, `lexOne (c :: rest)` is the remaining chain
  `lexTail c rest` (String, Variable, Parameter, Date, Int, Bool, Ident, whitespace, Punct).
* one lemma per token class (`lexOne_keyword` … `lexOne_punct`, `lexOne_space`): `lexOne` on the
  spelling followed by a space and arbitrary further input.
* inversion (`lexOne_*_inv`, tactic `lex_inv`): what `lexOne cs = some (some t, r)` says about the
  payload of `t`, by constructor; used for the exactness of `C14Lexer.TokWF`.

Definitions used by `Props/C14Lexer`: the literal lists `keywordLits`, `funcLits`, `opLits`,
`boolLits` (definitionally the inline lists of `lexOne`), `keywordHeads` (`check`, `allow`, `deny`),
`wfPunct` (punctuation not claimed by an earlier rule), `padR`, `lexTail`, `lexDate'`.
-/
import BiscuitModel.Model.Spell

namespace Biscuit.Grammar


/-! ### spanWhile / hexPairs -/

theorem spanWhile_append_stop (p : Char → Bool) (s : List Char) (x : Char) (r : List Char)
    (hs : s.all p = true) (hx : p x = false) : spanWhile p (s ++ x :: r) = (s, x :: r) := by
  induction s with
  | nil => simp [spanWhile, hx]
  | cons c s ih =>
    simp only [List.all_cons, Bool.and_eq_true] at hs
    simp [spanWhile, hs.1, ih hs.2]

theorem spanWhile_fst_all (p : Char → Bool) (cs : List Char) : (spanWhile p cs).1.all p = true := by
  induction cs with
  | nil => simp [spanWhile]
  | cons c cs ih =>
    unfold spanWhile
    by_cases h : p c = true
    · simp [h, ih]
    · simp [h]

theorem spanWhile_append (p : Char → Bool) (cs : List Char) :
    (spanWhile p cs).1 ++ (spanWhile p cs).2 = cs := by
  induction cs with
  | nil => simp [spanWhile]
  | cons c cs ih =>
    unfold spanWhile
    by_cases h : p c = true
    · simp [h, ih]
    · simp [h]

theorem spanWhile_snd_head (p : Char → Bool) (cs : List Char) (x : Char) (r : List Char)
    (h : (spanWhile p cs).2 = x :: r) : p x = false := by
  induction cs with
  | nil => simp [spanWhile] at h
  | cons c cs ih =>
    unfold spanWhile at h
    by_cases hc : p c = true
    · simp [hc] at h; exact ih h
    · simp [hc] at h; rcases h with ⟨rfl, _⟩; simpa using hc

theorem hexPairs_append_space (ds : List Char) (rest : List Char) :
    ∀ n, ds.length = 2 * n → ds.all isHexDigit = true →
      hexPairs (ds ++ ' ' :: rest) = (ds, ' ' :: rest) := by
  intro n
  induction n generalizing ds with
  | zero =>
    intro hl _
    have : ds = [] := List.eq_nil_of_length_eq_zero (by omega)
    subst this
    cases rest with
    | nil => rfl
    | cons b r => simp [hexPairs, isHexDigit, isDigit]
  | succ n ih =>
    intro hl ha
    match ds, hl, ha with
    | a :: b :: ds', hl, ha =>
      simp only [List.all_cons, Bool.and_eq_true] at ha
      simp only [List.length_cons] at hl
      have := ih ds' (by omega) ha.2.2
      simp [hexPairs, ha.1, ha.2.1, this]



def padR {α : Type} (rest : List Char) (p : α × List Char) : α × List Char := (p.1, p.2 ++ ' ' :: rest)

def dateFrac (r : List Char) : List Char × List Char :=
  match r with
  | '.' :: r' => let sp := spanWhile isDigit r'; if sp.1.isEmpty then ([], r) else ('.' :: sp.1, sp.2)
  | _ => ([], r)

def dateZone (r : List Char) : List Char × List Char :=
  match r with
  | 'Z' :: r' => (['Z'], r')
  | sgn :: r' =>
    if sgn == '+' || sgn == '-' then
      match takeDigits 2 r' with
      | some (zh, r'') => match stripLit [':'] r'' with
        | some r3 => match takeDigits 2 r3 with
          | some (zm, r4) => (sgn :: zh ++ [':'] ++ zm, r4)
          | none => ([], r)
        | none => ([], r)
      | none => ([], r)
    else ([], r)
  | [] => ([], r)

def dateFin (base r : List Char) : List Char × List Char :=
  match dateFrac r with
  | (frac, r) => match dateZone r with
    | (zone, r) => (base ++ frac ++ zone, r)

def lexDate' (cs : List Char) : Option (List Char × List Char) :=
  (takeDigits 4 cs).bind fun p1 =>
  (stripLit ['-'] p1.2).bind fun r =>
  (takeDigits 2 r).bind fun p2 =>
  (stripLit ['-'] p2.2).bind fun r =>
  (takeDigits 2 r).bind fun p3 =>
  (stripLit ['T'] p3.2).bind fun r =>
  (takeDigits 2 r).bind fun p4 =>
  (stripLit [':'] p4.2).bind fun r =>
  (takeDigits 2 r).bind fun p5 =>
  (stripLit [':'] p5.2).bind fun r =>
  (takeDigits 2 r).bind fun p6 =>
  some (dateFin (p1.1 ++ ['-'] ++ p2.1 ++ ['-'] ++ p3.1 ++ ['T'] ++ p4.1 ++ [':'] ++ p5.1 ++ [':'] ++ p6.1) p6.2)

theorem lexDate_eq (cs : List Char) : lexDate cs = lexDate' cs := by
  rfl

theorem stripLit_sp (l s rest : List Char) (hl : l.all (· != ' ') = true) :
    stripLit l (s ++ ' ' :: rest) = (stripLit l s).map (· ++ ' ' :: rest) := by
  induction l generalizing s with
  | nil => simp [stripLit]
  | cons a l ih =>
    simp only [List.all_cons, Bool.and_eq_true, bne_iff_ne, ne_eq] at hl
    cases s with
    | nil => simp [stripLit, hl.1]
    | cons c s =>
      simp only [List.cons_append, stripLit]
      split
      · exact ih s (by simpa using hl.2)
      · rfl
theorem takeDigits_sp (n : Nat) (s rest : List Char) :
    takeDigits n (s ++ ' ' :: rest) = (takeDigits n s).map (padR rest) := by
  unfold takeDigits
  by_cases h : n ≤ s.length
  · simp only [List.take_append_of_le_length h, List.drop_append_of_le_length h]
    split <;> simp [padR]
  · have h' : s.length < n := by omega
    have h1 : decide ((s.take n).length = n) = false := by simp [List.length_take]; omega
    have h2 : ((s ++ ' ' :: rest).take n).all isDigit = false := by
      obtain ⟨k, hk⟩ : ∃ k, n - s.length = k + 1 := ⟨n - s.length - 1, by omega⟩
      rw [List.take_append, hk, List.take_succ_cons]
      simp [isDigit]
    simp only [h1, h2, Bool.and_false, Bool.false_and, Bool.false_eq_true, if_false, Option.map_none]

theorem stripLit1_sp (c : Char) (s rest : List Char) (hc : (c != ' ') = true) :
    stripLit [c] (s ++ ' ' :: rest) = (stripLit [c] s).map (· ++ ' ' :: rest) :=
  stripLit_sp _ _ _ (by simpa using hc)

@[simp] theorem padR_fst {α : Type} (rest : List Char) (p : α × List Char) : (padR rest p).1 = p.1 := rfl
@[simp] theorem padR_snd {α : Type} (rest : List Char) (p : α × List Char) : (padR rest p).2 = p.2 ++ ' ' :: rest := rfl
theorem spanWhile_sp (p : Char → Bool) (hp : p ' ' = false) (s rest : List Char) :
    spanWhile p (s ++ ' ' :: rest) = padR rest (spanWhile p s) := by
  induction s with
  | nil => simp [spanWhile, hp, padR]
  | cons c s ih =>
    simp only [List.cons_append, spanWhile]
    split
    · simp [ih, padR]
    · simp [padR]

theorem dateFrac_dot (r : List Char) : dateFrac ('.' :: r) =
    if (spanWhile isDigit r).1.isEmpty then ([], '.' :: r) else ('.' :: (spanWhile isDigit r).1, (spanWhile isDigit r).2) := rfl

theorem dateFrac_ne (c : Char) (r : List Char) (hc : c ≠ '.') : dateFrac (c :: r) = ([], c :: r) := by
  unfold dateFrac
  split
  · rename_i h; injection h with h1 _; exact absurd h1 hc
  · rfl

theorem dateFrac_sp (r rest : List Char) : dateFrac (r ++ ' ' :: rest) = padR rest (dateFrac r) := by
  cases r with
  | nil => rw [List.nil_append, dateFrac_ne _ _ (by decide)]; rfl
  | cons c r' =>
    by_cases hc : c = '.'
    · subst hc
      rw [List.cons_append, dateFrac_dot, dateFrac_dot, spanWhile_sp isDigit (by decide)]
      by_cases he : (spanWhile isDigit r').1.isEmpty = true
      · simp [he, padR]
      · simp [he, padR]
    · rw [List.cons_append, dateFrac_ne _ _ hc, dateFrac_ne _ _ hc]; rfl

theorem dateZone_sp (r rest : List Char) : dateZone (r ++ ' ' :: rest) = padR rest (dateZone r) := by
  cases r with
  | nil => simp [dateZone, padR]
  | cons c r' =>
    by_cases hc : c = 'Z'
    · subst hc; simp [dateZone, padR]
    · have e3 := fun s => stripLit1_sp ':' s rest (by decide)
      simp only [dateZone, List.cons_append, takeDigits_sp]
      split
      · cases takeDigits 2 r' with
        | none => simp [padR]
        | some p =>
          obtain ⟨zh, r2⟩ := p
          simp only [Option.map_some, e3, padR]
          cases stripLit [':'] r2 with
          | none => simp
          | some r3 =>
            simp only [Option.map_some, takeDigits_sp]
            cases takeDigits 2 r3 with
            | none => simp
            | some q => simp [padR]
      · simp [padR]

theorem dateFin_sp (b r rest : List Char) : dateFin b (r ++ ' ' :: rest) = padR rest (dateFin b r) := by
  simp [dateFin, dateFrac_sp, dateZone_sp, padR]

theorem lexDate_sp (s rest : List Char) :
    lexDate (s ++ ' ' :: rest) = (lexDate s).map (padR rest) := by
  have e1 := fun s => stripLit1_sp '-' s rest (by decide)
  have e2 := fun s => stripLit1_sp 'T' s rest (by decide)
  have e3 := fun s => stripLit1_sp ':' s rest (by decide)
  simp only [lexDate_eq, lexDate', takeDigits_sp, e1, e2, e3, Option.bind_map, Option.map_bind, Function.comp_def,
    dateFin_sp, Option.map_some, padR_fst, padR_snd]


def keywordLits : List String := ["check if", "allow if", "deny if"]
def funcLits : List String := ["prefix", "suffix", "matches", "length", "contains"]
def opLits : List String := ["==", ">=", "<=", ">", "<", "+", "-", "*"]
def boolLits : List String := ["true", "false"]

def lexTail (c : Char) (rest : List Char) : Option (Option Tok × List Char) :=
    if c == '"' then
      let sp := spanWhile (· != '"') rest
      match sp.2 with
      | '"' :: r => some (some (.str sp.1), r)
      | _ => some (some (.punct '"'), rest)
    else if c == '$' then
      let sp := spanWhile isNameChar rest
      if sp.1.isEmpty then some (some (.punct '$'), rest) else some (some (.var (String.ofList sp.1)), sp.2)
    else if c == '{' then
      let sp := spanWhile isNameChar rest
      match sp.1.isEmpty, sp.2 with
      | false, '}' :: r => some (some (.param (String.ofList sp.1)), r)
      | _, _ => some (some (.punct '{'), rest)
    else
    match lexDate (c :: rest) with
    | some (d, r) => some (some (.date d), r)
    | none =>
    if isDigit c then
      let sp := spanWhile isDigit (c :: rest)
      some (some (.int sp.1), sp.2)
    else
    match firstWord boolLits (c :: rest) with
    | some (b, r) => some (some (.bool (b == "true")), r)
    | none =>
    if isLower c then
      let sp := spanWhile isNameChar rest
      some (some (.ident (String.ofList (c :: sp.1))), sp.2)
    else if c == ' ' || c == '\t' then some (none, (spanWhile (fun x => x == ' ' || x == '\t') (c :: rest)).2)
    else if c == '\n' || c == '\r' then some (none, (spanWhile (fun x => x == '\n' || x == '\r') (c :: rest)).2)
    else if punctChars.contains c then some (some (.punct c), rest)
    else none

/-- First characters of the operator rules (Dot, Arrow, Or, And, Operator, Comment). -/
def isOpStart (c : Char) : Bool :=
  c == '.' || c == '<' || c == '|' || c == '&' || c == '=' || c == '>' || c == '+' || c == '-' || c == '*' || c == '/'

/-- `lexOne` when none of the literal rules matches at `c`. -/
theorem lexOne_tail' (c : Char) (rest : List Char)
    (h1 : firstLit keywordLits (c :: rest) = none)
    (h2 : firstWord funcLits (c :: rest) = none)
    (h3 : stripLit "hex:".toList (c :: rest) = none)
    (e1 : (c == '.') = false)
    (e2 : stripLit "<-".toList (c :: rest) = none)
    (e3 : stripLit "||".toList (c :: rest) = none)
    (e4 : stripLit "&&".toList (c :: rest) = none)
    (e5 : firstLit opLits (c :: rest) = none)
    (e6 : stripLit "//".toList (c :: rest) = none) : lexOne (c :: rest) = lexTail c rest := by
  unfold keywordLits at h1
  unfold funcLits at h2
  unfold opLits at e5
  unfold lexOne
  simp only [h1, h2, h3, e1, e2, e3, e4, e5, e6, Bool.false_eq_true, if_false]
  rfl

theorem lexOne_tail (c : Char) (rest : List Char)
    (h1 : firstLit keywordLits (c :: rest) = none)
    (h2 : firstWord funcLits (c :: rest) = none)
    (h3 : stripLit "hex:".toList (c :: rest) = none)
    (h4 : isOpStart c = false) : lexOne (c :: rest) = lexTail c rest := by
  simp only [isOpStart, Bool.or_eq_false_iff, beq_eq_false_iff_ne, ne_eq] at h4
  obtain ⟨⟨⟨⟨⟨⟨⟨⟨⟨a1, a2⟩, a3⟩, a4⟩, a5⟩, a6⟩, a7⟩, a8⟩, a9⟩, a10⟩ := h4
  apply lexOne_tail' c rest h1 h2 h3
  · simpa using a1
  · simp [stripLit, Ne.symm a2]
  · simp [stripLit, Ne.symm a3]
  · simp [stripLit, Ne.symm a4]
  · simp [opLits, firstLit, stripLit, Ne.symm a2, Ne.symm a5, Ne.symm a6, Ne.symm a7, Ne.symm a8, Ne.symm a9]
  · simp [stripLit, Ne.symm a10]



theorem ne_of_pred {p : Char → Bool} {c d : Char} (hc : p c = true) (hd : p d = false) : c ≠ d := by
  rintro rfl; rw [hc] at hd; cases hd

theorem ne_of_pred' {p : Char → Bool} {c d : Char} (hc : p c = false) (hd : p d = true) : c ≠ d := by
  rintro rfl; rw [hc] at hd; cases hd

def opStartChars : List Char := ['.', '<', '|', '&', '=', '>', '+', '-', '*', '/']

theorem isOpStart_eq_false (c : Char) (h : ∀ d ∈ opStartChars, c ≠ d) : isOpStart c = false := by
  simp only [opStartChars, List.mem_cons, List.not_mem_nil, or_false, forall_eq_or_imp, forall_eq] at h
  simp [isOpStart, h]

theorem stripLit_none_of_head (p : Char → Bool) (l : List Char) (c : Char) (cs : List Char)
    (hl : l.head?.map p = some true) (hc : p c = false) : stripLit l (c :: cs) = none := by
  cases l with
  | nil => simp at hl
  | cons a ls =>
    simp only [List.head?_cons, Option.map_some, Option.some.injEq] at hl
    simp [stripLit, ne_of_pred hl hc]

theorem firstLit_none_of_head (p : Char → Bool) (lits : List String) (c : Char) (cs : List Char)
    (hl : ∀ l ∈ lits, l.toList.head?.map p = some true) (hc : p c = false) :
    firstLit lits (c :: cs) = none := by
  induction lits with
  | nil => rfl
  | cons l lits ih =>
    simp only [firstLit, stripLit_none_of_head p _ c cs (hl l (List.mem_cons_self ..)) hc]
    exact ih (fun l' h' => hl l' (List.mem_cons_of_mem _ h'))

theorem firstWord_none_of_head (p : Char → Bool) (lits : List String) (c : Char) (cs : List Char)
    (hl : ∀ l ∈ lits, l.toList.head?.map p = some true) (hc : p c = false) :
    firstWord lits (c :: cs) = none := by
  induction lits with
  | nil => rfl
  | cons l lits ih =>
    simp only [firstWord, stripLit_none_of_head p _ c cs (hl l (List.mem_cons_self ..)) hc]
    exact ih (fun l' h' => hl l' (List.mem_cons_of_mem _ h'))

/-- The Keyword, Function and Hex rules need a lower-case first character. -/
theorem pre_nonlower (c : Char) (rest : List Char) (h : isLower c = false) :
    firstLit keywordLits (c :: rest) = none ∧ firstWord funcLits (c :: rest) = none ∧
      stripLit "hex:".toList (c :: rest) = none :=
  ⟨firstLit_none_of_head isLower _ c rest (by decide) h,
   firstWord_none_of_head isLower _ c rest (by decide) h,
   stripLit_none_of_head isLower _ c rest (by decide) h⟩

theorem lexDate_nil : lexDate [] = none := by decide

theorem lexDate_nondigit (c : Char) (cs : List Char) (h : isDigit c = false) : lexDate (c :: cs) = none := by
  simp [lexDate_eq, lexDate', takeDigits, h]

theorem firstWord_bool_none (c : Char) (cs : List Char) (h : isLower c = false) :
    firstWord boolLits (c :: cs) = none :=
  firstWord_none_of_head isLower _ c cs (by decide) h

/-- `lexOne` at a character that is not a lower-case letter and starts no operator rule. -/
theorem lexOne_nonlower (c : Char) (rest : List Char) (h : isLower c = false) (h4 : isOpStart c = false) :
    lexOne (c :: rest) = lexTail c rest := by
  obtain ⟨h1, h2, h3⟩ := pre_nonlower c rest h
  exact lexOne_tail c rest h1 h2 h3 h4

/-! ### Literal tokens -/

theorem lexOne_keyword (k : String) (hk : k ∈ keywordLits) (rest : List Char) :
    lexOne (k.toList ++ ' ' :: rest) = some (some (.keyword k), ' ' :: rest) := by
  simp only [keywordLits, List.mem_cons, List.not_mem_nil, or_false] at hk
  rcases hk with rfl | rfl | rfl <;> simp [lexOne, firstLit, stripLit]

theorem lexOne_func (f : String) (hf : f ∈ funcLits) (rest : List Char) :
    lexOne (f.toList ++ ' ' :: rest) = some (some (.func f), ' ' :: rest) := by
  simp only [funcLits, List.mem_cons, List.not_mem_nil, or_false] at hf
  rcases hf with rfl | rfl | rfl | rfl | rfl <;>
    simp [lexOne, firstLit, firstWord, stripLit, atWordEnd, isWordChar, isLower, isDigit]

theorem lexOne_op (o : String) (ho : o ∈ opLits) (rest : List Char) :
    lexOne (o.toList ++ ' ' :: rest) = some (some (.op o), ' ' :: rest) := by
  simp only [opLits, List.mem_cons, List.not_mem_nil, or_false] at ho
  rcases ho with rfl | rfl | rfl | rfl | rfl | rfl | rfl | rfl <;>
    simp [lexOne, firstLit, firstWord, stripLit]

theorem lexOne_dot (rest : List Char) : lexOne ('.' :: ' ' :: rest) = some (some .dot, ' ' :: rest) := by
  simp [lexOne, firstLit, firstWord, stripLit]
theorem lexOne_arrow (rest : List Char) : lexOne ('<' :: '-' :: ' ' :: rest) = some (some .arrow, ' ' :: rest) := by
  simp [lexOne, firstLit, firstWord, stripLit]
theorem lexOne_orOp (rest : List Char) : lexOne ('|' :: '|' :: ' ' :: rest) = some (some .orOp, ' ' :: rest) := by
  simp [lexOne, firstLit, firstWord, stripLit]
theorem lexOne_andOp (rest : List Char) : lexOne ('&' :: '&' :: ' ' :: rest) = some (some .andOp, ' ' :: rest) := by
  simp [lexOne, firstLit, firstWord, stripLit]

theorem lexOne_true (rest : List Char) :
    lexOne ('t' :: 'r' :: 'u' :: 'e' :: ' ' :: rest) = some (some (.bool true), ' ' :: rest) := by
  simp [lexOne, firstLit, firstWord, stripLit, lexDate_nondigit, isDigit, atWordEnd, isWordChar, isLower]
theorem lexOne_false (rest : List Char) :
    lexOne ('f' :: 'a' :: 'l' :: 's' :: 'e' :: ' ' :: rest) = some (some (.bool false), ' ' :: rest) := by
  simp [lexOne, firstLit, firstWord, stripLit, lexDate_nondigit, isDigit, atWordEnd, isWordChar, isLower]

/-! ### Tokens with a payload -/

theorem lexOne_hex (ds : List Char) (hd : ds.all isHexDigit = true) (he : ds.length % 2 = 0)
    (rest : List Char) :
    lexOne ('h' :: 'e' :: 'x' :: ':' :: ds ++ ' ' :: rest) = some (some (.hex ds), ' ' :: rest) := by
  have hp := hexPairs_append_space ds rest (ds.length / 2) (by omega) hd
  have h1 : firstLit ["check if", "allow if", "deny if"] ('h' :: 'e' :: 'x' :: ':' :: ds ++ ' ' :: rest) = none := by
    simp [firstLit, stripLit]
  have h2 : firstWord ["prefix", "suffix", "matches", "length", "contains"]
      ('h' :: 'e' :: 'x' :: ':' :: ds ++ ' ' :: rest) = none := by
    simp [firstWord, stripLit]
  have h3 : stripLit "hex:".toList ('h' :: 'e' :: 'x' :: ':' :: ds ++ ' ' :: rest) = some (ds ++ ' ' :: rest) := by
    simp [stripLit]
  unfold lexOne
  simp only [h1, h2, h3, hp]

theorem lexOne_str (s : List Char) (hs : s.all (· != '"') = true) (rest : List Char) :
    lexOne ('"' :: s ++ '"' :: ' ' :: rest) = some (some (.str s), ' ' :: rest) := by
  rw [List.cons_append, lexOne_nonlower _ _ (by decide) (by decide)]
  have := spanWhile_append_stop (· != '"') s '"' (' ' :: rest) hs (by decide)
  simp [lexTail, this]

theorem lexOne_var (n : List Char) (hn : n ≠ []) (ha : n.all isNameChar = true) (rest : List Char) :
    lexOne ('$' :: n ++ ' ' :: rest) = some (some (.var (String.ofList n)), ' ' :: rest) := by
  rw [List.cons_append, lexOne_nonlower _ _ (by decide) (by decide)]
  have := spanWhile_append_stop isNameChar n ' ' rest ha (by decide)
  simp [lexTail, this, hn]

theorem lexOne_param (n : List Char) (hn : n ≠ []) (ha : n.all isNameChar = true) (rest : List Char) :
    lexOne ('{' :: n ++ '}' :: ' ' :: rest) = some (some (.param (String.ofList n)), ' ' :: rest) := by
  rw [List.cons_append, lexOne_nonlower _ _ (by decide) (by decide)]
  have := spanWhile_append_stop isNameChar n '}' (' ' :: rest) ha (by decide)
  have hne : n.isEmpty = false := by cases n with | nil => exact absurd rfl hn | cons _ _ => rfl
  simp [lexTail, this, hne]


theorem lexDate_head (s : List Char) (p : List Char × List Char) (h : lexDate s = some p) :
    ∃ c r, s = c :: r ∧ isDigit c = true := by
  cases s with
  | nil => rw [lexDate_nil] at h; cases h
  | cons c r =>
    refine ⟨c, r, rfl, ?_⟩
    cases hc : isDigit c with
    | true => rfl
    | false => rw [lexDate_nondigit c r hc] at h; cases h

def tailStartChars : List Char := ['"', '$', '{']

theorem isLower_of_isDigit {c : Char} (h : isDigit c = true) : isLower c = false := by
  cases hl : isLower c with
  | false => rfl
  | true =>
    simp only [isDigit, isLower, Bool.and_eq_true, decide_eq_true_eq] at h hl
    have h1 := h.2; have h2 := hl.1
    exact absurd (Char.le_trans h2 h1) (by decide)

theorem isOpStart_of_isDigit {c : Char} (h : isDigit c = true) : isOpStart c = false :=
  isOpStart_eq_false c (fun d hd => ne_of_pred h ((by decide : ∀ d ∈ opStartChars, isDigit d = false) d hd))

theorem isOpStart_of_isLower {c : Char} (h : isLower c = true) : isOpStart c = false :=
  isOpStart_eq_false c (fun d hd => ne_of_pred h ((by decide : ∀ d ∈ opStartChars, isLower d = false) d hd))

/-- `lexTail` at a character that starts none of String, Variable, Parameter. -/
theorem lexTail_plain (c : Char) (rest : List Char) (h : ∀ d ∈ tailStartChars, c ≠ d) :
    lexTail c rest =
      match lexDate (c :: rest) with
      | some (d, r) => some (some (.date d), r)
      | none =>
      if isDigit c then
        let sp := spanWhile isDigit (c :: rest)
        some (some (.int sp.1), sp.2)
      else
      match firstWord boolLits (c :: rest) with
      | some (b, r) => some (some (.bool (b == "true")), r)
      | none =>
      if isLower c then
        let sp := spanWhile isNameChar rest
        some (some (.ident (String.ofList (c :: sp.1))), sp.2)
      else if c == ' ' || c == '\t' then some (none, (spanWhile (fun x => x == ' ' || x == '\t') (c :: rest)).2)
      else if c == '\n' || c == '\r' then some (none, (spanWhile (fun x => x == '\n' || x == '\r') (c :: rest)).2)
      else if punctChars.contains c then some (some (.punct c), rest)
      else none := by
  simp only [tailStartChars, List.mem_cons, List.not_mem_nil, or_false, forall_eq_or_imp, forall_eq] at h
  have e1 : (c == '"') = false := by simpa using h.1
  have e2 : (c == '$') = false := by simpa using h.2.1
  have e3 : (c == '{') = false := by simpa using h.2.2
  unfold lexTail
  simp only [e1, e2, e3, Bool.false_eq_true, if_false] <;> rfl

theorem lexOne_date (s : List Char) (hs : lexDate s = some (s, [])) (rest : List Char) :
    lexOne (s ++ ' ' :: rest) = some (some (.date s), ' ' :: rest) := by
  obtain ⟨c, r, rfl, hc⟩ := lexDate_head s _ hs
  have hd := lexDate_sp (c :: r) rest
  rw [hs] at hd
  rw [List.cons_append] at hd ⊢
  rw [lexOne_nonlower _ _ (isLower_of_isDigit hc) (isOpStart_of_isDigit hc),
    lexTail_plain _ _ (fun d hd => ne_of_pred hc ((by decide : ∀ d ∈ tailStartChars, isDigit d = false) d hd)), hd]
  simp [padR]

theorem takeDigits_some {n : Nat} {cs : List Char} {p : List Char × List Char}
    (h : takeDigits n cs = some p) : p = (cs.take n, cs.drop n) := by
  unfold takeDigits at h
  dsimp only at h
  split at h
  · cases h; rfl
  · cases h

theorem lexDate_digits_none (ds : List Char) (hd : ds.all isDigit = true) (rest : List Char) :
    lexDate (ds ++ ' ' :: rest) = none := by
  rw [lexDate_sp]
  suffices lexDate ds = none by rw [this]; rfl
  rw [lexDate_eq, lexDate']
  cases h : takeDigits 4 ds with
  | none => rfl
  | some p =>
    have : stripLit ['-'] p.2 = none := by
      rw [takeDigits_some h]
      cases hr : List.drop 4 ds with
      | nil => rfl
      | cons x xs =>
        have hx : x ∈ ds := List.mem_of_mem_drop (hr ▸ List.mem_cons_self ..)
        have := (List.all_eq_true.mp hd) x hx
        simp only [stripLit]
        rw [show ('-' == x) = false from by simpa using (ne_of_pred this (by decide : isDigit '-' = false)).symm]
        rfl
    simp [this]

theorem lexOne_int (ds : List Char) (hn : ds ≠ []) (hd : ds.all isDigit = true) (rest : List Char) :
    lexOne (ds ++ ' ' :: rest) = some (some (.int ds), ' ' :: rest) := by
  have hdate := lexDate_digits_none ds hd rest
  have hsp := spanWhile_append_stop isDigit ds ' ' rest hd (by decide)
  cases ds with
  | nil => exact absurd rfl hn
  | cons c r =>
    have hc : isDigit c = true := by simp only [List.all_cons, Bool.and_eq_true] at hd; exact hd.1
    rw [List.cons_append] at hdate hsp ⊢
    rw [lexOne_nonlower _ _ (isLower_of_isDigit hc) (isOpStart_of_isDigit hc),
      lexTail_plain _ _ (fun d hd => ne_of_pred hc ((by decide : ∀ d ∈ tailStartChars, isDigit d = false) d hd)), hdate]
    simp only [hc, if_true, hsp]


/-! ### Identifiers -/

theorem atWordEnd_sp (r rest : List Char) : atWordEnd (r ++ ' ' :: rest) = atWordEnd r := by
  cases r <;> simp [atWordEnd, isWordChar, isLower, isDigit]

theorem firstWord_sp (lits : List String) (s rest : List Char)
    (hl : ∀ l ∈ lits, l.toList.all (· != ' ') = true) :
    firstWord lits (s ++ ' ' :: rest) = (firstWord lits s).map (padR rest) := by
  induction lits with
  | nil => simp [firstWord]
  | cons l lits ih =>
    have ih := ih (fun l' h' => hl l' (List.mem_cons_of_mem _ h'))
    simp only [firstWord]
    rw [stripLit_sp _ _ _ (hl l (List.mem_cons_self ..))]
    cases h : stripLit l.toList s with
    | none => simpa using ih
    | some r =>
      simp only [Option.map_some, atWordEnd_sp]
      split
      · simp [padR]
      · exact ih

/-- A literal with a space inside (`check if`) matches `s ++ ' ' :: rest`, `s` without spaces, only
when `s` is the part before the space. -/
theorem stripLit_space_lit (a b s rest : List Char) (ha : a.all (· != ' ') = true)
    (hs : s.all (· != ' ') = true) (hne : s ≠ a) : stripLit (a ++ ' ' :: b) (s ++ ' ' :: rest) = none := by
  induction a generalizing s with
  | nil =>
    cases s with
    | nil => exact absurd rfl hne
    | cons c s =>
      simp only [List.all_cons, Bool.and_eq_true, bne_iff_ne, ne_eq] at hs
      simp [stripLit, Ne.symm hs.1]
  | cons x a ih =>
    simp only [List.all_cons, Bool.and_eq_true, bne_iff_ne, ne_eq] at ha
    cases s with
    | nil => simp [stripLit, ha.1]
    | cons c s =>
      simp only [List.all_cons, Bool.and_eq_true] at hs
      simp only [List.cons_append, stripLit]
      split
      · rename_i hxc
        have hxc : x = c := by simpa using hxc
        exact ih s (by simpa using ha.2) hs.2 (fun e => hne (by rw [hxc, e]))
      · rfl

/-- What an identifier must not be: the first word of a keyword. -/
def keywordHeads : List (List Char) := ["check".toList, "allow".toList, "deny".toList]

theorem firstLit_keyword_sp (s rest : List Char) (hs : s.all (· != ' ') = true) (hk : s ∉ keywordHeads) :
    firstLit keywordLits (s ++ ' ' :: rest) = none := by
  simp only [keywordHeads, List.mem_cons, List.not_mem_nil, or_false, not_or] at hk
  have e1 := stripLit_space_lit "check".toList "if".toList s rest (by decide) hs hk.1
  have e2 := stripLit_space_lit "allow".toList "if".toList s rest (by decide) hs hk.2.1
  have e3 := stripLit_space_lit "deny".toList "if".toList s rest (by decide) hs hk.2.2
  rw [show "check".toList ++ ' ' :: "if".toList = "check if".toList from by decide] at e1
  rw [show "allow".toList ++ ' ' :: "if".toList = "allow if".toList from by decide] at e2
  rw [show "deny".toList ++ ' ' :: "if".toList = "deny if".toList from by decide] at e3
  simp only [keywordLits, firstLit, e1, e2, e3]

theorem isDigit_of_isLower {c : Char} (h : isLower c = true) : isDigit c = false := by
  cases hd : isDigit c with
  | false => rfl
  | true => rw [isLower_of_isDigit hd] at h; cases h

theorem isNameChar_ne_space {c : Char} (h : isNameChar c = true) : (c != ' ') = true := by
  simpa using ne_of_pred h (by decide : isNameChar ' ' = false)

theorem lexOne_ident (c : Char) (r : List Char) (hc : isLower c = true) (hr : r.all isNameChar = true)
    (hk : c :: r ∉ keywordHeads) (hf : firstWord funcLits (c :: r) = none)
    (hh : stripLit "hex:".toList (c :: r) = none) (hb : firstWord boolLits (c :: r) = none)
    (rest : List Char) :
    lexOne (c :: r ++ ' ' :: rest) = some (some (.ident (String.ofList (c :: r))), ' ' :: rest) := by
  have hname : isNameChar c = true := by simp [isNameChar, hc]
  have hsp : (c :: r).all (· != ' ') = true := by
    simp only [List.all_cons, Bool.and_eq_true]
    exact ⟨isNameChar_ne_space hname,
      List.all_eq_true.mpr fun x hx => isNameChar_ne_space (List.all_eq_true.mp hr x hx)⟩
  have h1 := firstLit_keyword_sp (c :: r) rest hsp hk
  have h2 := firstWord_sp funcLits (c :: r) rest (by decide)
  have h3 := stripLit_sp "hex:".toList (c :: r) rest (by decide)
  have h4 := firstWord_sp boolLits (c :: r) rest (by decide)
  rw [hf] at h2; rw [hh] at h3; rw [hb] at h4
  have hspan := spanWhile_append_stop isNameChar r ' ' rest hr (by decide)
  rw [List.cons_append] at h1 h2 h3 h4 ⊢
  rw [lexOne_tail _ _ h1 h2 h3 (isOpStart_of_isLower hc),
    lexTail_plain _ _ (fun d hd => ne_of_pred hc ((by decide : ∀ d ∈ tailStartChars, isLower d = false) d hd)),
    lexDate_nondigit _ _ (isDigit_of_isLower hc), h4]
  simp only [isDigit_of_isLower hc, Option.map_none, hc, if_true, hspan, Bool.false_eq_true, if_false]

/-! ### Punctuation and whitespace -/

/-- Punctuation characters that, followed by a space, are not claimed by an earlier rule:
`punctChars` without `. - + * < >` (Dot, Operator) and `"` (String, when a closing quote follows). -/
def wfPunct : List Char := "[!@%^&#$()_={}|:;',?/]".toList

theorem lexOne_punct (c : Char) (hc : c ∈ wfPunct) (rest : List Char) :
    lexOne (c :: ' ' :: rest) = some (some (.punct c), ' ' :: rest) := by
  have H1 : ∀ c ∈ wfPunct, isLower c = false ∧ isDigit c = false ∧ c ≠ '"' ∧ c ≠ ' ' ∧ c ≠ '\t' ∧
      c ≠ '\n' ∧ c ≠ '\r' ∧ c ∈ punctChars := by decide
  have H2 : ∀ c ∈ wfPunct, '.' ≠ c ∧ '<' ≠ c ∧ '>' ≠ c ∧ '+' ≠ c ∧ '-' ≠ c ∧ '*' ≠ c := by decide
  obtain ⟨a1, a2, a3, a4, a5, a6, a7, a8⟩ := H1 c hc
  obtain ⟨b1, b2, b3, b4, b5, b6⟩ := H2 c hc
  obtain ⟨h1, h2, h3⟩ := pre_nonlower c (' ' :: rest) a1
  rw [lexOne_tail' c _ h1 h2 h3 (by simpa using Ne.symm b1) (by simp [stripLit, b2]) (by simp [stripLit])
    (by simp [stripLit]) (by simp [opLits, firstLit, stripLit, b2, b3, b4, b5, b6]) (by simp [stripLit])]
  by_cases h1 : c = '$'
  · subst h1; simp [lexTail, spanWhile, isNameChar, isLower, isDigit]
  by_cases h2 : c = '{'
  · subst h2; simp [lexTail, spanWhile, isNameChar, isLower, isDigit]
  rw [lexTail_plain _ _ (by simp [tailStartChars, a3, h1, h2]), lexDate_nondigit _ _ a2,
    firstWord_bool_none _ _ a1]
  simp [a1, a2, a4, a5, a6, a7, a8]

/-- Whitespace is elided. -/
theorem lexOne_space (rest : List Char) :
    lexOne (' ' :: rest) = some (none, (spanWhile (fun x => x == ' ' || x == '\t') rest).2) := by
  rw [lexOne_nonlower _ _ (by decide) (by decide), lexTail_plain _ _ (by decide),
    lexDate_nondigit _ _ (by decide), firstWord_bool_none _ _ (by decide)]
  simp [isDigit, isLower, spanWhile]

theorem lexOne_tab (rest : List Char) :
    lexOne ('\t' :: rest) = some (none, (spanWhile (fun x => x == ' ' || x == '\t') rest).2) := by
  rw [lexOne_nonlower _ _ (by decide) (by decide), lexTail_plain _ _ (by decide),
    lexDate_nondigit _ _ (by decide), firstWord_bool_none _ _ (by decide)]
  simp [isDigit, isLower, spanWhile]


/-! ### Inversion of `lexOne` -/

macro "lex_inv " h:ident : tactic =>
  `(tactic| (unfold lexOne at $h:ident
             repeat' ((try dsimp only at $h:ident); split at $h:ident)
             all_goals try (simp at $h:ident; done)))

theorem firstLit_mem {lits : List String} {cs r : List Char} {l : String}
    (h : firstLit lits cs = some (l, r)) : l ∈ lits := by
  induction lits with
  | nil => cases h
  | cons a lits ih =>
    unfold firstLit at h
    split at h
    · cases h; exact List.mem_cons_self ..
    · exact List.mem_cons_of_mem _ (ih h)

theorem firstWord_mem {lits : List String} {cs r : List Char} {l : String}
    (h : firstWord lits cs = some (l, r)) : l ∈ lits := by
  induction lits with
  | nil => cases h
  | cons a lits ih =>
    unfold firstWord at h
    split at h
    · split at h
      · cases h; exact List.mem_cons_self ..
      · exact List.mem_cons_of_mem _ (ih h)
    · exact List.mem_cons_of_mem _ (ih h)

theorem hexPairs_fst (cs : List Char) :
    (hexPairs cs).1.all isHexDigit = true ∧ (hexPairs cs).1.length % 2 = 0 := by
  fun_induction hexPairs cs with
  | case1 a b rest h r ih =>
    simp only [Bool.and_eq_true] at h
    change (a :: b :: (hexPairs rest).1).all isHexDigit = true ∧ (a :: b :: (hexPairs rest).1).length % 2 = 0
    simp only [List.all_cons, h.1, h.2, ih.1, Bool.and_self, List.length_cons, true_and]
    have := ih.2
    omega
  | case2 a b rest h => simp
  | case3 cs h => simp

theorem lexOne_keyword_inv {cs r : List Char} {k : String} (h : lexOne cs = some (some (.keyword k), r)) :
    k ∈ keywordLits := by
  lex_inv h
  rename_i k' r' hk
  simp only [Option.some.injEq, Prod.mk.injEq, Tok.keyword.injEq] at h
  obtain ⟨rfl, rfl⟩ := h
  exact firstLit_mem hk

theorem lexOne_func_inv {cs r : List Char} {f : String} (h : lexOne cs = some (some (.func f), r)) :
    f ∈ funcLits := by
  lex_inv h
  rename_i k' r' hk
  simp only [Option.some.injEq, Prod.mk.injEq, Tok.func.injEq] at h
  obtain ⟨rfl, rfl⟩ := h
  exact firstWord_mem hk

theorem lexOne_op_inv {cs r : List Char} {o : String} (h : lexOne cs = some (some (.op o), r)) :
    o ∈ opLits := by
  lex_inv h
  rename_i k' r' hk
  simp only [Option.some.injEq, Prod.mk.injEq, Tok.op.injEq] at h
  obtain ⟨rfl, rfl⟩ := h
  exact firstLit_mem hk

theorem lexOne_hex_inv {cs r ds : List Char} (h : lexOne cs = some (some (.hex ds), r)) :
    ds.all isHexDigit = true ∧ ds.length % 2 = 0 := by
  lex_inv h
  simp only [Option.some.injEq, Prod.mk.injEq, Tok.hex.injEq] at h
  obtain ⟨rfl, rfl⟩ := h
  exact hexPairs_fst _

theorem lexOne_str_inv {cs r s : List Char} (h : lexOne cs = some (some (.str s), r)) :
    s.all (· != '"') = true := by
  lex_inv h
  simp only [Option.some.injEq, Prod.mk.injEq, Tok.str.injEq] at h
  obtain ⟨rfl, rfl⟩ := h
  exact spanWhile_fst_all _ _

theorem lexOne_var_inv {cs r : List Char} {n : String} (h : lexOne cs = some (some (.var n), r)) :
    n.toList ≠ [] ∧ n.toList.all isNameChar = true := by
  lex_inv h
  rename_i hne
  simp only [Option.some.injEq, Prod.mk.injEq, Tok.var.injEq] at h
  obtain ⟨rfl, rfl⟩ := h
  rw [String.toList_ofList]
  exact ⟨by simpa using hne, spanWhile_fst_all _ _⟩

theorem lexOne_param_inv {cs r : List Char} {n : String} (h : lexOne cs = some (some (.param n), r)) :
    n.toList ≠ [] ∧ n.toList.all isNameChar = true := by
  lex_inv h
  rename_i hne _
  simp only [Option.some.injEq, Prod.mk.injEq, Tok.param.injEq] at h
  obtain ⟨rfl, rfl⟩ := h
  rw [String.toList_ofList]
  exact ⟨by simpa using hne, spanWhile_fst_all _ _⟩

theorem lexOne_date_inv {cs r d : List Char} (h : lexOne cs = some (some (.date d), r)) :
    lexDate cs = some (d, r) := by
  lex_inv h
  rename_i hd
  simp only [Option.some.injEq, Prod.mk.injEq, Tok.date.injEq] at h
  obtain ⟨rfl, rfl⟩ := h
  exact hd

theorem lexOne_int_inv {cs r ds : List Char} (h : lexOne cs = some (some (.int ds), r)) :
    ds ≠ [] ∧ ds.all isDigit = true := by
  lex_inv h
  rename_i hc
  simp only [Option.some.injEq, Prod.mk.injEq, Tok.int.injEq] at h
  obtain ⟨rfl, rfl⟩ := h
  refine ⟨?_, spanWhile_fst_all _ _⟩
  simp [spanWhile, hc]

theorem lexOne_ident_inv {cs r : List Char} {s : String} (h : lexOne cs = some (some (.ident s), r)) :
    ∃ c rest, cs = c :: rest ∧ isLower c = true ∧ s = String.ofList (c :: (spanWhile isNameChar rest).1) ∧
      firstLit keywordLits cs = none ∧ firstWord funcLits cs = none ∧
      stripLit "hex:".toList cs = none ∧ firstWord boolLits cs = none := by
  lex_inv h
  simp only [Option.some.injEq, Prod.mk.injEq, Tok.ident.injEq] at h
  exact ⟨_, _, rfl, by assumption, h.1.symm, by assumption, by assumption, by assumption, by assumption⟩

theorem lexOne_punct_inv {cs r : List Char} {c : Char} (h : lexOne cs = some (some (.punct c), r)) :
    c ∈ punctChars ∧ cs = c :: r := by
  lex_inv h
  all_goals
    simp only [Option.some.injEq, Prod.mk.injEq, Tok.punct.injEq] at h
    obtain ⟨rfl, rfl⟩ := h
    constructor
    · first | decide | simp_all
    · simp_all

end Biscuit.Grammar
