/-
Proofs/WireAttenuation — lemmas for C02 at the wire level (Props/C02Wire).

`resolveTokenL` resolves EVERY block of a token through the token's whole cumulative
symbol table, the tables of later blocks included — the literal Go behaviour. A string
index of an early block that no earlier table declares therefore changes its meaning
when a later block declares a symbol at that index. The gate of `Unmarshal`
(`blocksDeclared`, Model/Unmarshal) excludes such tokens. Here: under the gate, appending
a table does not change what any earlier block resolves to.

The gate of the Go code does not look at VARIABLE terms, whose names also live in the
symbol table and are also read through `symStrGo`. The lemmas below use the stronger
`blocksDeclaredV`, which asks the variable indexes to be declared too. For a token that
passes `blocksDeclared` but not `blocksDeclaredV`, appending a block can change only the
NAMES of variables of earlier blocks (from the placeholder "<invalid symbol N>" to the
declared string), and it does so injectively per index as long as the new name is not
already a variable of the rule; by Props/C12Rename an injective renaming of the variables
of a rule does not change verdicts. That composition is not carried out here.
-/
import BiscuitModel.Model.Pipeline
import BiscuitModel.Proofs.SymbolsLemmas
import BiscuitModel.Proofs.Expr

namespace Biscuit
open Wire

/-! ### The gate with variables -/

def atomDeclaredV (t : SymTable) : IAtom → Bool
  | .string i => symDeclared t i
  | .variable i => symDeclared t i
  | _ => true

def termDeclaredV (t : SymTable) : ITerm → Bool
  | .atom a => atomDeclaredV t a
  | .set l => l.all (atomDeclaredV t)

def predDeclaredV (t : SymTable) (p : IPred) : Bool :=
  symDeclared t p.name && p.terms.all (termDeclaredV t)

def opDeclaredV (t : SymTable) : IOp → Bool
  | .value v => termDeclaredV t v
  | _ => true

def ruleDeclaredV (t : SymTable) (r : IRule) : Bool :=
  predDeclaredV t r.head && r.body.all (predDeclaredV t) &&
  r.exprs.all fun e => e.all (opDeclaredV t)

def checkDeclaredV (t : SymTable) (c : ICheck) : Bool := c.queries.all (ruleDeclaredV t)

def blockDeclaredV (t : SymTable) (m : BlockMsg) : Bool :=
  m.facts.all (predDeclaredV t) && m.rules.all (ruleDeclaredV t) &&
  m.checks.all (checkDeclaredV t)

/-- `blocksDeclared` with the variable indexes included. -/
def blocksDeclaredV (t : SymTable) : List BlockMsg → Bool
  | [] => true
  | m :: ms => let t' := extendTable t m.symbols; blockDeclaredV t' m && blocksDeclaredV t' ms

/-- The cumulative table of `resolveTokenL`, from any starting table. -/
def cumTable (t : SymTable) (msgs : List BlockMsg) : SymTable :=
  msgs.foldl (fun acc m => extendTable acc m.symbols) t

theorem resolveTokenL_eq (p : Bool) (msgs : List BlockMsg) :
    resolveTokenL p msgs = mapMOutcome (resolveBlockL p (cumTable [] msgs)) msgs := rfl

/-! ### `all` helpers -/

theorem all_imp {α : Type} {d d' : α → Bool} (h : ∀ x, d x = true → d' x = true) (l : List α)
    (hl : l.all d = true) : l.all d' = true := by
  rw [List.all_eq_true] at hl ⊢
  exact fun x hx => h x (hl x hx)

/-! ### The V-gate implies the gate of the code -/

theorem atomDeclared_of_V (t : SymTable) (a : IAtom) (h : atomDeclaredV t a = true) :
    atomDeclared t a = true := by
  cases a <;> first | exact h | rfl

theorem termDeclared_of_V (t : SymTable) (x : ITerm) (h : termDeclaredV t x = true) :
    termDeclared t x = true := by
  cases x with
  | atom a => exact atomDeclared_of_V t a h
  | set l => exact all_imp (atomDeclared_of_V t) l h

theorem predDeclared_of_V (t : SymTable) (q : IPred) (h : predDeclaredV t q = true) :
    predDeclared t q = true := by
  simp only [predDeclaredV, predDeclared, Bool.and_eq_true] at h ⊢
  exact ⟨h.1, all_imp (termDeclared_of_V t) _ h.2⟩

theorem ruleDeclared_of_V (t : SymTable) (r : IRule) (h : ruleDeclaredV t r = true) :
    ruleDeclared t r = true := by
  simp only [ruleDeclaredV, ruleDeclared, Bool.and_eq_true] at h ⊢
  refine ⟨⟨predDeclared_of_V t _ h.1.1, all_imp (predDeclared_of_V t) _ h.1.2⟩, ?_⟩
  refine all_imp (fun e he => all_imp (fun o ho => ?_) e he) _ h.2
  cases o with
  | value v => exact termDeclared_of_V t v ho
  | unary k => rfl
  | binary k => rfl

theorem blockDeclared_of_V (t : SymTable) (m : BlockMsg) (h : blockDeclaredV t m = true) :
    blockDeclared t m = true := by
  simp only [blockDeclaredV, blockDeclared, Bool.and_eq_true] at h ⊢
  exact ⟨⟨all_imp (predDeclared_of_V t) _ h.1.1, all_imp (ruleDeclared_of_V t) _ h.1.2⟩,
    all_imp (fun c hc => all_imp (ruleDeclared_of_V t) _ hc) _ h.2⟩

theorem blocksDeclared_of_V (msgs : List BlockMsg) : ∀ (t : SymTable),
    blocksDeclaredV t msgs = true → blocksDeclared t msgs = true := by
  induction msgs with
  | nil => intro _ _; rfl
  | cons m ms ih =>
    intro t h
    simp only [blocksDeclaredV, blocksDeclared, Bool.and_eq_true] at h ⊢
    exact ⟨blockDeclared_of_V _ m h.1, ih _ h.2⟩

/-! ### Tables only grow at the end -/

theorem extendTable_prefix (t : SymTable) (new : List Bytes) : ∃ ext, extendTable t new = t ++ ext := by
  unfold extendTable
  induction new generalizing t with
  | nil => exact ⟨[], by simp⟩
  | cons s ss ih =>
    simp only [List.foldl_cons]
    obtain ⟨e1, h1⟩ := sym_symInsert_ext t s
    obtain ⟨e2, h2⟩ := ih (symInsert t s).1
    exact ⟨e1 ++ e2, by rw [h2, h1, List.append_assoc]⟩

theorem cumTable_prefix (msgs : List BlockMsg) : ∀ t : SymTable, ∃ ext, cumTable t msgs = t ++ ext := by
  induction msgs with
  | nil => intro t; exact ⟨[], by simp [cumTable]⟩
  | cons m ms ih =>
    intro t
    obtain ⟨e1, h1⟩ := extendTable_prefix t m.symbols
    obtain ⟨e2, h2⟩ := ih (extendTable t m.symbols)
    refine ⟨e1 ++ e2, ?_⟩
    have : cumTable t (m :: ms) = cumTable (extendTable t m.symbols) ms := rfl
    rw [this, h2, h1, List.append_assoc]

theorem cumTable_append (t : SymTable) (msgs : List BlockMsg) (b : BlockMsg) :
    cumTable t (msgs ++ [b]) = extendTable (cumTable t msgs) b.symbols := by
  simp [cumTable, List.foldl_append]

/-! ### Declared indexes stay declared -/

theorem symDeclared_mono (t ext : SymTable) (i : Nat) (h : symDeclared t i = true) :
    symDeclared (t ++ ext) i = true := by
  unfold symDeclared at h ⊢
  obtain ⟨x, hx⟩ := Option.isSome_iff_exists.mp h
  rw [sym_append_prefix_stable t ext i x hx]; rfl

theorem atomDeclaredV_mono (t ext : SymTable) (a : IAtom) (h : atomDeclaredV t a = true) :
    atomDeclaredV (t ++ ext) a = true := by
  cases a <;> first | exact symDeclared_mono t ext _ h | rfl

theorem termDeclaredV_mono (t ext : SymTable) (x : ITerm) (h : termDeclaredV t x = true) :
    termDeclaredV (t ++ ext) x = true := by
  cases x with
  | atom a => exact atomDeclaredV_mono t ext a h
  | set l => exact all_imp (atomDeclaredV_mono t ext) l h

theorem predDeclaredV_mono (t ext : SymTable) (q : IPred) (h : predDeclaredV t q = true) :
    predDeclaredV (t ++ ext) q = true := by
  simp only [predDeclaredV, Bool.and_eq_true] at h ⊢
  exact ⟨symDeclared_mono t ext _ h.1, all_imp (termDeclaredV_mono t ext) _ h.2⟩

theorem opDeclaredV_mono (t ext : SymTable) (o : IOp) (h : opDeclaredV t o = true) :
    opDeclaredV (t ++ ext) o = true := by
  cases o with
  | value v => exact termDeclaredV_mono t ext v h
  | unary k => rfl
  | binary k => rfl

theorem ruleDeclaredV_mono (t ext : SymTable) (r : IRule) (h : ruleDeclaredV t r = true) :
    ruleDeclaredV (t ++ ext) r = true := by
  simp only [ruleDeclaredV, Bool.and_eq_true] at h ⊢
  exact ⟨⟨predDeclaredV_mono t ext _ h.1.1, all_imp (predDeclaredV_mono t ext) _ h.1.2⟩,
    all_imp (fun e he => all_imp (opDeclaredV_mono t ext) e he) _ h.2⟩

theorem checkDeclaredV_mono (t ext : SymTable) (c : ICheck) (h : checkDeclaredV t c = true) :
    checkDeclaredV (t ++ ext) c = true :=
  all_imp (ruleDeclaredV_mono t ext) _ h

theorem blockDeclaredV_mono (t ext : SymTable) (m : BlockMsg) (h : blockDeclaredV t m = true) :
    blockDeclaredV (t ++ ext) m = true := by
  simp only [blockDeclaredV, Bool.and_eq_true] at h ⊢
  exact ⟨⟨all_imp (predDeclaredV_mono t ext) _ h.1.1, all_imp (ruleDeclaredV_mono t ext) _ h.1.2⟩,
    all_imp (checkDeclaredV_mono t ext) _ h.2⟩

/-- Under the gate every block is declared in the token's final table. -/
theorem blocksDeclaredV_cum (msgs : List BlockMsg) : ∀ t : SymTable, blocksDeclaredV t msgs = true →
    ∀ m ∈ msgs, blockDeclaredV (cumTable t msgs) m = true := by
  induction msgs with
  | nil => intro _ _ m hm; cases hm
  | cons m0 ms ih =>
    intro t h m hm
    simp only [blocksDeclaredV, Bool.and_eq_true] at h
    have hc : cumTable t (m0 :: ms) = cumTable (extendTable t m0.symbols) ms := rfl
    rw [hc]
    rcases List.mem_cons.mp hm with rfl | hm'
    · obtain ⟨e, he⟩ := cumTable_prefix ms (extendTable t m.symbols)
      rw [he]; exact blockDeclaredV_mono _ e m h.1
    · exact ih _ h.2 m hm'

/-! ### `mapMOutcome` -/

theorem mapMOutcome_congr {α β : Type} {f g : α → Outcome β} (l : List α)
    (h : ∀ x ∈ l, f x = g x) : mapMOutcome f l = mapMOutcome g l := by
  induction l with
  | nil => rfl
  | cons x xs ih =>
    simp only [mapMOutcome]
    rw [h x (List.mem_cons_self), ih fun y hy => h y (List.mem_cons_of_mem _ hy)]

theorem mapMOutcome_congr_all {α β : Type} {f g : α → Outcome β} {d : α → Bool}
    (h : ∀ x, d x = true → f x = g x) (l : List α) (hl : l.all d = true) :
    mapMOutcome f l = mapMOutcome g l :=
  mapMOutcome_congr l fun x hx => h x (List.all_eq_true.mp hl x hx)

theorem mapMOutcome_append_ok {α β : Type} (f : α → Outcome β) (l1 l2 : List α) :
    ∀ r, mapMOutcome f (l1 ++ l2) = .ok r →
      ∃ r1 r2, mapMOutcome f l1 = .ok r1 ∧ mapMOutcome f l2 = .ok r2 ∧ r = r1 ++ r2 := by
  induction l1 with
  | nil => intro r h; exact ⟨[], r, rfl, h, rfl⟩
  | cons x xs ih =>
    intro r h
    simp only [List.cons_append, mapMOutcome] at h
    obtain ⟨y, hy, h⟩ := Outcome.bind_eq_ok h
    obtain ⟨ys, hys, h⟩ := Outcome.bind_eq_ok h
    obtain ⟨r1, r2, h1, h2, rfl⟩ := ih ys hys
    cases h
    refine ⟨y :: r1, r2, ?_, h2, rfl⟩
    simp only [mapMOutcome, hy, h1]; rfl

theorem mapMOutcome_singleton_ok {α β : Type} (f : α → Outcome β) (b : α) (r : List β)
    (h : mapMOutcome f [b] = .ok r) : ∃ y, f b = .ok y ∧ r = [y] := by
  simp only [mapMOutcome] at h
  obtain ⟨y, hy, h⟩ := Outcome.bind_eq_ok h
  cases h
  exact ⟨y, hy, rfl⟩

theorem mapMOutcome_length {α β : Type} (f : α → Outcome β) (l : List α) :
    ∀ r, mapMOutcome f l = .ok r → r.length = l.length := by
  induction l with
  | nil => intro r h; cases h; rfl
  | cons x xs ih =>
    intro r h
    simp only [mapMOutcome] at h
    obtain ⟨y, _, h⟩ := Outcome.bind_eq_ok h
    obtain ⟨ys, hys, h⟩ := Outcome.bind_eq_ok h
    cases h
    simp [ih ys hys]

/-! ### Resolution of declared content does not look at what is appended to the table -/

theorem symStrGo_stable (p : Bool) (t ext : SymTable) (i : Nat) (h : symDeclared t i = true) :
    symStrGo p (t ++ ext) i = symStrGo p t i := by
  unfold symDeclared at h
  obtain ⟨x, hx⟩ := Option.isSome_iff_exists.mp h
  unfold symStrGo
  rw [sym_append_prefix_stable t ext i x hx, hx]

theorem resolveAtomL_stable (p : Bool) (t ext : SymTable) (a : IAtom) (h : atomDeclaredV t a = true) :
    resolveAtomL p (t ++ ext) a = resolveAtomL p t a := by
  cases a <;> simp only [resolveAtomL] <;> rw [symStrGo_stable p t ext _ h]

theorem resolveTermL_stable (p : Bool) (t ext : SymTable) (x : ITerm) (h : termDeclaredV t x = true) :
    resolveTermL p (t ++ ext) x = resolveTermL p t x := by
  cases x with
  | atom a =>
    have h' : atomDeclaredV t a = true := h
    cases a <;> simp only [resolveTermL] <;>
      first
      | rw [symStrGo_stable p t ext _ h']
      | rw [resolveAtomL_stable p t ext _ h']
  | set l =>
    simp only [resolveTermL]
    rw [mapMOutcome_congr_all (resolveAtomL_stable p t ext) l h]

theorem resolvePredL_stable (p : Bool) (t ext : SymTable) (q : IPred) (h : predDeclaredV t q = true) :
    resolvePredL p (t ++ ext) q = resolvePredL p t q := by
  simp only [predDeclaredV, Bool.and_eq_true] at h
  simp only [resolvePredL]
  rw [symStrGo_stable p t ext _ h.1, mapMOutcome_congr_all (resolveTermL_stable p t ext) _ h.2]

theorem resolveFactL_stable (p : Bool) (t ext : SymTable) (q : IPred) (h : predDeclaredV t q = true) :
    resolveFactL p (t ++ ext) q = resolveFactL p t q := by
  simp only [resolveFactL]
  rw [resolvePredL_stable p t ext q h]

theorem resolveOpL_stable (p : Bool) (t ext : SymTable) (o : IOp) (h : opDeclaredV t o = true) :
    resolveOpL p (t ++ ext) o = resolveOpL p t o := by
  cases o with
  | value v => simp only [resolveOpL]; rw [resolveTermL_stable p t ext v h]
  | unary k => rfl
  | binary k => rfl

theorem resolveRuleL_stable (p : Bool) (t ext : SymTable) (r : IRule) (h : ruleDeclaredV t r = true) :
    resolveRuleL p (t ++ ext) r = resolveRuleL p t r := by
  simp only [ruleDeclaredV, Bool.and_eq_true] at h
  simp only [resolveRuleL]
  rw [resolvePredL_stable p t ext _ h.1.1,
    mapMOutcome_congr_all (resolvePredL_stable p t ext) _ h.1.2,
    mapMOutcome_congr_all (d := fun e => e.all (opDeclaredV t))
      (fun e he => mapMOutcome_congr_all (resolveOpL_stable p t ext) e he) _ h.2]

theorem resolveCheckL_stable (p : Bool) (t ext : SymTable) (c : ICheck) (h : checkDeclaredV t c = true) :
    resolveCheckL p (t ++ ext) c = resolveCheckL p t c := by
  simp only [resolveCheckL]
  rw [mapMOutcome_congr_all (resolveRuleL_stable p t ext) _ h]

theorem resolveBlockL_stable (p : Bool) (t ext : SymTable) (m : BlockMsg) (h : blockDeclaredV t m = true) :
    resolveBlockL p (t ++ ext) m = resolveBlockL p t m := by
  simp only [blockDeclaredV, Bool.and_eq_true] at h
  simp only [resolveBlockL]
  rw [mapMOutcome_congr_all (resolveFactL_stable p t ext) _ h.1.1,
    mapMOutcome_congr_all (resolveRuleL_stable p t ext) _ h.1.2,
    mapMOutcome_congr_all (resolveCheckL_stable p t ext) _ h.2]

/-! ### Appending a block on the wire -/

/-- The earlier blocks of the appended token resolve exactly as in the parent token. -/
theorem resolveTokenL_append (p : Bool) (msgs : List BlockMsg) (b : BlockMsg)
    (h : blocksDeclaredV [] msgs = true) (toksTB : List Block)
    (hTB : resolveTokenL p (msgs ++ [b]) = .ok toksTB) :
    ∃ toksT bB, resolveTokenL p msgs = .ok toksT ∧ toksTB = toksT ++ [bB] := by
  rw [resolveTokenL_eq, cumTable_append] at hTB
  obtain ⟨ext, hext⟩ := extendTable_prefix (cumTable [] msgs) b.symbols
  rw [hext] at hTB
  obtain ⟨r1, r2, h1, h2, rfl⟩ := mapMOutcome_append_ok _ msgs [b] toksTB hTB
  obtain ⟨bB, _, rfl⟩ := mapMOutcome_singleton_ok _ b r2 h2
  refine ⟨r1, bB, ?_, rfl⟩
  rw [resolveTokenL_eq, ← h1]
  exact (mapMOutcome_congr msgs fun m hm =>
    resolveBlockL_stable p _ ext m (blocksDeclaredV_cum msgs [] h m hm)).symm

theorem resolveTokenL_length (p : Bool) (msgs : List BlockMsg) (toks : List Block)
    (h : resolveTokenL p msgs = .ok toks) : toks.length = msgs.length :=
  mapMOutcome_length _ msgs toks h

end Biscuit
