/-
Proofs/Wire — helper lemmas for C07 / C18 (wire round trips, symbol tables).

The lemmas live in three files: `Proofs/WireRoundtrip` (protobuf layer, names `wire_*`),
`Proofs/SymbolsLemmas` (interning / resolution, names `sym_*`) and `Proofs/Snapshot`
(string-level save / load, names `snap_*`).
-/
import BiscuitModel.Model.Symbols
import BiscuitModel.Spec.WireWF
import BiscuitModel.Proofs.WireRoundtrip
import BiscuitModel.Proofs.SymbolsLemmas
import BiscuitModel.Proofs.Snapshot

namespace Biscuit

end Biscuit
