/-
Proofs/Wire — helper lemmas for C07 / C18 (wire round trips, symbol tables).
-/
import BiscuitModel.Model.Symbols
import BiscuitModel.Spec.WireWF

namespace Biscuit

end Biscuit
