/-
Proofs/GrammarItems — helper lemmas for C14Items: the statement layer of the parser
(`parsePred`, `parseElem(s)`, `parseQueries`, `parseItem(s)`) re-reads the reference
rendering of `Model/Render`.

Same conventions as `Proofs/Grammar`: `TermOK`, `WFx`, … are the proof-side copies of the
well-formedness predicates of `Props/C14`; `PredOK`, `ElemOK`, … below are the copies of
the ones of `Props/C14Items`.  Fuel is handled by explicit lower bounds.
-/
import BiscuitModel.Model.Render
import BiscuitModel.Proofs.Grammar

namespace Biscuit.Grammar
open Biscuit Biscuit.Printer Biscuit.Render

/-! ## First tokens -/

/-- A term never renders to nothing, and its first token is a literal, a variable, a
parameter, `[` or the sign `-` of an integer literal. -/
def termStart : Tok → Bool
  | .param _ | .var _ | .int _ | .str _ | .date _ | .hex _ | .bool _ | .punct '[' | .op "-" => true
  | _ => false

theorem renderTermToks_head (t : PTerm) :
    ∃ x xs, renderTermToks t = x :: xs ∧ termStart x = true := by
  cases t with
  | set elts => exact ⟨.punct '[', _, by rw [renderTermToks_set]; rfl, rfl⟩
  | negInt ds => exact ⟨.op "-", [.int ds], rfl, by decide⟩
  | _ => exact ⟨_, [], rfl, rfl⟩

/-- First token of an expression: what a term starts with, `(` or `!`. -/
def exprStart (x : Tok) : Bool := termStart x || x == .punct '(' || x == .punct '!'

theorem renderToks_head (e : PExpr) :
    ∃ x xs, renderToks e = x :: xs ∧ exprStart x = true := by
  induction e with
  | term t =>
    obtain ⟨x, xs, h, hx⟩ := renderTermToks_head t
    exact ⟨x, xs, h, by simp [exprStart, hx]⟩
  | paren e _ => exact ⟨.punct '(', _, rfl, rfl⟩
  | neg e _ => exact ⟨.punct '!', _, rfl, rfl⟩
  | bin op l r ihl _ =>
    obtain ⟨x, xs, h, hx⟩ := ihl
    exact ⟨x, _, by simp only [renderToks, h, List.cons_append]; rfl, hx⟩
  | method op recv arg ihr _ =>
    obtain ⟨x, xs, h, hx⟩ := ihr
    exact ⟨x, _, by simp only [renderToks, h, List.cons_append]; rfl, hx⟩
  | length recv ihr =>
    obtain ⟨x, xs, h, hx⟩ := ihr
    exact ⟨x, _, by simp only [renderToks, h, List.cons_append]; rfl, hx⟩

theorem exprStart_not_ident {x : Tok} (h : exprStart x = true) (n : String) : x ≠ .ident n := by
  intro hx; subst hx; simp [exprStart, termStart] at h

theorem termStart_not_rparen {x : Tok} (h : termStart x = true) : x ≠ .punct ')' := by
  intro hx; subst hx; simp [termStart] at h

theorem termStart_not_lbracket_of_atom {t : PTerm} (h : AtomOK t) (rest r : List Tok) :
    atomToks t ++ rest = .punct '[' :: r → False := by
  intro hx; cases t <;> simp [atomToks] at hx; exact h

/-! ## `joinWith` -/

theorem joinWith_cons_cons (sep : Tok) (x y : List Tok) (ys : List (List Tok)) :
    joinWith sep (x :: y :: ys) = x ++ sep :: joinWith sep (y :: ys) := rfl

theorem joinWith_single (sep : Tok) (x : List Tok) : joinWith sep [x] = x := rfl

theorem length_joinWith_cons_cons (sep : Tok) (x y : List Tok) (ys : List (List Tok)) :
    (joinWith sep (x :: y :: ys)).length = x.length + 1 + (joinWith sep (y :: ys)).length := by
  simp [joinWith]; omega

theorem renderTerms_single (t : PTerm) : renderTerms [t] = renderTermToks t := rfl
theorem renderTerms_cons_cons (t t' : PTerm) (ts : List PTerm) :
    renderTerms (t :: t' :: ts) = renderTermToks t ++ .punct ',' :: renderTerms (t' :: ts) := rfl
theorem renderBody_single (e : PElem) : renderBody [e] = renderElem e := rfl
theorem renderBody_cons_cons (e e' : PElem) (es : List PElem) :
    renderBody (e :: e' :: es) = renderElem e ++ .punct ',' :: renderBody (e' :: es) := rfl
theorem renderQueries_single (q : List PElem) : renderQueries [q] = renderBody q := rfl
theorem renderQueries_cons_cons (q q' : List PElem) (qs : List (List PElem)) :
    renderQueries (q :: q' :: qs) = renderBody q ++ .ident "or" :: renderQueries (q' :: qs) := rfl

/-! ## Terms and term lists -/

theorem length_renderTermToks_set (elts : List PTerm) (hok : ∀ t ∈ elts, AtomOK t) :
    elts.length + 2 ≤ (renderTermToks (.set elts)).length := by
  have := length_le_joinToks elts hok
  rw [renderTermToks_set]; simp; omega

/-- `parseTerm` re-reads a rendered term; the fuel only has to cover the elements of a set. -/
theorem parseTerm_render {t : PTerm} (h : TermOK t) (rest : List Tok) (f : Nat)
    (hf : f + 1 ≥ (renderTermToks t).length) :
    parseTerm f (renderTermToks t ++ rest) = some (t, rest) := by
  by_cases hs : AtomOK t
  · rw [renderTermToks_atom hs, parseTerm.eq_2 _ _ (termStart_not_lbracket_of_atom hs rest),
      parseAtomTerm_atom hs]
  · cases t with
    | set elts =>
      obtain ⟨hne, hok⟩ := h
      have hl := length_renderTermToks_set elts hok
      have hr : renderTermToks (.set elts) ++ rest =
          .punct '[' :: (renderTermToks.joinToks (elts.map atomToks) ++ (.punct ']' :: rest)) := by
        rw [renderTermToks_set]; simp
      rw [hr, parseTerm.eq_1,
        parseAtomList_join elts hne hok _ (by intro r hx; simp at hx) f (by omega)]
      rfl
    | _ => exact absurd trivial hs

/-- Well-formed argument list: every term is well formed. -/
def TermsOK (ts : List PTerm) : Prop := ∀ t ∈ ts, TermOK t

theorem parseTermList_render (ts : List PTerm) (hne : ts ≠ []) (hok : TermsOK ts)
    (rest : List Tok) (hr : commaStop rest) (f : Nat) (hf : f ≥ (renderTerms ts).length) :
    parseTermList f (renderTerms ts ++ rest) = some (ts, rest) := by
  induction ts generalizing f with
  | nil => exact absurd rfl hne
  | cons t ts ih =>
    have ht : TermOK t := hok t (by simp)
    obtain ⟨x, xs, hx, _⟩ := renderTermToks_head t
    have hpos : 1 ≤ (renderTermToks t).length := by rw [hx]; simp
    cases ts with
    | nil =>
      rw [renderTerms_single] at hf ⊢
      obtain ⟨g, rfl⟩ : ∃ g, f = g + 1 := ⟨f - 1, by omega⟩
      rw [parseTermList.eq_2, parseTerm_render ht rest g (by omega)]
      split
      · next heq => simp at heq
      · next heq =>
        simp only [Option.some.injEq, Prod.mk.injEq] at heq
        exact absurd heq.2 (fun h => hr _ h)
      · next heq => simp only [Option.some.injEq, Prod.mk.injEq] at heq; obtain ⟨rfl, rfl⟩ := heq; rfl
    | cons t' ts' =>
      rw [renderTerms_cons_cons] at hf ⊢
      simp only [List.length_append, List.length_cons] at hf
      obtain ⟨g, rfl⟩ : ∃ g, f = g + 1 := ⟨f - 1, by omega⟩
      have hrec := ih (by simp) (fun x hx => hok x (by simp [hx])) g (by omega)
      rw [List.append_assoc, List.cons_append, parseTermList.eq_2,
        parseTerm_render ht _ g (by omega)]
      simp only [hrec]

/-! ## Predicates -/

def PredOK (p : PPred) : Prop := TermsOK p.terms

theorem renderTerms_head (t : PTerm) (ts : List PTerm) :
    ∃ x xs, renderTerms (t :: ts) = x :: xs ∧ termStart x = true := by
  obtain ⟨x, xs, hx, hs⟩ := renderTermToks_head t
  cases ts with
  | nil => exact ⟨x, xs, hx, hs⟩
  | cons t' ts' =>
    exact ⟨x, _, by simp only [renderTerms, List.map, joinWith, hx, List.cons_append]; rfl, hs⟩

/-- `parsePred` re-reads a rendered predicate; fuel: the number of its tokens (any fuel for
the zero-argument form). -/
theorem parsePred_render (p : PPred) (h : PredOK p) (rest : List Tok) (f : Nat)
    (hf : f ≥ (renderPred p).length) :
    parsePred f (renderPred p ++ rest) = some (p, rest) := by
  obtain ⟨n, ts⟩ := p
  cases ts with
  | nil => exact parsePred.eq_1 f n rest
  | cons t ts =>
    have hsplit : renderPred ⟨n, t :: ts⟩ ++ rest =
        .ident n :: .punct '(' :: (renderTerms (t :: ts) ++ (.punct ')' :: rest)) := by
      simp [renderPred]
    have hlen : (renderPred ⟨n, t :: ts⟩).length = (renderTerms (t :: ts)).length + 3 := by
      simp [renderPred]
    obtain ⟨x, xs, hx, hs⟩ := renderTerms_head t ts
    rw [hsplit, parsePred.eq_2]
    · rw [parseTermList_render (t :: ts) (by simp) h _ (by intro r hr; simp at hr) f (by omega)]
      rfl
    · intro r hr
      rw [hx] at hr
      simp only [List.cons_append, List.cons.injEq] at hr
      exact termStart_not_rparen hs hr.1

/-- Zero arguments: fuel is irrelevant (also fuel 0). -/
theorem parsePred_render_nullary (n : String) (rest : List Tok) (f : Nat) :
    parsePred f (renderPred ⟨n, []⟩ ++ rest) = some (⟨n, []⟩, rest) := parsePred.eq_1 f n rest

/-! ## Body elements -/

def ElemOK : PElem → Prop
  | .pred p => PredOK p
  | .expr e => WFx e

/-- What may follow an element: nothing is required after a predicate (it ends with `)`),
after an expression no token that continues an expression. -/
def elemFollow : PElem → List Tok → Prop
  | .pred _, _ => True
  | .expr _, rest => Follow 0 rest

/-- The parser decides "predicate or expression" on the first two tokens: identifier, `(`. -/
def startsLikePred : List Tok → Bool
  | .ident _ :: .punct '(' :: _ => true
  | _ => false

/-- No rendered expression is mistaken for a predicate: no side condition is needed. -/
theorem startsLikePred_renderToks (e : PExpr) (rest : List Tok) :
    startsLikePred (renderToks e ++ rest) = false := by
  obtain ⟨x, xs, hx, hs⟩ := renderToks_head e
  rw [hx]
  cases x <;> first | rfl | simp [exprStart, termStart] at hs

theorem startsLikePred_renderPred (p : PPred) (rest : List Tok) :
    startsLikePred (renderPred p ++ rest) = true := rfl

theorem parseElem_render (e : PElem) (h : ElemOK e) (rest : List Tok) (hF : elemFollow e rest)
    (f : Nat) (hf : f ≥ 16 * (renderElem e).length + 15) :
    parseElem f (renderElem e ++ rest) = some (e, rest) := by
  cases e with
  | pred p =>
    have hp := parsePred_render p h rest f (by simp only [renderElem] at hf; omega)
    have hsplit : renderPred p ++ rest =
        .ident p.name :: .punct '(' :: (renderTerms p.terms ++ [.punct ')'] ++ rest) := by
      simp [renderPred]
    show parseElem f (renderPred p ++ rest) = _
    rw [hsplit] at hp ⊢
    rw [parseElem.eq_1, hp]; rfl
  | expr e =>
    show parseElem f (renderToks e ++ rest) = _
    rw [parseElem.eq_2, parseOr_render e h rest hF f hf]; rfl
    intro n r hx
    have := startsLikePred_renderToks e rest
    rw [hx] at this
    exact absurd this (by simp [startsLikePred])

/-! ## Bodies -/

def BodyOK (body : List PElem) : Prop := body ≠ [] ∧ ∀ e ∈ body, ElemOK e

/-- The follow condition of the last element of a body. -/
def bodyFollow (body : List PElem) (rest : List Tok) : Prop :=
  ∀ e, body.getLast? = some e → elemFollow e rest

theorem Follow_comma (k : Nat) (r : List Tok) : Follow k (.punct ',' :: r) := by
  simp [Follow, orStop, andStop, cmpStop, addStop, mulStop, dotStop, cmpOfTok, addOfTok, mulOfTok]

theorem Follow_orIdent (k : Nat) (r : List Tok) : Follow k (.ident "or" :: r) := by
  simp [Follow, orStop, andStop, cmpStop, addStop, mulStop, dotStop, cmpOfTok, addOfTok, mulOfTok]

theorem Follow_semicolon (k : Nat) (r : List Tok) : Follow k (.punct ';' :: r) := by
  simp [Follow, orStop, andStop, cmpStop, addStop, mulStop, dotStop, cmpOfTok, addOfTok, mulOfTok]

theorem Follow_nil (k : Nat) : Follow k [] := by
  simp [Follow, orStop, andStop, cmpStop, addStop, mulStop, dotStop]

theorem elemFollow_of_Follow {e : PElem} {rest : List Tok} (h : Follow 0 rest) : elemFollow e rest := by
  cases e <;> first | trivial | exact h

theorem parseElems_render (body : List PElem) (h : BodyOK body) (rest : List Tok)
    (hc : commaStop rest) (hF : bodyFollow body rest) (f : Nat)
    (hf : f ≥ 16 * (renderBody body).length + 16) :
    parseElems f (renderBody body ++ rest) = some (body, rest) := by
  obtain ⟨hne, hok⟩ := h
  revert hne hok hF f
  induction body with
  | nil => intro hF f hf hne; exact absurd rfl hne
  | cons e es ih =>
    intro hF f hf _ hok
    have he : ElemOK e := hok e (by simp)
    cases es with
    | nil =>
      have hFe : elemFollow e rest := hF e (by simp)
      rw [renderBody_single] at hf ⊢
      obtain ⟨g, rfl⟩ : ∃ g, f = g + 1 := ⟨f - 1, by omega⟩
      rw [parseElems.eq_2, parseElem_render e he rest hFe g (by omega)]
      split
      · next heq => simp at heq
      · next heq =>
        simp only [Option.some.injEq, Prod.mk.injEq] at heq
        exact absurd heq.2 (fun h => hc _ h)
      · next heq => simp only [Option.some.injEq, Prod.mk.injEq] at heq; obtain ⟨rfl, rfl⟩ := heq; rfl
    | cons e' es' =>
      rw [renderBody_cons_cons] at hf ⊢
      simp only [List.length_append, List.length_cons] at hf
      obtain ⟨g, rfl⟩ : ∃ g, f = g + 1 := ⟨f - 1, by omega⟩
      have hrec := ih (by intro x hx; exact hF x (by simpa using hx)) g (by omega) (by simp)
        (fun x hx => hok x (by simp [hx]))
      rw [List.append_assoc, List.cons_append, parseElems.eq_2,
        parseElem_render e he _ (elemFollow_of_Follow (Follow_comma 0 _)) g (by omega)]
      simp only [hrec]

/-! ## Queries -/

def orIdentStop (rest : List Tok) : Prop := ∀ r, rest = .ident "or" :: r → False

def QueriesOK (qs : List (List PElem)) : Prop := qs ≠ [] ∧ ∀ q ∈ qs, BodyOK q

/-- The follow condition of the last element of the last query. -/
def queriesFollow (qs : List (List PElem)) (rest : List Tok) : Prop :=
  ∀ q, qs.getLast? = some q → bodyFollow q rest

theorem parseQueries_render (qs : List (List PElem)) (h : QueriesOK qs) (rest : List Tok)
    (hc : commaStop rest) (ho : orIdentStop rest) (hF : queriesFollow qs rest) (f : Nat)
    (hf : f ≥ 16 * (renderQueries qs).length + 17) :
    parseQueries f (renderQueries qs ++ rest) = some (qs, rest) := by
  obtain ⟨hne, hok⟩ := h
  revert hne hok hF f
  induction qs with
  | nil => intro hF f hf hne; exact absurd rfl hne
  | cons q qs ih =>
    intro hF f hf _ hok
    have hq : BodyOK q := hok q (by simp)
    cases qs with
    | nil =>
      have hFq : bodyFollow q rest := hF q (by simp)
      rw [renderQueries_single] at hf ⊢
      obtain ⟨g, rfl⟩ : ∃ g, f = g + 1 := ⟨f - 1, by omega⟩
      rw [parseQueries.eq_2, parseElems_render q hq rest hc hFq g (by omega)]
      split
      · next heq => simp at heq
      · next heq =>
        simp only [Option.some.injEq, Prod.mk.injEq] at heq
        exact absurd heq.2 (fun h => ho _ h)
      · next heq => simp only [Option.some.injEq, Prod.mk.injEq] at heq; obtain ⟨rfl, rfl⟩ := heq; rfl
    | cons q' qs' =>
      rw [renderQueries_cons_cons] at hf ⊢
      simp only [List.length_append, List.length_cons] at hf
      obtain ⟨g, rfl⟩ : ∃ g, f = g + 1 := ⟨f - 1, by omega⟩
      have hrec := ih (by intro x hx; exact hF x (by simpa using hx)) g (by omega) (by simp)
        (fun x hx => hok x (by simp [hx]))
      rw [List.append_assoc, List.cons_append, parseQueries.eq_2,
        parseElems_render q hq _ (by intro r hr; simp at hr)
          (fun e _ => elemFollow_of_Follow (Follow_orIdent 0 _)) g (by omega)]
      simp only [hrec]

/-! ## Items -/

def arrowStop (rest : List Tok) : Prop := ∀ r, rest = .arrow :: r → False

def ItemOK : PItem → Prop
  | .fact p => PredOK p
  | .rule r => PredOK r.head ∧ BodyOK r.body
  | .check c => QueriesOK c.queries
  | .policy p => QueriesOK p.queries

/-- What may follow an item, exactly as far as the parser looks: after a fact no `<-`; after
a rule no `,` and nothing that continues its last element; after a check or policy also no `or`. -/
def itemFollow : PItem → List Tok → Prop
  | .fact _, rest => arrowStop rest
  | .rule r, rest => commaStop rest ∧ bodyFollow r.body rest
  | .check c, rest => commaStop rest ∧ orIdentStop rest ∧ queriesFollow c.queries rest
  | .policy p, rest => commaStop rest ∧ orIdentStop rest ∧ queriesFollow p.queries rest

def isPolicy : PItem → Bool
  | .policy _ => true
  | _ => false

theorem parseItem_pred_start (f : Nat) (pol : Bool) (n : String) (r : List Tok) :
    parseItem f pol (.ident n :: r) =
      match parsePred f (.ident n :: r) with
      | none => none
      | some (h, .arrow :: rest) =>
        (parseElems f rest).map fun r => (.rule { head := h, body := r.1 }, r.2)
      | some (h, rest) => some (.fact h, rest) :=
  parseItem.eq_4 f pol _ (by intro r h; cases h) (by intro r h; cases h) (by intro r h; cases h)

theorem parseItem_render (it : PItem) (h : ItemOK it) (pol : Bool)
    (hp : isPolicy it = false ∨ pol = true) (rest : List Tok) (hF : itemFollow it rest)
    (f : Nat) (hf : f ≥ 16 * (renderItem it).length + 16) :
    parseItem f pol (renderItem it ++ rest) = some (it, rest) := by
  cases it with
  | fact p =>
    have hpp := parsePred_render p h rest f (by simp only [renderItem] at hf; omega)
    show parseItem f pol (renderPred p ++ rest) = _
    have hsplit : renderPred p ++ rest =
        .ident p.name :: (.punct '(' :: (renderTerms p.terms ++ [.punct ')'] ++ rest)) := by
      simp [renderPred]
    rw [hsplit] at hpp ⊢
    rw [parseItem_pred_start, hpp]
    split
    · next heq => simp at heq
    · next heq =>
      simp only [Option.some.injEq, Prod.mk.injEq] at heq
      exact absurd heq.2 (fun h => hF _ h)
    · next heq => simp only [Option.some.injEq, Prod.mk.injEq] at heq; obtain ⟨rfl, rfl⟩ := heq; rfl
  | rule r =>
    obtain ⟨hd, body⟩ := r
    obtain ⟨hh, hb⟩ := h
    have hlen : (renderItem (.rule ⟨hd, body⟩)).length =
        (renderPred hd).length + 1 + (renderBody body).length := by
      simp [renderItem, renderRule]; omega
    have hpp := parsePred_render hd hh (.arrow :: (renderBody body ++ rest)) f (by omega)
    have hee := parseElems_render body hb rest hF.1 hF.2 f (by omega)
    show parseItem f pol (renderRule ⟨hd, body⟩ ++ rest) = _
    have hsplit : renderRule ⟨hd, body⟩ ++ rest =
        .ident hd.name :: (.punct '(' :: (renderTerms hd.terms ++ [.punct ')'] ++
          (.arrow :: (renderBody body ++ rest)))) := by
      simp [renderRule, renderPred]
    have hsplit' : renderPred hd ++ (.arrow :: (renderBody body ++ rest)) =
        .ident hd.name :: (.punct '(' :: (renderTerms hd.terms ++ [.punct ')'] ++
          (.arrow :: (renderBody body ++ rest)))) := by
      simp [renderPred]
    rw [hsplit'] at hpp
    rw [hsplit, parseItem_pred_start, hpp]
    simp only [hee, Option.map]
  | check c =>
    obtain ⟨qs⟩ := c
    show parseItem f pol (.keyword "check if" :: (renderQueries qs ++ rest)) = _
    rw [parseItem.eq_1, parseQueries_render qs h rest hF.1 hF.2.1 hF.2.2 f (by
      simp only [renderItem, renderCheck, List.length_cons] at hf; omega)]
    rfl
  | policy p =>
    obtain ⟨allow, qs⟩ := p
    have hpol : pol = true := by
      rcases hp with hp | hp
      · simp [isPolicy] at hp
      · exact hp
    subst hpol
    have hq := parseQueries_render qs h rest hF.1 hF.2.1 hF.2.2 f (by
      simp only [renderItem, renderPolicy, List.length_cons] at hf; omega)
    cases allow with
    | true =>
      show parseItem f true (.keyword "allow if" :: (renderQueries qs ++ rest)) = _
      rw [parseItem.eq_2, hq]; rfl
    | false =>
      show parseItem f true (.keyword "deny if" :: (renderQueries qs ++ rest)) = _
      rw [parseItem.eq_3, hq]; rfl

/-- The block grammar has no policies: with `allowPolicy = false` a policy is rejected
whatever follows the keyword (no well-formedness needed). -/
theorem parseItem_policy_rejected (p : PPolicy) (rest : List Tok) (f : Nat) :
    parseItem f false (renderItem (.policy p) ++ rest) = none := by
  obtain ⟨allow, qs⟩ := p
  cases allow with
  | true =>
    show parseItem f false (.keyword "allow if" :: (renderQueries qs ++ rest)) = _
    rw [parseItem.eq_2]; rfl
  | false =>
    show parseItem f false (.keyword "deny if" :: (renderQueries qs ++ rest)) = _
    rw [parseItem.eq_3]; rfl

/-! ## Item lists -/

/-- What follows an item inside `renderItems` (a `;`) satisfies every follow condition. -/
theorem itemFollow_semicolon (it : PItem) (r : List Tok) : itemFollow it (.punct ';' :: r) := by
  have hc : commaStop (.punct ';' :: r) := by intro r' h; simp at h
  have ho : orIdentStop (.punct ';' :: r) := by intro r' h; cases h
  have hb : ∀ b, bodyFollow b (.punct ';' :: r) :=
    fun b e _ => elemFollow_of_Follow (Follow_semicolon 0 r)
  cases it with
  | fact p => intro r' h; cases h
  | rule rl => exact ⟨hc, hb _⟩
  | check c => exact ⟨hc, ho, fun q _ => hb q⟩
  | policy p => exact ⟨hc, ho, fun q _ => hb q⟩

theorem parseItems_render (its : List PItem) (h : ∀ it ∈ its, ItemOK it) (pol : Bool)
    (hp : ∀ it ∈ its, isPolicy it = false ∨ pol = true) (f : Nat)
    (hf : f ≥ 16 * (renderItems its).length + 16) :
    parseItems f pol (renderItems its) = some its := by
  induction its generalizing f with
  | nil => exact parseItems.eq_1 f pol
  | cons it its ih =>
    have hlen : (renderItems (it :: its)).length = (renderItem it).length + 1 + (renderItems its).length := by
      simp [renderItems]; omega
    obtain ⟨g, rfl⟩ : ∃ g, f = g + 1 := ⟨f - 1, by omega⟩
    show parseItems (g + 1) pol (renderItem it ++ .punct ';' :: renderItems its) = _
    rw [parseItems.eq_3, parseItem_render it (h it (by simp)) pol (hp it (by simp)) _
      (itemFollow_semicolon it _) g (by omega)]
    · show Option.map _ (parseItems g pol (renderItems its)) = _
      rw [ih (fun x hx => h x (by simp [hx])) (fun x hx => hp x (by simp [hx])) g (by omega)]
      rfl
    · intro hx; simp at hx

/-- A policy anywhere in a block (`allowPolicy = false`) makes the whole text an error. -/
theorem parseItems_policy_rejected (pre : List PItem) (p : PPolicy) (post : List PItem)
    (h : ∀ it ∈ pre, ItemOK it) (hp : ∀ it ∈ pre, isPolicy it = false) (f : Nat)
    (hf : f ≥ 16 * (renderItems pre).length + 16) :
    parseItems f false (renderItems (pre ++ .policy p :: post)) = none := by
  induction pre generalizing f with
  | nil =>
    cases f with
    | zero =>
      obtain ⟨allow, qs⟩ := p
      exact parseItems.eq_2 _ _ _
    | succ g =>
      show parseItems (g + 1) false (renderItem (.policy p) ++ .punct ';' :: renderItems post) = _
      rw [parseItems.eq_3, parseItem_policy_rejected]
      intro hx
      obtain ⟨allow, qs⟩ := p
      simp [renderItem, renderPolicy] at hx
  | cons it its ih =>
    have hlen : (renderItems (it :: its)).length = (renderItem it).length + 1 + (renderItems its).length := by
      simp [renderItems]; omega
    obtain ⟨g, rfl⟩ : ∃ g, f = g + 1 := ⟨f - 1, by omega⟩
    show parseItems (g + 1) false (renderItem it ++ .punct ';' :: renderItems (its ++ .policy p :: post)) = _
    rw [parseItems.eq_3, parseItem_render it (h it (by simp)) false (Or.inl (hp it (by simp))) _
      (itemFollow_semicolon it _) g (by omega)]
    · show Option.map _ (parseItems g false (renderItems (its ++ .policy p :: post))) = _
      rw [ih (fun x hx => h x (by simp [hx])) (fun x hx => hp x (by simp [hx])) g (by omega)]
      rfl
    · intro hx; simp at hx

/-! ## Empty bodies are not accepted -/

/-- `parseElems` needs at least one element: nothing parses at `;` or at the end. -/
theorem parseElems_semicolon (f : Nat) (r : List Tok) : parseElems f (.punct ';' :: r) = none := by
  match f with
  | 0 => rfl
  | 1 => rfl
  | 2 => rfl
  | 3 => rfl
  | 4 => rfl
  | 5 => rfl
  | 6 => rfl
  | 7 => rfl
  | 8 => rfl
  | g + 9 => rfl

end Biscuit.Grammar
