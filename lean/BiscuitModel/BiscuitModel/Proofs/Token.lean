/-
Proofs/Token — helper lemmas for C01, C09, C16, C17, C20 (signed envelope).
-/
import BiscuitModel.Model.Token

namespace Biscuit

end Biscuit
