/-
Proofs/Token — helper lemmas for C01, C09, C16, C17, C20 (signed envelope).
-/
import BiscuitModel.Model.Token
import BiscuitModel.Proofs.WireEnvelope

namespace Biscuit
open Wire

/-! ### `le32` and the signed payloads -/

theorem le32_length (n : Nat) : (le32 n).length = 4 := rfl

theorem UInt8.ofNat_inj_of_lt {a b : Nat} (ha : a < 256) (hb : b < 256)
    (h : UInt8.ofNat a = UInt8.ofNat b) : a = b := by
  have := congrArg UInt8.toNat h
  rw [UInt8.toNat_ofNat', UInt8.toNat_ofNat'] at this
  omega

theorem le32_inj (a b : Nat) (ha : a < 2^32) (hb : b < 2^32) (h : le32 a = le32 b) : a = b := by
  simp only [le32, List.cons.injEq, and_true] at h
  obtain ⟨h0, h1, h2, h3⟩ := h
  have e0 := UInt8.ofNat_inj_of_lt (by omega) (by omega) h0
  have e1 := UInt8.ofNat_inj_of_lt (by omega) (by omega) h1
  have e2 := UInt8.ofNat_inj_of_lt (by omega) (by omega) h2
  have e3 := UInt8.ofNat_inj_of_lt (by omega) (by omega) h3
  omega

theorem blockPayload_inj (a b : SignedBlockMsg)
    (hlen : a.nextKey.key.length = b.nextKey.key.length)
    (hA : a.nextKey.algorithm < 2^32) (hB : b.nextKey.algorithm < 2^32)
    (h : blockPayload a = blockPayload b) :
    a.block = b.block ∧ a.nextKey.algorithm = b.nextKey.algorithm ∧ a.nextKey.key = b.nextKey.key := by
  unfold blockPayload at h
  obtain ⟨h1, hk⟩ := List.append_inj' h hlen
  obtain ⟨hb, hl⟩ := List.append_inj' h1 (by simp [le32_length])
  exact ⟨hb, le32_inj _ _ hA hB hl, hk⟩

theorem sealPayload_inj (a b : SignedBlockMsg)
    (hlen : a.nextKey.key.length = b.nextKey.key.length)
    (hA : a.nextKey.algorithm < 2^32) (hB : b.nextKey.algorithm < 2^32)
    (hs : a.signature.length = b.signature.length)
    (h : sealPayload a = sealPayload b) :
    a.block = b.block ∧ a.nextKey.algorithm = b.nextKey.algorithm ∧ a.nextKey.key = b.nextKey.key ∧
    a.signature = b.signature := by
  unfold sealPayload at h
  obtain ⟨h1, hsig⟩ := List.append_inj' h hs
  obtain ⟨x, y, z⟩ := blockPayload_inj a b hlen hA hB h1
  exact ⟨x, y, z, hsig⟩

/-! ### The chain walk, declaratively -/

/-- Every link is signed by the key announced by its predecessor (the first by `k`). -/
def LinksGood (S : SigScheme) : Bytes → List SignedBlockMsg → Prop
  | _, [] => True
  | k, sb :: rest =>
    sb.nextKey.algorithm = ed25519Alg ∧ S.verify k (blockPayload sb) sb.signature = true ∧
    sb.nextKey.key.length = 32 ∧ LinksGood S sb.nextKey.key rest

/-- The key current after walking `l` from `k`. -/
def finalKey (k : Bytes) (l : List SignedBlockMsg) : Bytes := (l.getLast?.map (·.nextKey.key)).getD k

theorem finalKey_nil (k : Bytes) : finalKey k [] = k := rfl

theorem finalKey_cons (k : Bytes) (sb : SignedBlockMsg) (rest : List SignedBlockMsg) :
    finalKey k (sb :: rest) = finalKey sb.nextKey.key rest := by
  simp only [finalKey, List.getLast?_cons]
  cases rest.getLast? <;> rfl

theorem finalKey_append_singleton (k : Bytes) (l : List SignedBlockMsg) (sb : SignedBlockMsg) :
    finalKey k (l ++ [sb]) = sb.nextKey.key := by
  simp [finalKey]

theorem finalKey_envelope (root : Bytes) (e : BiscuitMsg) :
    finalKey root (e.authority :: e.blocks) = (lastBlock e).nextKey.key := by
  simp only [finalKey, lastBlock, List.getLast?_cons]
  rfl

theorem verifyLink_ok_iff (S : SigScheme) (k : Bytes) (sb : SignedBlockMsg) (next : Bytes) :
    verifyLink S k sb = .ok next ↔
      sb.nextKey.algorithm = ed25519Alg ∧ S.verify k (blockPayload sb) sb.signature = true ∧
      sb.nextKey.key.length = 32 ∧ next = sb.nextKey.key := by
  unfold verifyLink
  by_cases h1 : sb.nextKey.algorithm = ed25519Alg <;>
  by_cases h2 : S.verify k (blockPayload sb) sb.signature = true <;>
  by_cases h3 : sb.nextKey.key.length = 32 <;>
    simp [h1, h2, h3, eq_comm]

theorem verifyLinks_ok_iff (S : SigScheme) (k : Bytes) (l : List SignedBlockMsg) (cur : Bytes) :
    verifyLinks S k l = .ok cur ↔ LinksGood S k l ∧ cur = finalKey k l := by
  induction l generalizing k with
  | nil => simp [verifyLinks, LinksGood, finalKey_nil, eq_comm]
  | cons sb rest ih =>
    simp only [verifyLinks, LinksGood, finalKey_cons]
    cases hl : verifyLink S k sb with
    | error r =>
      simp only [reduceCtorEq, false_iff]
      intro ⟨⟨a, b, c, _⟩, _⟩
      have := (verifyLink_ok_iff S k sb sb.nextKey.key).mpr ⟨a, b, c, rfl⟩
      rw [hl] at this; cases this
    | ok next =>
      obtain ⟨a, b, c, rfl⟩ := (verifyLink_ok_iff S k sb next).mp hl
      simp only [ih, a, b, c, true_and]

theorem LinksGood_append_singleton (S : SigScheme) (k : Bytes) (l : List SignedBlockMsg) (sb : SignedBlockMsg) :
    LinksGood S k (l ++ [sb]) ↔
      LinksGood S k l ∧ sb.nextKey.algorithm = ed25519Alg ∧
      S.verify (finalKey k l) (blockPayload sb) sb.signature = true ∧ sb.nextKey.key.length = 32 := by
  induction l generalizing k with
  | nil => simp [LinksGood, finalKey_nil]
  | cons a rest ih =>
    simp only [List.cons_append, LinksGood, finalKey_cons, ih]
    constructor
    · rintro ⟨h1, h2, h3, h4, h5⟩; exact ⟨⟨h1, h2, h3, h4⟩, h5⟩
    · rintro ⟨⟨h1, h2, h3, h4⟩, h5⟩; exact ⟨h1, h2, h3, h4, h5⟩

/-- The closing proof matches the key `cur`. -/
def ProofGood (S : SigScheme) (cur : Bytes) (e : BiscuitMsg) : Prop :=
  match e.proof with
  | .nextSecret sk => sk.length = 32 ∧ S.pub sk = cur
  | .finalSignature sig => S.verify cur (sealPayload (lastBlock e)) sig = true
  | .empty => False

theorem verifyProof_ok_iff (S : SigScheme) (cur : Bytes) (e : BiscuitMsg) :
    verifyProof S cur e = .ok () ↔ ProofGood S cur e := by
  unfold verifyProof ProofGood
  cases e.proof with
  | nextSecret sk =>
    by_cases h1 : sk.length = 32 <;> by_cases h2 : S.pub sk = cur <;> simp [h1, h2]
  | finalSignature sig =>
    by_cases h : S.verify cur (sealPayload (lastBlock e)) sig = true <;> simp [h]
  | empty => simp

def ChainGood (S : SigScheme) (root : Bytes) (e : BiscuitMsg) : Prop :=
  LinksGood S root (e.authority :: e.blocks) ∧ ProofGood S (lastBlock e).nextKey.key e

theorem verifyChain_ok_iff (S : SigScheme) (root : Bytes) (e : BiscuitMsg) :
    verifyChain S root e = .ok () ↔ ChainGood S root e := by
  unfold verifyChain ChainGood
  cases hl : verifyLinks S root (e.authority :: e.blocks) with
  | error r =>
    simp only [reduceCtorEq, false_iff]
    intro ⟨hg, _⟩
    have := (verifyLinks_ok_iff S root _ _).mpr ⟨hg, rfl⟩
    rw [hl] at this; cases this
  | ok cur =>
    obtain ⟨hg, rfl⟩ := (verifyLinks_ok_iff S root _ _).mp hl
    simp only [verifyProof_ok_iff, finalKey_envelope, hg, true_and]

theorem verifyChain_ok_or_error (S : SigScheme) (root : Bytes) (e : BiscuitMsg) :
    verifyChain S root e = .ok () ∨ ∃ r, verifyChain S root e = .error r := by
  cases h : verifyChain S root e with
  | ok u => exact Or.inl rfl
  | error r => exact Or.inr ⟨r, rfl⟩

/-- Each link of a chain, with the key it must verify under. -/
theorem LinksGood_zip (S : SigScheme) (k : Bytes) (l : List SignedBlockMsg) (h : LinksGood S k l) :
    ∀ ks ∈ (k :: l.map (·.nextKey.key)).zip l, S.verify ks.1 (blockPayload ks.2) ks.2.signature = true := by
  induction l generalizing k with
  | nil => intro ks hks; simp at hks
  | cons sb rest ih =>
    obtain ⟨_, hv, _, hr⟩ := h
    intro ks hks
    simp only [List.map_cons, List.zip_cons_cons, List.mem_cons] at hks
    rcases hks with rfl | hks
    · exact hv
    · exact ih _ hr ks hks

/-! ### Size gates -/

theorem sizeGate_ok_iff (sb : SignedBlockMsg) :
    sizeGate sb = .ok () ↔ sb.nextKey.key.length = 32 ∧ sb.signature.length = 64 := by
  unfold sizeGate
  by_cases h1 : sb.nextKey.key.length = 32 <;> by_cases h2 : sb.signature.length = 64 <;> simp [h1, h2]

theorem forM_sizeGate_ok_iff (l : List SignedBlockMsg) :
    forM l sizeGate = .ok () ↔ ∀ sb ∈ l, sb.nextKey.key.length = 32 ∧ sb.signature.length = 64 := by
  induction l with
  | nil => simp [pure, Except.pure]
  | cons sb rest ih =>
    rw [List.forM_cons]
    cases h : sizeGate sb with
    | error r =>
      have : ¬ (sb.nextKey.key.length = 32 ∧ sb.signature.length = 64) := by
        rw [← sizeGate_ok_iff, h]; simp
      simp [bind, Except.bind, this]
    | ok u =>
      have := (sizeGate_ok_iff sb).mp h
      simp [bind, Except.bind, ih, this]

theorem sizeGates_ok_iff (e : BiscuitMsg) :
    sizeGates e = .ok () ↔
      ∀ sb ∈ e.authority :: e.blocks, sb.nextKey.key.length = 32 ∧ sb.signature.length = 64 := by
  unfold sizeGates
  cases h : sizeGate e.authority with
  | error r =>
    have : ¬ (e.authority.nextKey.key.length = 32 ∧ e.authority.signature.length = 64) := by
      rw [← sizeGate_ok_iff, h]; simp
    simp [bind, Except.bind, this]
  | ok u =>
    have := (sizeGate_ok_iff e.authority).mp h
    simp [bind, Except.bind, forM_sizeGate_ok_iff, this]


/-! ### Random source -/

theorem readFull_length (need : Nat) (rng : Rng) (acc bs : Bytes) (rng' : Rng)
    (h : readFull need rng acc = some (bs, rng')) : bs.length = acc.length + need := by
  induction rng generalizing need acc with
  | nil =>
    cases need with
    | zero => simp [readFull] at h; simp [h.1]
    | succ n => simp [readFull] at h
  | cons step rest ih =>
    cases need with
    | zero => simp [readFull] at h; simp [h.1]
    | succ n =>
      cases step with
      | fail => simp [readFull] at h
      | chunk b =>
        simp only [readFull] at h
        by_cases hb : b.length ≥ n + 1
        · rw [if_pos hb] at h
          simp only [Option.some.injEq, Prod.mk.injEq] at h
          rw [← h.1, List.length_append, List.length_take]; omega
        · rw [if_neg hb] at h
          have := ih _ _ h
          rw [this, List.length_append]; omega
      | chunkErr b =>
        simp only [readFull] at h
        by_cases hb : b.length ≥ n + 1
        · rw [if_pos hb] at h
          simp only [Option.some.injEq, Prod.mk.injEq] at h
          rw [← h.1, List.length_append, List.length_take]; omega
        · rw [if_neg hb] at h; cases h

theorem drawSeed_length (rng : Rng) (seed : Bytes) (rng' : Rng) (h : drawSeed rng = some (seed, rng')) :
    seed.length = 32 := by
  have := readFull_length 32 rng [] seed rng' h
  simpa using this

/-! ### Building, attenuating, sealing: what comes out -/

theorem buildEnvelope_ok (S : SigScheme) (rootSeed : Bytes) (id : Option Nat) (block : Bytes) (rng rng' : Rng)
    (e : BiscuitMsg) (h : buildEnvelope S rootSeed id block rng = .ok (e, rng')) :
    ∃ seed, drawSeed rng = some (seed, rng') ∧
      e = { rootKeyId := id,
            authority := { block := block, nextKey := { algorithm := ed25519Alg, key := S.pub seed },
                           signature := S.sign rootSeed (block ++ le32 ed25519Alg ++ S.pub seed) },
            blocks := [], proof := .nextSecret seed } := by
  unfold buildEnvelope at h
  cases hd : drawSeed rng with
  | none => rw [hd] at h; cases h
  | some p =>
    obtain ⟨seed, r⟩ := p
    rw [hd] at h
    simp only [Except.ok.injEq, Prod.mk.injEq] at h
    obtain ⟨rfl, rfl⟩ := h
    exact ⟨seed, rfl, rfl⟩

theorem appendEnvelopeWith_ok (keep : Bool) (S : SigScheme) (e : BiscuitMsg) (block : Bytes) (rng rng' : Rng)
    (e' : BiscuitMsg) (h : appendEnvelopeWith keep S e block rng = .ok (e', rng')) :
    ∃ sk seed, e.proof = .nextSecret sk ∧ sk.length = 32 ∧ drawSeed rng = some (seed, rng') ∧
      e' = { rootKeyId := if keep then e.rootKeyId else none, authority := e.authority,
             blocks := e.blocks ++ [{ block := block, nextKey := { algorithm := ed25519Alg, key := S.pub seed },
                                      signature := S.sign sk (block ++ le32 ed25519Alg ++ S.pub seed) }],
             proof := .nextSecret seed } := by
  unfold appendEnvelopeWith at h
  cases hp : e.proof with
  | nextSecret sk =>
    rw [hp] at h
    simp only at h
    by_cases hl : sk.length = 32
    · rw [if_neg (by simpa using hl)] at h
      cases hd : drawSeed rng with
      | none => rw [hd] at h; cases h
      | some p =>
        obtain ⟨seed, r⟩ := p
        rw [hd] at h
        simp only [Except.ok.injEq, Prod.mk.injEq] at h
        obtain ⟨rfl, rfl⟩ := h
        exact ⟨sk, seed, rfl, hl, rfl, rfl⟩
    · rw [if_pos (by simpa using hl)] at h; cases h
  | finalSignature sig => rw [hp] at h; cases h
  | empty => rw [hp] at h; cases h

theorem sealEnvelopeWith_ok (keep : Bool) (S : SigScheme) (e e' : BiscuitMsg)
    (h : sealEnvelopeWith keep S e = .ok e') :
    ∃ sk, e.proof = .nextSecret sk ∧ sk.length = 32 ∧
      e' = { rootKeyId := if keep then e.rootKeyId else none, authority := e.authority,
             blocks := e.blocks, proof := .finalSignature (S.sign sk (sealPayload (lastBlock e))) } := by
  unfold sealEnvelopeWith at h
  cases hp : e.proof with
  | nextSecret sk =>
    rw [hp] at h
    simp only at h
    by_cases hl : sk.length = 32
    · rw [if_neg (by simpa using hl)] at h
      simp only [Except.ok.injEq] at h
      exact ⟨sk, rfl, hl, h.symm⟩
    · rw [if_pos (by simpa using hl)] at h; cases h
  | finalSignature sig => rw [hp] at h; cases h
  | empty => rw [hp] at h; cases h

theorem lastBlock_append_singleton (id : Option Nat) (a : SignedBlockMsg) (bl : List SignedBlockMsg)
    (sb : SignedBlockMsg) (p : ProofMsg) :
    lastBlock { rootKeyId := id, authority := a, blocks := bl ++ [sb], proof := p } = sb := by
  simp [lastBlock]

/-! ### Library-built tokens verify -/

section built
variable (S : SigScheme)
  (hver : ∀ sk m, S.verify (S.pub sk) m (S.sign sk m) = true)
  (hpub : ∀ sk, (S.pub sk).length = 32)
include hver hpub

theorem build_chainGood (rootSeed : Bytes) (id : Option Nat) (block : Bytes) (rng rng' : Rng) (e : BiscuitMsg)
    (h : buildEnvelope S rootSeed id block rng = .ok (e, rng')) : ChainGood S (S.pub rootSeed) e := by
  obtain ⟨seed, hd, rfl⟩ := buildEnvelope_ok S rootSeed id block rng rng' e h
  have hl := drawSeed_length rng seed rng' hd
  refine ⟨⟨rfl, ?_, hpub seed, trivial⟩, ?_⟩
  · exact hver rootSeed _
  · exact ⟨hl, rfl⟩

theorem append_chainGood (keep : Bool) (root : Bytes) (e e' : BiscuitMsg) (block : Bytes) (rng rng' : Rng)
    (hg : ChainGood S root e) (h : appendEnvelopeWith keep S e block rng = .ok (e', rng')) :
    ChainGood S root e' := by
  obtain ⟨sk, seed, hp, hsk, hd, rfl⟩ := appendEnvelopeWith_ok keep S e block rng rng' e' h
  have hl := drawSeed_length rng seed rng' hd
  obtain ⟨hlinks, hproof⟩ := hg
  unfold ProofGood at hproof
  rw [hp] at hproof
  obtain ⟨_, hpk⟩ := hproof
  refine ⟨?_, ?_⟩
  · show LinksGood S root (e.authority :: (e.blocks ++ [_]))
    rw [← List.cons_append, LinksGood_append_singleton]
    refine ⟨hlinks, rfl, ?_, hpub seed⟩
    rw [finalKey_envelope, ← hpk]
    exact hver sk _
  · rw [lastBlock_append_singleton]
    exact ⟨hl, rfl⟩

omit hpub in
theorem seal_chainGood (keep : Bool) (root : Bytes) (e e' : BiscuitMsg)
    (hg : ChainGood S root e) (h : sealEnvelopeWith keep S e = .ok e') : ChainGood S root e' := by
  obtain ⟨sk, hp, hsk, rfl⟩ := sealEnvelopeWith_ok keep S e e' h
  obtain ⟨hlinks, hproof⟩ := hg
  unfold ProofGood at hproof
  rw [hp] at hproof
  obtain ⟨_, hpk⟩ := hproof
  refine ⟨hlinks, ?_⟩
  show S.verify (lastBlock e).nextKey.key (sealPayload (lastBlock e)) _ = true
  rw [← hpk]
  exact hver sk _

theorem derive_chainGood (keep : Bool) (root : Bytes) (e e' : BiscuitMsg) (op : DeriveOp) (hop : op ≠ .reload)
    (hg : ChainGood S root e) (h : derive keep S e op = .ok e') : ChainGood S root e' := by
  rcases op with ⟨block, rng⟩ | _ | _
  · simp only [derive] at h
    cases ha : appendEnvelopeWith keep S e block rng with
    | error r => rw [ha] at h; cases h
    | ok p =>
      obtain ⟨e'', rng'⟩ := p
      rw [ha] at h
      simp only [Except.map, Except.ok.injEq] at h
      subst h
      exact append_chainGood S hver hpub keep root e e'' block rng rng' hg ha
  · exact seal_chainGood S hver keep root e e' hg h
  · exact absurd rfl hop

theorem deriveAll_chainGood (keep : Bool) (root : Bytes) (e e' : BiscuitMsg) (ops : List DeriveOp)
    (hops : ∀ op ∈ ops, op ≠ .reload)
    (hg : ChainGood S root e) (h : deriveAll keep S e ops = .ok e') : ChainGood S root e' := by
  induction ops generalizing e with
  | nil => simp only [deriveAll, Except.ok.injEq] at h; subst h; exact hg
  | cons op ops ih =>
    simp only [deriveAll] at h
    cases hd : derive keep S e op with
    | error r => rw [hd] at h; cases h
    | ok e1 =>
      rw [hd] at h
      exact ih e1 (fun o ho => hops o (by simp [ho]))
        (derive_chainGood S hver hpub keep root e e1 op (hops op (by simp)) hg hd) h

end built

/-! ### Reload -/

theorem reload_some (e e' : BiscuitMsg) (h : reload e = some e') : e' = normEnv e :=
  decodeBiscuit_encode_some e e' h

theorem derive_reload_ok (keep : Bool) (S : SigScheme) (e e' : BiscuitMsg)
    (h : derive keep S e .reload = .ok e') : e' = normEnv e := by
  simp only [derive] at h
  cases hr : reload e with
  | none => rw [hr] at h; cases h
  | some e'' =>
    rw [hr] at h
    simp only [Except.ok.injEq] at h
    subst h
    exact reload_some e e'' hr

/-! ### Revocation identifiers -/

theorem revocationIds_eq_map (e : BiscuitMsg) :
    revocationIds e = (e.authority :: e.blocks).map (·.signature) := rfl

theorem revocationIds_normEnv (e : BiscuitMsg) : revocationIds (normEnv e) = revocationIds e := by
  simp [revocationIds, normEnv, normSB, Function.comp_def]


/-- How many identifiers a derivation step adds. -/
def revBump : DeriveOp → Nat
  | .append _ _ => 1
  | _ => 0

theorem derive_revids_aux (keep : Bool) (S : SigScheme) (e e' : BiscuitMsg) (op : DeriveOp)
    (h : derive keep S e op = .ok e') :
    revocationIds e <+: revocationIds e' ∧
    (revocationIds e').length = (revocationIds e).length + revBump op := by
  rcases op with ⟨block, rng⟩ | _ | _
  · simp only [derive] at h
    cases ha : appendEnvelopeWith keep S e block rng with
    | error r => rw [ha] at h; cases h
    | ok p =>
      obtain ⟨e'', rng'⟩ := p
      rw [ha] at h
      simp only [Except.map, Except.ok.injEq] at h
      subst h
      obtain ⟨_, _, _, _, _, rfl⟩ := appendEnvelopeWith_ok keep S e block rng rng' e'' ha
      refine ⟨?_, ?_⟩
      · simp only [revocationIds, List.map_append]
        rw [← List.cons_append]
        exact List.prefix_append _ _
      · simp [revocationIds, revBump]
  · obtain ⟨_, _, _, rfl⟩ := sealEnvelopeWith_ok keep S e e' h
    exact ⟨List.prefix_refl _, rfl⟩
  · have he := derive_reload_ok keep S e e' h
    subst he
    rw [revocationIds_normEnv]
    exact ⟨List.prefix_refl _, rfl⟩

end Biscuit
