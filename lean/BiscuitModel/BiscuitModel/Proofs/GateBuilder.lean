/-
Proofs/GateBuilder — lemmas for Props/C02Gate: the declared-symbols gate
(`blocksDeclared`, Model/Unmarshal; Go `checkDeclaredSymbols`) never refuses what the
library's own builder produces (`buildBlockMsg` / `buildBlockMsgs`, Model/Symbols).

Two facts about every interning function `intern t x = (t', y)`:

* `GrowsTo t t'`: the table only grows at the end, and what was added is exactly what
  `Extend` (`extendTable`) adds back when it is handed the added strings — every string
  added by `Insert` is neither a default symbol nor already in the table at that point,
  so `Extend` skips none of them. No hypothesis on the starting table is needed.
* every index in `y` — strings, predicate names AND variable numbers — is declared in `t'`.

Declaredness is monotone under growth (`symDeclared_mono`), so both facts pass through the
lists (`symInternList`) and the fixed sequences (terms then name; body, expressions, head;
facts, rules, checks).
-/
import BiscuitModel.Proofs.WireAttenuation
import BiscuitModel.Proofs.WireRoundtrip
import BiscuitModel.Proofs.WireEnvelope

namespace Biscuit
open Wire

/-! ### Growth of the table -/

theorem extendTable_append (t : SymTable) (a b : List Bytes) :
    extendTable t (a ++ b) = extendTable (extendTable t a) b := by
  simp [extendTable, List.foldl_append]

/-- `t'` is `t` plus strings that `Extend` would add back one by one, in the same order. -/
def GrowsTo (t t' : SymTable) : Prop := ∃ ext, t' = t ++ ext ∧ extendTable t ext = t'

theorem GrowsTo.refl (t : SymTable) : GrowsTo t t := ⟨[], by simp, rfl⟩

theorem GrowsTo.trans {a b c : SymTable} (h1 : GrowsTo a b) (h2 : GrowsTo b c) : GrowsTo a c := by
  obtain ⟨e1, hb, h1⟩ := h1
  obtain ⟨e2, hc, h2⟩ := h2
  refine ⟨e1 ++ e2, by rw [hc, hb, List.append_assoc], ?_⟩
  rw [extendTable_append, h1, h2]

theorem GrowsTo.prefix {t t' : SymTable} (h : GrowsTo t t') : ∃ ext, t' = t ++ ext := by
  obtain ⟨e, he, _⟩ := h
  exact ⟨e, he⟩

/-- The strings a block declares (`SplitOff`: the final table without its first
`t.length` entries) rebuild the final table when `Extend`ed onto the starting one. -/
theorem GrowsTo.extend_drop {t t' : SymTable} (h : GrowsTo t t') :
    extendTable t (t'.drop t.length) = t' := by
  obtain ⟨e, he, hx⟩ := h
  rw [he, List.drop_left, ← he]
  exact hx

theorem growsTo_symInsert (t : SymTable) (s : Bytes) : GrowsTo t (symInsert t s).1 := by
  cases hn : symIndex t s with
  | some i =>
    have : (symInsert t s).1 = t := by simp [symInsert, hn]
    rw [this]; exact GrowsTo.refl t
  | none =>
    have h1 : (symInsert t s).1 = t ++ [s] := by simp [symInsert, hn]
    exact ⟨[s], h1, by simp [extendTable]⟩

/-- Every index handed out by `Insert` is declared in the table `Insert` leaves behind. -/
theorem symInsert_declared (t : SymTable) (s : Bytes) :
    symDeclared (symInsert t s).1 (symInsert t s).2 = true := by
  unfold symInsert
  split
  · rename_i i hi
    unfold symDeclared
    rw [sym_symIndex_some hi]; rfl
  · simp only [symDeclared, symStr]
    rw [if_neg (by omega), Nat.add_sub_cancel_left]
    simp

/-! ### The two facts, as one specification of an interning function -/

/-- `intern` only grows the table (in `Extend`'s way) and its output is declared in the
table it leaves. -/
def GateOK {α β : Type} (intern : SymTable → α → SymTable × β) (decl : SymTable → β → Bool) : Prop :=
  ∀ t x, GrowsTo t (intern t x).1 ∧ decl (intern t x).1 (intern t x).2 = true

def DeclMono {β : Type} (decl : SymTable → β → Bool) : Prop :=
  ∀ t ext b, decl t b = true → decl (t ++ ext) b = true

theorem DeclMono.of_grows {β : Type} {d : SymTable → β → Bool} (hm : DeclMono d) {t t' : SymTable}
    (hg : GrowsTo t t') (b : β) (h : d t b = true) : d t' b = true := by
  obtain ⟨e, he⟩ := hg.prefix
  rw [he]; exact hm t e b h

abbrev listDecl {β : Type} (d : SymTable → β → Bool) : SymTable → List β → Bool :=
  fun t l => l.all (d t)

theorem DeclMono.list {β : Type} {d : SymTable → β → Bool} (hm : DeclMono d) : DeclMono (listDecl d) :=
  fun t ext l h => all_imp (hm t ext) l h

theorem gate_internList_ok {α β : Type} {f : SymTable → α → SymTable × β} {d : SymTable → β → Bool}
    (h : GateOK f d) (hm : DeclMono d) : GateOK (symInternList f) (listDecl d) := by
  intro t l
  induction l generalizing t with
  | nil => exact ⟨GrowsTo.refl t, rfl⟩
  | cons x xs ih =>
    obtain ⟨g1, d1⟩ := h t x
    obtain ⟨g2, d2⟩ := ih (f t x).1
    refine ⟨g1.trans g2, ?_⟩
    show ((d _ (f t x).2) && (symInternList f (f t x).1 xs).2.all (d _)) = true
    rw [Bool.and_eq_true]
    exact ⟨hm.of_grows g2 _ d1, d2⟩

/-! ### Monotonicity, in the shape above -/

theorem declMono_sym : DeclMono symDeclared := fun t ext i h => symDeclared_mono t ext i h
theorem declMono_atom : DeclMono atomDeclaredV := fun t ext a h => atomDeclaredV_mono t ext a h
theorem declMono_term : DeclMono termDeclaredV := fun t ext a h => termDeclaredV_mono t ext a h
theorem declMono_pred : DeclMono predDeclaredV := fun t ext a h => predDeclaredV_mono t ext a h
theorem declMono_op : DeclMono opDeclaredV := fun t ext a h => opDeclaredV_mono t ext a h
theorem declMono_rule : DeclMono ruleDeclaredV := fun t ext a h => ruleDeclaredV_mono t ext a h
theorem declMono_check : DeclMono checkDeclaredV := fun t ext a h => checkDeclaredV_mono t ext a h

/-! ### Every interning function, in the code's order -/

theorem gate_symInsert_ok : GateOK symInsert symDeclared :=
  fun t s => ⟨growsTo_symInsert t s, symInsert_declared t s⟩

theorem gate_internAtom_ok : GateOK internAtom atomDeclaredV := by
  intro t a
  cases a with
  | str s => exact ⟨growsTo_symInsert t s, symInsert_declared t s⟩
  | int i => exact ⟨GrowsTo.refl t, rfl⟩
  | date i => exact ⟨GrowsTo.refl t, rfl⟩
  | bytes i => exact ⟨GrowsTo.refl t, rfl⟩
  | bool i => exact ⟨GrowsTo.refl t, rfl⟩

theorem gate_internAtoms_ok : GateOK internAtoms (listDecl atomDeclaredV) := by
  rw [sym_internAtoms_eq]; exact gate_internList_ok gate_internAtom_ok declMono_atom

/-- Terms: a variable's name is interned like a string and its number is declared like one. -/
theorem gate_internTerm_ok : GateOK internTerm termDeclaredV := by
  intro t x
  match x with
  | .var n => exact ⟨growsTo_symInsert t n, symInsert_declared t n⟩
  | .const (.atom a) => exact gate_internAtom_ok t a
  | .const (.set l) => exact gate_internAtoms_ok t l

theorem gate_internTerms_ok : GateOK internTerms (listDecl termDeclaredV) := by
  rw [sym_internTerms_eq]; exact gate_internList_ok gate_internTerm_ok declMono_term

theorem gate_internPred_ok : GateOK internPred predDeclaredV := by
  intro t p
  obtain ⟨g1, d1⟩ := gate_internTerms_ok t p.terms
  obtain ⟨g2, d2⟩ := gate_symInsert_ok (internTerms t p.terms).1 p.name
  refine ⟨g1.trans g2, ?_⟩
  show (symDeclared _ _ && (internTerms t p.terms).2.all (termDeclaredV _)) = true
  rw [Bool.and_eq_true]
  exact ⟨d2, declMono_term.list.of_grows g2 _ d1⟩

theorem gate_internFact_ok : GateOK internFact predDeclaredV :=
  fun t f => gate_internPred_ok t { name := f.name, terms := f.args.map Term.const }

theorem gate_internPreds_ok : GateOK internPreds (listDecl predDeclaredV) := by
  rw [sym_internPreds_eq]; exact gate_internList_ok gate_internPred_ok declMono_pred

theorem gate_internOp_ok : GateOK internOp opDeclaredV := by
  intro t o
  cases o with
  | value x => exact gate_internTerm_ok t x
  | unary u => exact ⟨GrowsTo.refl t, rfl⟩
  | binary b => exact ⟨GrowsTo.refl t, rfl⟩

theorem gate_internExpr_ok : GateOK internExpr (listDecl opDeclaredV) := by
  rw [sym_internExpr_eq]; exact gate_internList_ok gate_internOp_ok declMono_op

theorem gate_internExprs_ok : GateOK internExprs (listDecl (listDecl opDeclaredV)) := by
  rw [sym_internExprs_eq]; exact gate_internList_ok gate_internExpr_ok declMono_op.list

theorem gate_internRule_ok : GateOK internRule ruleDeclaredV := by
  intro t r
  obtain ⟨g1, d1⟩ := gate_internPreds_ok t r.body
  obtain ⟨g2, d2⟩ := gate_internExprs_ok (internPreds t r.body).1 r.exprs
  obtain ⟨g3, d3⟩ := gate_internPred_ok (internExprs (internPreds t r.body).1 r.exprs).1 r.head
  refine ⟨(g1.trans g2).trans g3, ?_⟩
  show (predDeclaredV _ _ && (internPreds t r.body).2.all (predDeclaredV _) &&
    (internExprs (internPreds t r.body).1 r.exprs).2.all (fun e => e.all (opDeclaredV _))) = true
  rw [Bool.and_eq_true, Bool.and_eq_true]
  exact ⟨⟨d3, declMono_pred.list.of_grows (g2.trans g3) _ d1⟩,
    declMono_op.list.list.of_grows g3 _ d2⟩

theorem gate_internRules_ok : GateOK internRules (listDecl ruleDeclaredV) := by
  rw [sym_internRules_eq]; exact gate_internList_ok gate_internRule_ok declMono_rule

theorem gate_internCheck_ok : GateOK internCheck checkDeclaredV :=
  fun t c => gate_internRules_ok t c.queries

theorem gate_internChecks_ok : GateOK internChecks (listDecl checkDeclaredV) := by
  rw [sym_internChecks_eq]; exact gate_internList_ok gate_internCheck_ok declMono_check

theorem gate_internFacts_ok : GateOK internFacts (listDecl predDeclaredV) := by
  rw [sym_internFacts_eq]; exact gate_internList_ok gate_internFact_ok declMono_pred

/-! ### One block, then all blocks -/

/-- One block built over ANY starting table: the table only grows, the declared symbols
rebuild the final table, and every index of the block is declared in it. -/
theorem gate_buildBlockMsg (start : SymTable) (c : BlockContent) :
    GrowsTo start (buildBlockMsg start c).1 ∧
    extendTable start (buildBlockMsg start c).2.symbols = (buildBlockMsg start c).1 ∧
    blockDeclaredV (buildBlockMsg start c).1 (buildBlockMsg start c).2 = true := by
  obtain ⟨g1, d1⟩ := gate_internFacts_ok start c.block.facts
  obtain ⟨g2, d2⟩ := gate_internRules_ok (internFacts start c.block.facts).1 c.block.rules
  obtain ⟨g3, d3⟩ := gate_internChecks_ok
    (internRules (internFacts start c.block.facts).1 c.block.rules).1 c.block.checks
  have g : GrowsTo start (buildBlockMsg start c).1 := (g1.trans g2).trans g3
  refine ⟨g, g.extend_drop, ?_⟩
  show ((internFacts start c.block.facts).2.all (predDeclaredV _) &&
    (internRules (internFacts start c.block.facts).1 c.block.rules).2.all (ruleDeclaredV _) &&
    (internChecks (internRules (internFacts start c.block.facts).1 c.block.rules).1 c.block.checks).2.all
      (checkDeclaredV _)) = true
  rw [Bool.and_eq_true, Bool.and_eq_true]
  exact ⟨⟨declMono_pred.list.of_grows (g2.trans g3) _ d1, declMono_rule.list.of_grows g3 _ d2⟩, d3⟩

theorem gate_buildBlockMsgs (cs : List BlockContent) : ∀ base : SymTable,
    blocksDeclaredV base (buildBlockMsgs base cs) = true := by
  induction cs with
  | nil => intro _; rfl
  | cons c cs ih =>
    intro base
    obtain ⟨_, hx, hd⟩ := gate_buildBlockMsg base c
    show (blockDeclaredV (extendTable base (buildBlockMsg base c).2.symbols) (buildBlockMsg base c).2 &&
      blocksDeclaredV (extendTable base (buildBlockMsg base c).2.symbols)
        (buildBlockMsgs (buildBlockMsg base c).1 cs)) = true
    rw [hx, hd, ih]; rfl

/-! ### What "`Extend` skipped nothing" says about the added strings

Used by Props/C02Gate, section 7: `New` / `Append` first ask that the block declares no
string the table already holds (`IsDisjoint`). -/

theorem extendTable_cons (t : SymTable) (s : Bytes) (e : List Bytes) :
    extendTable t (s :: e) = extendTable (symInsert t s).1 e := rfl

theorem symInsert_length_le (t : SymTable) (s : Bytes) : (symInsert t s).1.length ≤ t.length + 1 := by
  unfold symInsert
  split
  · exact Nat.le_succ _
  · simp

theorem extendTable_length_le (e : List Bytes) : ∀ t : SymTable,
    (extendTable t e).length ≤ t.length + e.length := by
  induction e with
  | nil => intro t; exact Nat.le_refl _
  | cons s e ih =>
    intro t
    rw [extendTable_cons]
    have h1 := ih (symInsert t s).1
    have h2 := symInsert_length_le t s
    simp only [List.length_cons]
    omega

/-- If `Extend` added every string of `ext` (skipped none), each of them was new when its
turn came: not a default symbol, not in the table `t`, and not earlier in `ext`. -/
theorem extendTable_eq_append_fresh (ext : List Bytes) : ∀ t : SymTable,
    extendTable t ext = t ++ ext →
    (∀ s ∈ ext, s ∉ defaultSymbols ∧ s ∉ t) ∧ ext.Nodup := by
  induction ext with
  | nil => intro t _; exact ⟨fun _ hs => (nomatch hs), List.nodup_nil⟩
  | cons s e ih =>
    intro t h
    rw [extendTable_cons] at h
    cases hn : symIndex t s with
    | some i =>
      have h1 : (symInsert t s).1 = t := by simp [symInsert, hn]
      rw [h1] at h
      have hl := extendTable_length_le e t
      rw [h] at hl
      simp only [List.length_append, List.length_cons] at hl
      omega
    | none =>
      have h1 : (symInsert t s).1 = t ++ [s] := by simp [symInsert, hn]
      obtain ⟨hd, ht⟩ := sym_symIndex_none hn
      rw [h1] at h
      have h' : extendTable (t ++ [s]) e = (t ++ [s]) ++ e := by
        rw [h, List.append_assoc]; rfl
      obtain ⟨hf, hnd⟩ := ih (t ++ [s]) h'
      refine ⟨?_, ?_⟩
      · intro x hx
        rcases List.mem_cons.mp hx with rfl | hx
        · exact ⟨hd, ht⟩
        · exact ⟨(hf x hx).1, fun hxt => (hf x hx).2 (List.mem_append_left _ hxt)⟩
      · rw [List.nodup_cons]
        exact ⟨fun hse => (hf s hse).2 (List.mem_append_right _ (List.mem_singleton.mpr rfl)), hnd⟩

/-- The strings a growth step added are new with respect to the table it started from. -/
theorem GrowsTo.drop_fresh {t t' : SymTable} (h : GrowsTo t t') :
    (∀ s ∈ t'.drop t.length, s ∉ defaultSymbols ∧ s ∉ t) ∧ (t'.drop t.length).Nodup := by
  obtain ⟨e, he, hx⟩ := h
  rw [he, List.drop_left]
  exact extendTable_eq_append_fresh e t (hx.trans he)

/-! ### Operator kinds of built blocks (for the `Unmarshal` round trip) -/

def OutOK {α β : Type} (f : SymTable → α → SymTable × β) (P : β → Bool) : Prop :=
  ∀ t x, P (f t x).2 = true

theorem outOK_list {α β : Type} {f : SymTable → α → SymTable × β} {P : β → Bool} (h : OutOK f P) :
    OutOK (symInternList f) (fun l => l.all P) := by
  intro t l
  induction l generalizing t with
  | nil => rfl
  | cons x xs ih =>
    show (P (f t x).2 && (symInternList f (f t x).1 xs).2.all P) = true
    rw [Bool.and_eq_true]
    exact ⟨h t x, ih _⟩

def opKindValid : IOp → Bool
  | .value _ => true
  | .unary k => (unaryOfCode k).isSome
  | .binary k => (binaryOfCode k).isSome

theorem opKindsValid_eq : opKindsValid = fun e => e.all opKindValid := by
  funext e
  unfold opKindsValid
  congr 1

theorem kinds_internOp : OutOK internOp opKindValid := by
  intro t o
  cases o with
  | value x => rfl
  | unary u => show (unaryOfCode (unaryCode u)).isSome = true; rw [sym_unary_code_roundtrip]; rfl
  | binary b => show (binaryOfCode (binaryCode b)).isSome = true; rw [sym_binary_code_roundtrip]; rfl

theorem kinds_internExpr : OutOK internExpr opKindsValid := by
  rw [sym_internExpr_eq, opKindsValid_eq]; exact outOK_list kinds_internOp

theorem kinds_internExprs : OutOK internExprs (fun l => l.all opKindsValid) := by
  rw [sym_internExprs_eq]; exact outOK_list kinds_internExpr

theorem kinds_internRule : OutOK internRule ruleKindsValid :=
  fun t r => kinds_internExprs (internPreds t r.body).1 r.exprs

theorem kinds_internRules : OutOK internRules (fun l => l.all ruleKindsValid) := by
  rw [sym_internRules_eq]; exact outOK_list kinds_internRule

theorem kinds_internCheck : OutOK internCheck (fun c => c.queries.all ruleKindsValid) :=
  fun t c => kinds_internRules t c.queries

theorem kinds_internChecks : OutOK internChecks (fun l => l.all fun c => c.queries.all ruleKindsValid) := by
  rw [sym_internChecks_eq]; exact outOK_list kinds_internCheck

/-- A built block carries only operator codes of the published enums, and version 3. -/
theorem kinds_buildBlockMsg (start : SymTable) (c : BlockContent) :
    blockKindsValid (buildBlockMsg start c).2 = true ∧ versionOk (buildBlockMsg start c).2.version = true := by
  refine ⟨?_, (sym_version_gate _).mpr rfl⟩
  show ((internRules (internFacts start c.block.facts).1 c.block.rules).2.all ruleKindsValid &&
    (internChecks (internRules (internFacts start c.block.facts).1 c.block.rules).1 c.block.checks).2.all
      (fun c => c.queries.all ruleKindsValid)) = true
  rw [Bool.and_eq_true]
  exact ⟨kinds_internRules _ _, kinds_internChecks _ _⟩

theorem buildBlockMsgs_mem (cs : List BlockContent) : ∀ (base : SymTable) (m : BlockMsg),
    m ∈ buildBlockMsgs base cs → ∃ start c, m = (buildBlockMsg start c).2 := by
  induction cs with
  | nil => intro _ m hm; cases hm
  | cons c cs ih =>
    intro base m hm
    rcases List.mem_cons.mp hm with rfl | hm'
    · exact ⟨base, c, rfl⟩
    · exact ih _ m hm'

/-! ### The per-block parse of `Unmarshal` on encoded messages -/

theorem parseSigned_encoded (sb : SignedBlockMsg) (m : BlockMsg) (hb : sb.block = encodeBlock m)
    (hs : sb.nextKey.key.length = 32 ∧ sb.signature.length = 64)
    (hwf : BlockWF m) (hv : versionOk m.version = true) (hk : blockKindsValid m = true) :
    parseSigned sb = .ok m := by
  have hg : sizeGate sb = .ok () := by simp [sizeGate, hs.1, hs.2]
  have hp : parseBlock sb.block = .ok m := by
    simp [parseBlock, hb, wire_decodeBlock_enc m hwf, hv, hk]
  simp only [parseSigned, hg, hp]
  rfl

theorem parseAll_encoded : ∀ (sbs : List SignedBlockMsg) (ms : List BlockMsg),
    sbs.map (·.block) = ms.map encodeBlock →
    (∀ sb ∈ sbs, sb.nextKey.key.length = 32 ∧ sb.signature.length = 64) →
    (∀ m ∈ ms, BlockWF m ∧ versionOk m.version = true ∧ blockKindsValid m = true) →
    parseAll sbs = .ok ms := by
  intro sbs
  induction sbs with
  | nil =>
    intro ms hb _ _
    cases ms with
    | nil => rfl
    | cons m ms => cases hb
  | cons sb sbs ih =>
    intro ms hb hs hm
    cases ms with
    | nil => cases hb
    | cons m ms =>
      simp only [List.map_cons, List.cons.injEq] at hb
      obtain ⟨h1, h2, h3⟩ := hm m (List.mem_cons_self)
      have hp := parseSigned_encoded sb m hb.1 (hs sb (List.mem_cons_self)) h1 h2 h3
      have hr := ih ms hb.2 (fun x hx => hs x (List.mem_cons_of_mem _ hx))
        (fun x hx => hm x (List.mem_cons_of_mem _ hx))
      simp only [parseAll, hp, hr]

end Biscuit
