/-
Proofs/Rename — a renaming of variables that is injective on the variables of a
rule does not change what the rule computes (C12, "renaming variables consistently").

Layers:
* bindings: `lookup (ρ n)` in the renamed environment is `lookup n` in the original;
* `unifyTerms` / `solve`: the renamed body over the renamed environment yields the
  renamed combinations, in the same order;
* expressions and head instantiation: same outcome, including the
  unknown-variable / invalid-rule errors;
* `applyRule`, `stepAll`, `run`: exact equality;
* authorizer: any rule transformer that preserves `applyRule` commutes with
  `Authorize` and `Query`.
-/
import BiscuitModel.Model.Rename

namespace Biscuit.Rename
open Biscuit

/-! ### Variables -/

section Vars
variable {V : Type}

theorem mem_termsVars {ts : List (Term V)} {n : Bytes} : n ∈ termsVars ts ↔ Term.var n ∈ ts := by
  induction ts with
  | nil => simp [termsVars]
  | cons t ts ih =>
    cases t with
    | var m =>
      simp only [termsVars, List.filterMap_cons, termVar?, List.mem_cons, Term.var.injEq] at ih ⊢
      rw [ih]
    | const c =>
      simp only [termsVars, List.filterMap_cons, termVar?, List.mem_cons] at ih ⊢
      rw [ih]
      simp

theorem mem_exprVars {e : Expr} {n : Bytes} : n ∈ exprVars e ↔ Op.value (.var n) ∈ e := by
  induction e with
  | nil => simp [exprVars]
  | cons op ops ih =>
    cases op with
    | value t =>
      cases t with
      | var m =>
        simp only [exprVars, List.filterMap_cons, opVar?, List.mem_cons, Op.value.injEq,
          Term.var.injEq] at ih ⊢
        rw [ih]
      | const c =>
        simp only [exprVars, List.filterMap_cons, opVar?, List.mem_cons] at ih ⊢
        rw [ih]
        simp
    | unary u =>
      simp only [exprVars, List.filterMap_cons, opVar?, List.mem_cons] at ih ⊢
      rw [ih]
      simp
    | binary b =>
      simp only [exprVars, List.filterMap_cons, opVar?, List.mem_cons] at ih ⊢
      rw [ih]
      simp

theorem head_sub_ruleVars (r : DRule) : ∀ n, n ∈ predVars r.head → n ∈ ruleVars r := by
  intro n h
  simp only [ruleVars, List.mem_append]
  exact Or.inl (Or.inl h)

theorem body_sub_ruleVars (r : DRule) : ∀ p ∈ r.body, ∀ n, n ∈ predVars p → n ∈ ruleVars r := by
  intro p hp n h
  simp only [ruleVars, List.mem_append, List.mem_flatMap]
  exact Or.inl (Or.inr ⟨p, hp, h⟩)

theorem exprs_sub_ruleVars (r : DRule) : ∀ e ∈ r.exprs, ∀ n, n ∈ exprVars e → n ∈ ruleVars r := by
  intro e he n h
  simp only [ruleVars, List.mem_append, List.mem_flatMap]
  exact Or.inr ⟨e, he, h⟩

end Vars

/-! ### Bindings -/

set_option linter.unusedSectionVars false

section Engine
variable {V : Type} [DecidableEq V]
variable {ρ : Bytes → Bytes} {S : List Bytes}

/-- All keys of the environment are in `S`. -/
def DomIn (σ : Bindings V) (S : List Bytes) : Prop := ∀ p ∈ σ, p.1 ∈ S

theorem domIn_nil : DomIn ([] : Bindings V) S := by
  intro p hp; cases hp

theorem domIn_cons {σ : Bindings V} {n : Bytes} {v : V} (hn : n ∈ S) (h : DomIn σ S) :
    DomIn ((n, v) :: σ) S := by
  intro p hp
  rcases List.mem_cons.mp hp with rfl | hp
  · exact hn
  · exact h p hp

theorem lookup_rename (hinj : InjOn ρ S) :
    ∀ (σ : Bindings V), DomIn σ S → ∀ n ∈ S,
      (renameBindings ρ σ).lookup (ρ n) = σ.lookup n := by
  intro σ
  induction σ with
  | nil => intro _ n _; rfl
  | cons p rest ih =>
    intro hσ n hn
    obtain ⟨k, v⟩ := p
    have hk : k ∈ S := hσ (k, v) (List.mem_cons_self ..)
    have hrest : DomIn rest S := fun q hq => hσ q (List.mem_cons_of_mem _ hq)
    show Bindings.lookup ((ρ k, v) :: renameBindings ρ rest) (ρ n) = Bindings.lookup ((k, v) :: rest) n
    simp only [Bindings.lookup]
    by_cases hkn : k = n
    · subst hkn; simp
    · have : ρ k ≠ ρ n := fun h => hkn (hinj k hk n hn h)
      rw [if_neg this, if_neg hkn]
      exact ih hrest n hn

/-! ### Unification -/

theorem unifyTerms_dom :
    ∀ (ts : List (Term V)) (vs : List V) (σ σ' : Bindings V),
      DomIn σ S → (∀ n, Term.var n ∈ ts → n ∈ S) → unifyTerms ts vs σ = some σ' → DomIn σ' S := by
  intro ts
  induction ts with
  | nil =>
    intro vs σ σ' hσ _ h
    cases vs with
    | nil => simp only [unifyTerms, Option.some.injEq] at h; exact h ▸ hσ
    | cons v vs => simp [unifyTerms] at h
  | cons t ts ih =>
    intro vs σ σ' hσ hts h
    have hts' : ∀ n, Term.var n ∈ ts → n ∈ S := fun n hn => hts n (List.mem_cons_of_mem _ hn)
    cases vs with
    | nil => cases t <;> simp [unifyTerms] at h
    | cons v vs =>
      cases t with
      | const c =>
        simp only [unifyTerms] at h
        split at h
        · exact ih vs σ σ' hσ hts' h
        · cases h
      | var n =>
        have hn : n ∈ S := hts n (List.mem_cons_self ..)
        simp only [unifyTerms] at h
        split at h
        · split at h
          · exact ih vs σ σ' hσ hts' h
          · cases h
        · exact ih vs _ σ' (domIn_cons hn hσ) hts' h

theorem unifyTerms_rename (hinj : InjOn ρ S) :
    ∀ (ts : List (Term V)) (vs : List V) (σ : Bindings V),
      DomIn σ S → (∀ n, Term.var n ∈ ts → n ∈ S) →
      unifyTerms (ts.map (renameTerm ρ)) vs (renameBindings ρ σ)
        = (unifyTerms ts vs σ).map (renameBindings ρ) := by
  intro ts
  induction ts with
  | nil =>
    intro vs σ _ _
    cases vs <;> simp [unifyTerms]
  | cons t ts ih =>
    intro vs σ hσ hts
    have hts' : ∀ n, Term.var n ∈ ts → n ∈ S := fun n hn => hts n (List.mem_cons_of_mem _ hn)
    cases vs with
    | nil => cases t <;> simp [unifyTerms, renameTerm]
    | cons v vs =>
      cases t with
      | const c =>
        simp only [List.map_cons, renameTerm, unifyTerms]
        split
        · exact ih vs σ hσ hts'
        · rfl
      | var n =>
        have hn : n ∈ S := hts n (List.mem_cons_self ..)
        simp only [List.map_cons, renameTerm, unifyTerms]
        rw [lookup_rename hinj σ hσ n hn]
        cases hl : σ.lookup n with
        | some w =>
          simp only
          split
          · exact ih vs σ hσ hts'
          · rfl
        | none =>
          simp only
          exact ih vs ((n, v) :: σ) (domIn_cons hn hσ) hts'

theorem unifyPred_dom (p : Pred V) (f : Fact V) (σ σ' : Bindings V)
    (hσ : DomIn σ S) (hp : ∀ n, n ∈ predVars p → n ∈ S) (h : unifyPred p f σ = some σ') :
    DomIn σ' S := by
  unfold unifyPred at h
  split at h
  · exact unifyTerms_dom p.terms f.args σ σ' hσ (fun n hn => hp n (mem_termsVars.mpr hn)) h
  · cases h

theorem unifyPred_rename (hinj : InjOn ρ S) (p : Pred V) (f : Fact V) (σ : Bindings V)
    (hσ : DomIn σ S) (hp : ∀ n, n ∈ predVars p → n ∈ S) :
    unifyPred (renamePred ρ p) f (renameBindings ρ σ)
      = (unifyPred p f σ).map (renameBindings ρ) := by
  by_cases hname : p.name = f.name
  · have h1 : unifyPred (renamePred ρ p) f (renameBindings ρ σ)
        = unifyTerms (p.terms.map (renameTerm ρ)) f.args (renameBindings ρ σ) := if_pos hname
    have h2 : unifyPred p f σ = unifyTerms p.terms f.args σ := if_pos hname
    rw [h1, h2]
    exact unifyTerms_rename hinj p.terms f.args σ hσ (fun n hn => hp n (mem_termsVars.mpr hn))
  · have h1 : unifyPred (renamePred ρ p) f (renameBindings ρ σ) = none := if_neg hname
    have h2 : unifyPred p f σ = none := if_neg hname
    rw [h1, h2]
    rfl

/-! ### Join enumeration -/

theorem solve_dom (facts : List (Fact V)) :
    ∀ (body : List (Pred V)) (σ : Bindings V), DomIn σ S →
      (∀ p ∈ body, ∀ n, n ∈ predVars p → n ∈ S) →
      ∀ σ' ∈ solve facts body σ, DomIn σ' S := by
  intro body
  induction body with
  | nil =>
    intro σ hσ _ σ' h
    simp only [solve, List.mem_singleton] at h
    exact h ▸ hσ
  | cons p ps ih =>
    intro σ hσ hb σ' h
    simp only [solve, List.mem_flatMap] at h
    obtain ⟨f, _, h⟩ := h
    cases hu : unifyPred p f σ with
    | none => simp [hu] at h
    | some σ₁ =>
      rw [hu] at h
      exact ih σ₁ (unifyPred_dom p f σ σ₁ hσ (hb p (List.mem_cons_self ..)) hu)
        (fun q hq => hb q (List.mem_cons_of_mem _ hq)) σ' h

/-- The renamed body over the renamed environment enumerates the renamed
combinations, in the same order and with the same multiplicity. -/
theorem solve_rename (hinj : InjOn ρ S) (facts : List (Fact V)) :
    ∀ (body : List (Pred V)) (σ : Bindings V), DomIn σ S →
      (∀ p ∈ body, ∀ n, n ∈ predVars p → n ∈ S) →
      solve facts (body.map (renamePred ρ)) (renameBindings ρ σ)
        = (solve facts body σ).map (renameBindings ρ) := by
  intro body
  induction body with
  | nil => intro σ _ _; rfl
  | cons p ps ih =>
    intro σ hσ hb
    have hp := hb p (List.mem_cons_self ..)
    have hps : ∀ q ∈ ps, ∀ n, n ∈ predVars q → n ∈ S := fun q hq => hb q (List.mem_cons_of_mem _ hq)
    simp only [List.map_cons, solve, List.map_flatMap]
    congr 1
    funext f
    rw [unifyPred_rename hinj p f σ hσ hp]
    cases hu : unifyPred p f σ with
    | none => rfl
    | some σ₁ =>
      simp only [Option.map_some]
      exact ih σ₁ (unifyPred_dom p f σ σ₁ hσ hp hu) hps

/-! ### Head instantiation -/

theorem substTerms_rename (hinj : InjOn ρ S) (σ : Bindings V) (hσ : DomIn σ S) :
    ∀ (ts : List (Term V)), (∀ n, Term.var n ∈ ts → n ∈ S) →
      substTerms (renameBindings ρ σ) (ts.map (renameTerm ρ)) = substTerms σ ts := by
  intro ts
  induction ts with
  | nil => intro _; rfl
  | cons t ts ih =>
    intro hts
    have hts' : ∀ n, Term.var n ∈ ts → n ∈ S := fun n hn => hts n (List.mem_cons_of_mem _ hn)
    cases t with
    | const c => simp only [List.map_cons, renameTerm, substTerms, ih hts']
    | var n =>
      have hn : n ∈ S := hts n (List.mem_cons_self ..)
      simp only [List.map_cons, renameTerm, substTerms, ih hts', lookup_rename hinj σ hσ n hn]

theorem substHead_rename (hinj : InjOn ρ S) (σ : Bindings V) (hσ : DomIn σ S)
    (h : Pred V) (hh : ∀ n, n ∈ predVars h → n ∈ S) :
    substHead (renamePred ρ h) (renameBindings ρ σ) = substHead h σ := by
  simp only [substHead, renamePred]
  rw [substTerms_rename hinj σ hσ h.terms (fun n hn => hh n (mem_termsVars.mpr hn))]

end Engine

/-! ### Expressions -/

section Exprs
variable {ρ : Bytes → Bytes} {S : List Bytes}

theorem stepOp_rename (cfg : EvalCfg) (hinj : InjOn ρ S) (σ : Bindings Val) (hσ : DomIn σ S)
    (st : List Val) (op : Op) (hop : ∀ n, op = .value (.var n) → n ∈ S) :
    stepOp cfg (renameBindings ρ σ) st (renameOp ρ op) = stepOp cfg σ st op := by
  cases op with
  | value t =>
    cases t with
    | var n =>
      simp only [renameOp, renameTerm, stepOp]
      rw [lookup_rename hinj σ hσ n (hop n rfl)]
    | const c => rfl
  | unary u => rfl
  | binary b => rfl

theorem runOps_rename (cfg : EvalCfg) (hinj : InjOn ρ S) (σ : Bindings Val) (hσ : DomIn σ S) :
    ∀ (e : Expr) (st : List Val), (∀ n, n ∈ exprVars e → n ∈ S) →
      runOps cfg (renameBindings ρ σ) (renameExpr ρ e) st = runOps cfg σ e st := by
  intro e
  induction e with
  | nil => intro st _; rfl
  | cons op ops ih =>
    intro st he
    have hop : ∀ n, op = .value (.var n) → n ∈ S := fun n h =>
      he n (mem_exprVars.mpr (h ▸ List.mem_cons_self ..))
    have hops : ∀ n, n ∈ exprVars ops → n ∈ S := fun n h =>
      he n (mem_exprVars.mpr (List.mem_cons_of_mem _ (mem_exprVars.mp h)))
    show (stepOp cfg (renameBindings ρ σ) st (renameOp ρ op)).bind
        (runOps cfg (renameBindings ρ σ) (renameExpr ρ ops)) = (stepOp cfg σ st op).bind (runOps cfg σ ops)
    rw [stepOp_rename cfg hinj σ hσ st op hop]
    cases stepOp cfg σ st op with
    | ok st' => exact ih st' hops
    | err c => rfl
    | panic s => rfl

theorem evalBool_rename (cfg : EvalCfg) (hinj : InjOn ρ S) (σ : Bindings Val) (hσ : DomIn σ S)
    (e : Expr) (he : ∀ n, n ∈ exprVars e → n ∈ S) :
    evalBool cfg (renameBindings ρ σ) (renameExpr ρ e) = evalBool cfg σ e := by
  unfold evalBool eval
  rw [runOps_rename cfg hinj σ hσ e [] he]

theorem checkExprs_rename (cfg : EvalCfg) (hinj : InjOn ρ S) (σ : Bindings Val) (hσ : DomIn σ S) :
    ∀ (es : List Expr), (∀ e ∈ es, ∀ n, n ∈ exprVars e → n ∈ S) →
      checkExprs (evalBool cfg) (renameBindings ρ σ) (es.map (renameExpr ρ))
        = checkExprs (evalBool cfg) σ es := by
  intro es
  induction es with
  | nil => intro _; rfl
  | cons e es ih =>
    intro hes
    simp only [List.map_cons, checkExprs]
    rw [evalBool_rename cfg hinj σ hσ e (hes e (List.mem_cons_self ..)),
      ih (fun e' he' => hes e' (List.mem_cons_of_mem _ he'))]

end Exprs

/-! ### One rule -/

theorem applyCombos_rename (cfg : EvalCfg) {ρ : Bytes → Bytes} (r : DRule)
    (hinj : InjOn ρ (ruleVars r)) :
    ∀ (L : List (Bindings Val)) (acc : List DFact), (∀ σ ∈ L, DomIn σ (ruleVars r)) →
      applyCombos (evalBool cfg) (renameRule ρ r) (L.map (renameBindings ρ)) acc
        = applyCombos (evalBool cfg) r L acc := by
  intro L
  induction L with
  | nil => intro acc _; rfl
  | cons σ rest ih =>
    intro acc hL
    have hσ : DomIn σ (ruleVars r) := hL σ (List.mem_cons_self ..)
    have hrest : ∀ τ ∈ rest, DomIn τ (ruleVars r) := fun τ h => hL τ (List.mem_cons_of_mem _ h)
    have hce : checkExprs (evalBool cfg) (renameBindings ρ σ) (renameRule ρ r).exprs
        = checkExprs (evalBool cfg) σ r.exprs :=
      checkExprs_rename cfg hinj σ hσ r.exprs (exprs_sub_ruleVars r)
    have hsh : substHead (renameRule ρ r).head (renameBindings ρ σ) = substHead r.head σ :=
      substHead_rename hinj σ hσ r.head (head_sub_ruleVars r)
    simp only [List.map_cons, applyCombos, hce, hsh]
    cases checkExprs (evalBool cfg) σ r.exprs with
    | err c => rfl
    | panic s => rfl
    | ok b =>
      cases b with
      | false => exact ih acc hrest
      | true =>
        cases substHead r.head σ with
        | none => rfl
        | some f => exact ih _ hrest

/-- **Engine level.** A renaming that is injective on the variables of a rule does
not change what `Rule.Apply` returns: same facts in the same order, same error. -/
theorem applyRule_rename (cfg : EvalCfg) (ρ : Bytes → Bytes) (r : DRule)
    (hinj : InjOn ρ (ruleVars r)) (facts acc : List DFact) :
    applyRule (evalBool cfg) (renameRule ρ r) facts acc = applyRule (evalBool cfg) r facts acc := by
  unfold applyRule
  have hb : ∀ p ∈ r.body, ∀ n, n ∈ predVars p → n ∈ ruleVars r := body_sub_ruleVars r
  have hs := solve_rename hinj facts r.body ([] : Bindings Val) domIn_nil hb
  have hd := solve_dom (S := ruleVars r) facts r.body ([] : Bindings Val) domIn_nil hb
  show applyCombos (evalBool cfg) (renameRule ρ r)
      (solve facts (r.body.map (renamePred ρ)) (renameBindings ρ [])) acc = _
  rw [hs]
  exact applyCombos_rename cfg r hinj _ acc hd

/-! ### Rule transformers that preserve `applyRule` -/

section Transformer
variable {V E : Type} [DecidableEq V]

/-- `f` preserves the rule `r`: applying `f r` gives exactly what applying `r` gives. -/
def Preserves (ev : Bindings V → E → Outcome Bool) (f : Rule V E → Rule V E) (r : Rule V E) : Prop :=
  ∀ facts acc, applyRule ev (f r) facts acc = applyRule ev r facts acc

theorem stepAll_map (ev : Bindings V → E → Outcome Bool) (f : Rule V E → Rule V E)
    (facts : List (Fact V)) :
    ∀ (rules : List (Rule V E)) (acc : List (Fact V)), (∀ r ∈ rules, Preserves ev f r) →
      stepAll ev facts (rules.map f) acc = stepAll ev facts rules acc := by
  intro rules
  induction rules with
  | nil => intro acc _; rfl
  | cons r rs ih =>
    intro acc h
    simp only [List.map_cons, stepAll, h r (List.mem_cons_self ..) facts acc]
    rcases applyRule ev r facts acc with ⟨acc', _ | e⟩
    · exact ih acc' (fun r' hr' => h r' (List.mem_cons_of_mem _ hr'))
    · rfl

theorem run_map (ev : Bindings V → E → Outcome Bool) (f : Rule V E → Rule V E)
    (mf : Nat) (rules : List (Rule V E)) (h : ∀ r ∈ rules, Preserves ev f r) :
    ∀ (mi : Nat) (facts : List (Fact V)),
      run ev mf (rules.map f) mi facts = run ev mf rules mi facts := by
  intro mi
  induction mi with
  | zero => intro facts; rfl
  | succ n ih =>
    intro facts
    simp only [run, stepAll_map ev f facts rules [] h]
    rcases stepAll ev facts rules [] with ⟨new, _ | e⟩
    · simp only [ih]
    · rfl

theorem queryRule_map (ev : Bindings V → E → Outcome Bool) (f : Rule V E → Rule V E)
    (r : Rule V E) (h : Preserves ev f r) (facts : List (Fact V)) :
    queryRule ev (f r) facts = queryRule ev r facts := by
  unfold queryRule
  rw [h facts []]

end Transformer

/-! ### Authorizer -/

section Auth
variable (cfg : EvalCfg) (f : DRule → DRule)

theorem mem_block_allRules_rules {b : Block} {r : DRule} (h : r ∈ b.rules) : r ∈ b.allRules :=
  List.mem_append_left _ h

theorem mem_block_allRules_query {b : Block} {c : Check} {r : DRule} (hc : c ∈ b.checks)
    (h : r ∈ c.queries) : r ∈ b.allRules :=
  List.mem_append_right _ (List.mem_flatMap.mpr ⟨c, hc, h⟩)

theorem queryHolds_map (facts : List DFact) (q : DRule) (h : Preserves (evalBool cfg) f q) :
    queryHolds cfg facts (f q) = queryHolds cfg facts q := by
  unfold queryHolds
  rw [queryRule_map (evalBool cfg) f q h facts]

theorem any_queryHolds_map (facts : List DFact) :
    ∀ (qs : List DRule), (∀ q ∈ qs, Preserves (evalBool cfg) f q) →
      (qs.map f).any (queryHolds cfg facts) = qs.any (queryHolds cfg facts) := by
  intro qs
  induction qs with
  | nil => intro _; rfl
  | cons q qs ih =>
    intro h
    simp only [List.map_cons, List.any_cons, queryHolds_map cfg f facts q (h q (List.mem_cons_self ..)),
      ih (fun q' hq' => h q' (List.mem_cons_of_mem _ hq'))]

theorem checkHolds_map (facts : List DFact) (c : Check)
    (h : ∀ q ∈ c.queries, Preserves (evalBool cfg) f q) :
    checkHolds cfg facts (c.mapRules f) = checkHolds cfg facts c := by
  unfold checkHolds
  exact any_queryHolds_map cfg f facts c.queries h

theorem failedFrom_map (facts : List DFact) (mk : Nat → CheckId) :
    ∀ (cs : List Check) (i : Nat), (∀ c ∈ cs, ∀ q ∈ c.queries, Preserves (evalBool cfg) f q) →
      failedFrom cfg facts mk (cs.map (Check.mapRules f)) i = failedFrom cfg facts mk cs i := by
  intro cs
  induction cs with
  | nil => intro i _; rfl
  | cons c cs ih =>
    intro i h
    simp only [List.map_cons, failedFrom, checkHolds_map cfg f facts c (h c (List.mem_cons_self ..)),
      ih (i + 1) (fun c' hc' => h c' (List.mem_cons_of_mem _ hc'))]

theorem failedChecks_map (facts : List DFact) (mk : Nat → CheckId) (cs : List Check)
    (h : ∀ c ∈ cs, ∀ q ∈ c.queries, Preserves (evalBool cfg) f q) :
    failedChecks cfg facts mk (cs.map (Check.mapRules f)) = failedChecks cfg facts mk cs :=
  failedFrom_map cfg f facts mk cs 0 h

theorem firstPolicy_map (facts : List DFact) :
    ∀ (ps : List Policy), (∀ p ∈ ps, ∀ q ∈ p.queries, Preserves (evalBool cfg) f q) →
      firstPolicy cfg facts (ps.map (Policy.mapRules f)) = firstPolicy cfg facts ps := by
  intro ps
  induction ps with
  | nil => intro _; rfl
  | cons p ps ih =>
    intro h
    simp only [List.map_cons, firstPolicy, Policy.mapRules,
      any_queryHolds_map cfg f facts p.queries (h p (List.mem_cons_self ..)),
      ih (fun p' hp' => h p' (List.mem_cons_of_mem _ hp'))]

theorem runWorld_map (lim : Limits) (w : World) (h : ∀ r ∈ w.rules, Preserves (evalBool cfg) f r) :
    runWorld cfg lim (w.mapRules f) = ((runWorld cfg lim w).1.mapRules f, (runWorld cfg lim w).2) := by
  simp only [runWorld, World.mapRules, run_map (evalBool cfg) f lim.maxFacts w.rules h]

theorem evalBlock_map (lim : Limits) (base : List DFact) (b : Block) (idx : Nat)
    (h : ∀ r ∈ b.allRules, Preserves (evalBool cfg) f r) :
    evalBlock cfg lim base (b.mapRules f) idx = evalBlock cfg lim base b idx := by
  have hr : ∀ r ∈ b.rules, Preserves (evalBool cfg) f r := fun r hr => h r (mem_block_allRules_rules hr)
  have hc : ∀ c ∈ b.checks, ∀ q ∈ c.queries, Preserves (evalBool cfg) f q :=
    fun c hc q hq => h q (mem_block_allRules_query hc hq)
  have hw := runWorld_map cfg f lim { facts := insertAll base b.facts, rules := b.rules } hr
  simp only [World.mapRules] at hw
  simp only [evalBlock, Block.mapRules, hw]
  rcases runWorld cfg lim { facts := insertAll base b.facts, rules := b.rules } with ⟨w', _ | e⟩
  · exact congrArg Except.ok (failedChecks_map cfg f w'.facts (CheckId.block idx) b.checks hc)
  · rfl

theorem blockPhase_map (lim : Limits) (base : List DFact) :
    ∀ (bs : List Block) (idx : Nat) (acc : List CheckId),
      (∀ b ∈ bs, ∀ r ∈ b.allRules, Preserves (evalBool cfg) f r) →
      blockPhase cfg lim base (bs.map (Block.mapRules f)) idx acc = blockPhase cfg lim base bs idx acc := by
  intro bs
  induction bs with
  | nil => intro idx acc _; rfl
  | cons b bs ih =>
    intro idx acc h
    simp only [List.map_cons, blockPhase, evalBlock_map cfg f lim base b idx (h b (List.mem_cons_self ..))]
    cases evalBlock cfg lim base b idx with
    | error e => rfl
    | ok failed => exact ih (idx + 1) _ (fun b' hb' => h b' (List.mem_cons_of_mem _ hb'))

theorem authorityPhase_map (A : Block) (s : AuthState)
    (hA : ∀ r ∈ A.allRules, Preserves (evalBool cfg) f r)
    (hs : ∀ r ∈ s.allRules, Preserves (evalBool cfg) f r) :
    authorityPhase cfg (A.mapRules f) (s.mapRules f)
      = ((authorityPhase cfg A s).1.mapRules f, (authorityPhase cfg A s).2) := by
  have hw1 : ∀ r ∈ s.world.rules ++ A.rules, Preserves (evalBool cfg) f r := by
    intro r hr
    rcases List.mem_append.mp hr with hr | hr
    · exact hs r (List.mem_append_left _ (List.mem_append_left _ hr))
    · exact hA r (mem_block_allRules_rules hr)
  have hsc : ∀ c ∈ s.checks, ∀ q ∈ c.queries, Preserves (evalBool cfg) f q := fun c hc q hq =>
    hs q (List.mem_append_left _ (List.mem_append_right _ (List.mem_flatMap.mpr ⟨c, hc, hq⟩)))
  have hAc : ∀ c ∈ A.checks, ∀ q ∈ c.queries, Preserves (evalBool cfg) f q :=
    fun c hc q hq => hA q (mem_block_allRules_query hc hq)
  have hsp : ∀ p ∈ s.policies, ∀ q ∈ p.queries, Preserves (evalBool cfg) f q := fun p hp q hq =>
    hs q (List.mem_append_right _ (List.mem_flatMap.mpr ⟨p, hp, hq⟩))
  have hw := runWorld_map cfg f s.limits
    { facts := insertAll s.world.facts A.facts, rules := s.world.rules ++ A.rules } hw1
  simp only [World.mapRules, List.map_append] at hw
  simp only [authorityPhase, Block.mapRules, AuthState.mapRules, World.mapRules, hw]
  rcases runWorld cfg s.limits
    { facts := insertAll s.world.facts A.facts, rules := s.world.rules ++ A.rules } with ⟨w2, _ | e⟩
  · simp only [failedChecks_map cfg f w2.facts CheckId.authorizer s.checks hsc,
      failedChecks_map cfg f w2.facts (CheckId.block 0) A.checks hAc,
      firstPolicy_map cfg f w2.facts s.policies hsp]
  · rfl

/-- Any rule transformer that preserves every rule and query of the token and of the
authorizer commutes with `Authorize`: same verdict, and the resulting state is the
transformed state. -/
theorem authorizeWith_map (pinnedReset : Bool) (tok : Token) (s : AuthState)
    (h : ∀ r ∈ tok.allRules ++ s.allRules, Preserves (evalBool cfg) f r) :
    authorizeWith cfg pinnedReset (tok.mapRules f) (s.mapRules f)
      = ((authorizeWith cfg pinnedReset tok s).1.mapRules f, (authorizeWith cfg pinnedReset tok s).2) := by
  have hA : ∀ r ∈ tok.authority.allRules, Preserves (evalBool cfg) f r := fun r hr =>
    h r (List.mem_append_left _ (List.mem_append_left _ hr))
  have hB : ∀ b ∈ tok.blocks, ∀ r ∈ b.allRules, Preserves (evalBool cfg) f r := fun b hb r hr =>
    h r (List.mem_append_left _ (List.mem_append_right _ (List.mem_flatMap.mpr ⟨b, hb, hr⟩)))
  have hs : ∀ r ∈ s.allRules, Preserves (evalBool cfg) f r := fun r hr =>
    h r (List.mem_append_right _ hr)
  have hap := authorityPhase_map cfg f tok.authority s hA hs
  unfold authorizeWith
  simp only [Token.mapRules] at hap ⊢
  rw [hap]
  rcases authorityPhase cfg tok.authority s with ⟨w, e | ap⟩
  · rfl
  · simp only
    have hbp := blockPhase_map cfg f s.limits w.facts tok.blocks 1 ap.failed hB
    have hl : (AuthState.mapRules f s).limits = s.limits := rfl
    have hwf : (World.mapRules f w).facts = w.facts := rfl
    rw [hl, hwf, hbp]
    cases blockPhase cfg s.limits w.facts tok.blocks 1 ap.failed with
    | error e => rfl
    | ok failed =>
      simp only
      cases failed.isEmpty with
      | false => rfl
      | true => cases pinnedReset <;> rfl

theorem query_map (s : AuthState) (q : DRule)
    (hs : ∀ r ∈ s.world.rules, Preserves (evalBool cfg) f r) (hq : Preserves (evalBool cfg) f q) :
    query cfg (s.mapRules f) (f q) = ((query cfg s q).1.mapRules f, (query cfg s q).2) := by
  have hw := runWorld_map cfg f s.limits s.world hs
  unfold query
  have hl : (AuthState.mapRules f s).limits = s.limits := rfl
  have hwd : (AuthState.mapRules f s).world = s.world.mapRules f := rfl
  rw [hl, hwd, hw]
  rcases runWorld cfg s.limits s.world with ⟨w, _ | e⟩
  · simp only
    have hwf : (World.mapRules f w).facts = w.facts := rfl
    rw [hwf, queryRule_map (evalBool cfg) f q hq w.facts]
    rfl
  · rfl

end Auth

end Biscuit.Rename
