#!/usr/bin/env python3
"""retest_all.py — re-run, for every kept independent seed, the checks recorded as detecting it
(after generators changed) and report any seed that is no longer detected."""
import glob, json, os, subprocess, sys
lost = []
for d in sorted(glob.glob('/verif/seeded/C*-*m[0-9]*/')):
    name = os.path.basename(d.rstrip('/'))
    m = json.load(open(d + 'meta.json'))
    if m.get('superseded'):
        print(name, 'superseded, skipped'); continue
    checks = m.get('detected_by') or [m['property']]
    r = subprocess.run(['python3', '/verif/tools/retest_seed.py', name] + checks, capture_output=True, text=True)
    line = r.stdout.strip().split('\n')[-1] if r.stdout.strip() else r.stderr[-200:]
    print(line, flush=True)
    m2 = json.load(open(d + 'meta.json'))
    if not m2.get('detected_by'):
        lost.append(name)
print("LOST:", lost)
