#!/usr/bin/env python3
"""try_seed.py <patch.diff> <PROP> [PROP…] [--tier quick|thorough] — apply a seeded change to
/repo's working tree, run the named checks, undo the change. Prints one line per check."""
import json, os, subprocess, sys
args = sys.argv[1:]
tier = "quick"
if "--tier" in args:
    i = args.index("--tier"); tier = args[i + 1]; del args[i:i + 2]
patch, props = args[0], args[1:]
def sh(cmd):
    return subprocess.run(cmd, shell=True, capture_output=True, text=True)
st = sh("git -C /repo status --porcelain").stdout.strip()
if st:
    print("working tree of /repo is not clean:", st); sys.exit(2)
r = sh("git -C /repo apply %s" % patch)
if r.returncode != 0:
    # written against an older HEAD (before later fix commits): try a three-way merge
    r = sh("git -C /repo apply -3 %s" % patch)
    if r.returncode != 0 or "with conflicts" in (r.stderr + r.stdout):
        sh("git -C /repo reset -q --hard HEAD && git -C /repo clean -fdq")
        print("cannot apply:", r.stderr); sys.exit(2)
res = {}
try:
    b = sh("cd /repo && GOFLAGS=-mod=mod GOPROXY=off GOSUMDB=off GOTOOLCHAIN=local go build ./... 2>&1")
    if b.returncode != 0:
        print("DOES NOT COMPILE:", b.stdout[:400])
    for p in props:
        out = sh("cd /verif && VERIF_EVIDENCE_DIR=/verif/.work/seed-evidence ./check %s --tier %s" % (p, tier))
        viol = [l for l in out.stdout.split("\n") if l.startswith("VIOLATION")]
        res[p] = {"exit": out.returncode, "violations": [v[:300] for v in viol[:5]]}
        print(p, "exit", out.returncode, "|", (viol[0][:220] if viol else out.stdout.strip().split("\n")[-1][:200]))
finally:
    sh("git -C /repo reset -q --hard HEAD && git -C /repo clean -fdq")
    # the evidence written while the change was applied describes the changed tree: restore
    for p in props:
        sh("git -C /verif checkout -- evidence/%s.json" % p)
print(json.dumps(res))
