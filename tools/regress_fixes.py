#!/usr/bin/env python3
"""For every 'fix:' commit of /repo: re-introduce the defect (reverse patch on the working
tree), run the checks that should notice, undo. Writes /verif/seeded/fix-<hash>/."""
import json, os, subprocess, sys
REPO, VERIF = "/repo", "/verif"
EXPECT = {
    "MinInt64 / -1": ["C06"],
    "compare set elements": ["C06", "C10"],
    "Reset restores": ["C13"],
    "forwards its AuthorizerOptions": ["C11"],
    "evaluation goroutines terminate": ["C11"],
    "keep the root key identifier": ["C16", "C07"],
    "SymbolTable.Str compares": ["C06"],
    "next secret that is not 32": ["C10"],
    "operator message without kind": ["C10"],
    "failing random source": ["C20"],
    "SymbolTable.Clone copies": ["C08"],
    "fresh buffer": ["C19"],
    "term conversion errors inside expressions": ["C14"],
    "separated by commas": ["C14"],
    "lex as identifiers": ["C14"],
    "sets hold each element once": ["C12"],
    "its own copy of the builder": ["C08"],
    "several WithWorldOptions": ["C11"],
    "variable names must be declared": ["C02"],
    "New and Append refuse": ["C02"],
    "evaluation failed cannot be saved": ["C18"],
    "integer literals are base 10": ["C14"],
    "negative integer literals": ["C14"],
    "LoadPolicies refuses serialized policies": ["C18"],
    "LoadPolicies keeps the meaning": ["C04"],
    "keeps its rules after Authorize": ["C03"],
    "adds the loaded checks and policies": ["C04"],
    "starts no escape sequence": ["C14"],
}
def sh(cmd, **kw):
    return subprocess.run(cmd, shell=True, capture_output=True, text=True, **kw)
log = sh("git -C %s log --format='%%h %%s'" % REPO).stdout.strip().split("\n")
only = sys.argv[1:] 
results = []
for line in log:
    h, _, subj = line.partition(" ")
    if not subj.startswith("fix:"):
        continue
    props = next((v for k, v in EXPECT.items() if k in subj), None)
    if props is None:
        print("no expectation for", subj); continue
    if only and not any(p in only for p in props):
        continue
    d = os.path.join(VERIF, "seeded", "fix-" + h)
    os.makedirs(d, exist_ok=True)
    patch = sh("git -C %s diff %s %s^" % (REPO, h, h)).stdout
    open(os.path.join(d, "patch.diff"), "w").write(patch)
    r = sh("git -C %s apply %s" % (REPO, os.path.join(d, "patch.diff")))
    if r.returncode != 0:
        print("cannot apply reverse of", h, r.stderr[:200]); continue
    ran = {}
    try:
        for p in props:
            out = sh("cd %s && VERIF_EVIDENCE_DIR=%s/.work/seed-evidence ./check %s --tier quick" % (VERIF, VERIF, p))
            viol = [l for l in out.stdout.split("\n") if l.startswith("VIOLATION")]
            ran[p] = {"exit": out.returncode, "violations": viol[:4]}
            print(h, p, "exit", out.returncode, (viol[0][:160] if viol else "NO VIOLATION"))
    finally:
        sh("git -C %s checkout -- ." % REPO)
    meta = {"kind": "reverse of a fix: commit (re-introduces a genuine defect of the pinned tree)", "commit": h, "subject": subj,
            "breaks": props, "needs": "see the fix commit message", "ran": ran,
            "detected_by": [p for p, v in ran.items() if v["exit"] == 1 and v["violations"]]}
    json.dump(meta, open(os.path.join(d, "meta.json"), "w"), indent=1)
    results.append((h, meta["detected_by"], props))
print()
for h, det, props in results:
    print(h, "detected by", det, "expected", props)
