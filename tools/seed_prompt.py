#!/usr/bin/env python3
"""Prints the prompt for an independent seeding sub-agent for one property."""
import json, sys
pid = sys.argv[1]
for l in open('/verif/properties.jsonl'):
    d = json.loads(l)
    if d['id'] == pid:
        break
rnd = sys.argv[2] if len(sys.argv) > 2 else ""      # round tag: "" (round 1), "2", …
wt = "/tmp/seed%s-%s" % (rnd, pid)
out = "/tmp/seed%s-%s-out" % (rnd, pid)
extra = ""
if rnd:
    extra = " This is a later round of the exercise: the most obvious single-site mistakes have been tried already, so look beyond them — the less-travelled code paths (conversion glue between the parser, builder, datalog and protobuf layers; option plumbing; printing; rarely used entry points and constructors; error paths; boundary values; behaviour that only shows after two or three operations on the same object)."
print(f"""You are a software engineer helping to evaluate a verification tool by mutation seeding. You work ONLY inside a scratch git worktree of a Go library (biscuit-go, Go implementation of Biscuit authorization tokens) at {wt} and an output directory {out}. Do NOT read, list or use anything under /verif or /repo (the worktree is a full copy of the library; everything you need is in it). Do not commit anything, and never use `git stash` (the stash is shared between worktrees of the same repository and other people are working in sibling worktrees): to set a change aside use `git diff > file` and `git apply -R file` / `git checkout -- .`.

Environment: no network. Use these env vars for every go command: GOFLAGS=-mod=mod GOPROXY=off GOSUMDB=off GOTOOLCHAIN=local (go 1.23). The library's test suite is run with:  cd {wt} && go test -vet=off -count=1 ./...   (one datalog test, TestFamily, and samples test019 are known to fail sporadically with 'world runtime limit: timeout' because of a 2 ms default time limit; if you see exactly that, re-run to tell a flake from a real failure).

The PROPERTY that the library is supposed to satisfy (this text is all you get about it):

  id: {d['id']}
  title: {d['title']}
  statement: {d['statement']}
  holds for: {d['quantifier']['text']}

Your task: produce up to THREE different small source changes to the library (each independent of the others, each a separate patch against the unmodified worktree) that BREAK this property while the library still compiles and the EXISTING test suite still passes (unedited). Prefer realistic mistakes a maintainer could make (an off-by-one, a dropped field, a reordered step, a missing copy, a wrong comparison, an early return, a cache that is not invalidated) over sabotage, and prefer changes that need something SPECIFIC to manifest — an unusual input, a multi-step sequence of operations, a particular interleaving, two cooperating sites that each look fine alone — over ones that ordinary use would expose at once. The three changes should break the property in different ways / at different places if possible.{extra}

For each change k = 1, 2, 3:
  1. Start from the unmodified worktree (git -C {wt} checkout -- . ; git -C {wt} clean -fd), make the change, save it as {out}/m<k>/patch.diff  (git -C {wt} diff > …).
  2. Write a demonstration: a Go test file (package biscuit, biscuit_test, datalog or parser as appropriate — put it at {out}/m<k>/demo_test.go and say in which directory of the library it has to be placed to run) or a small main program, which FAILS with the change applied and PASSES without it. Verify both yourself.
  3. With the change applied (and the demo file removed again), run the existing test suite and confirm it passes (apart from the known timeout flake).
  4. Write {out}/m<k>/README.md: what the change is, why it breaks the property, what it needs in order to manifest, where to place the demo and the exact commands you ran with their outcomes.
Finish by restoring the worktree to the unmodified state (git checkout -- . ; git clean -fd). Your final answer: for each change one paragraph (what, where, what is needed to manifest, demo location, suite result). If you cannot find three, deliver what you have.""")
