#!/usr/bin/env python3
"""retest_parallel.py [-j N] [name-prefix…] — like retest_all.py, but N workers, each with its
own copy of /verif (under /tmp/rv<i>) and its own clone of /repo (under /tmp/rr<i>), so that
/repo itself is never touched. For every kept seed the checks recorded as detecting it are
re-run against the seeded change; results are merged into the seed's meta.json ("retests").
The copies are removed at the end."""
import glob, json, os, queue, shutil, subprocess, sys, threading
args = sys.argv[1:]
N = 6
if args and args[0] == "-j":
    N = int(args[1]); args = args[2:]
prefixes = args
ENV = dict(os.environ, GOFLAGS="-mod=mod", GOPROXY="off", GOSUMDB="off", GOTOOLCHAIN="local")
def sh(cmd, cwd=None, env=None):
    return subprocess.run(cmd, shell=True, capture_output=True, text=True, cwd=cwd, env=env or ENV)
seeds = []
for d in sorted(glob.glob('/verif/seeded/*/')):
    name = os.path.basename(d.rstrip('/'))
    if prefixes and not any(name.startswith(p) for p in prefixes):
        continue
    m = json.load(open(d + 'meta.json'))
    if m.get('superseded'):
        print(name, 'superseded, skipped'); continue
    checks = m.get('detected_by') or m.get('breaks') or [m.get('property') or name.split('-')[0]]
    seeds.append((name, checks))
q = queue.Queue()
for s in seeds:
    q.put(s)
results, lock = {}, threading.Lock()
def worker(i):
    rv, rr = "/tmp/rv%d" % i, "/tmp/rr%d" % i
    shutil.rmtree(rv, ignore_errors=True); shutil.rmtree(rr, ignore_errors=True)
    sh("rsync -a --exclude .git --exclude seeded --exclude replays --exclude .work --exclude evidence /verif/ %s/" % rv)
    os.makedirs(rv + "/evidence", exist_ok=True)
    sh("git clone -q /repo %s" % rr)
    env = dict(ENV, VERIF_REPO=rr, VERIF_EVIDENCE_DIR=rv + "/.work/seed-evidence")
    while True:
        try:
            name, checks = q.get_nowait()
        except queue.Empty:
            break
        patch = "/verif/seeded/%s/patch.diff" % name
        r = sh("git -C %s apply %s" % (rr, patch))
        if r.returncode != 0:
            r = sh("git -C %s apply -3 %s" % (rr, patch))
            if r.returncode != 0 or "with conflicts" in (r.stderr + r.stdout):
                sh("git -C %s reset -q --hard HEAD && git -C %s clean -fdq" % (rr, rr))
                with lock:
                    results[name] = {"error": "cannot apply: " + r.stderr[:200]}
                    print(name, "CANNOT APPLY", flush=True)
                continue
        ran = {}
        for p in checks:
            out = sh("./check %s --tier quick" % p, cwd=rv, env=env)
            viol = [l for l in out.stdout.split("\n") if l.startswith("VIOLATION")]
            ran[p] = {"exit": out.returncode, "violations": [v[:300] for v in viol[:5]]}
        sh("git -C %s reset -q --hard HEAD && git -C %s clean -fdq" % (rr, rr))
        det = [p for p, v in ran.items() if v["exit"] == 1 and v["violations"]]
        with lock:
            results[name] = {"ran": ran, "detected_by": det}
            print(name, "detected by", det, flush=True)
    shutil.rmtree(rv, ignore_errors=True); shutil.rmtree(rr, ignore_errors=True)
ts = [threading.Thread(target=worker, args=(i,)) for i in range(N)]
for t in ts: t.start()
for t in ts: t.join()
lost = []
for name, res in sorted(results.items()):
    mp = "/verif/seeded/%s/meta.json" % name
    meta = json.load(open(mp))
    if "error" in res:
        meta.setdefault("retests", []).append({"error": res["error"]})
        lost.append(name + " (cannot apply)")
    else:
        meta.setdefault("retests", []).append({"previous_detected_by": meta.get("detected_by", []), "checks_run": res["ran"]})
        cr = meta.get("checks_run") or meta.get("ran") or {}
        cr.update(res["ran"])
        meta["checks_run"] = cr
        meta["detected_by"] = [p for p, v in cr.items() if isinstance(v, dict) and v.get("exit") == 1 and v.get("violations")]
        if not res["detected_by"]:
            lost.append(name)
    json.dump(meta, open(mp, "w"), indent=1)
print("LOST:", lost)
