#!/usr/bin/env python3
"""Rewrites the seeded-change table of DESIGN.md (between the seed-table markers) from seeded/*/meta.json."""
import subprocess, re
tbl = subprocess.run(["python3", "/verif/tools/seed_table.py"], capture_output=True, text=True).stdout
p = "/verif/DESIGN.md"
s = open(p).read()
s = re.sub(r"<!-- seed-table-begin -->.*?<!-- seed-table-end -->", "<!-- seed-table-begin -->\n" + tbl + "<!-- seed-table-end -->", s, flags=re.S)
open(p, "w").write(s)
print("table rows:", tbl.count("\n") - 2)
