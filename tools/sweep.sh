#!/bin/bash
# sweep.sh <tier> <seed>... — run every registered check for the given seeds; print a summary.
# Meant for `vp run -- tools/sweep.sh quick 2 3 4 5` (builds first: snapshots have no build output).
tier=$1; shift
./check --setup > /dev/null 2>&1 || { echo "setup failed"; exit 2; }
props=${SWEEP_PROPS:-$(python3 -c "import json;print(' '.join(c['property_id'] for c in json.load(open('MANIFEST.json'))['checks']))")}
fail=0
for s in "$@"; do
  for p in $props; do
    out=$(VERIF_SEED=$s ./check $p --tier $tier 2>&1); rc=$?
    echo "seed=$s $p rc=$rc $(echo "$out" | tail -1)"
    if [ $rc -ne 0 ]; then fail=1; echo "$out" | grep -E "VIOLATION" | head -5; fi
  done
done
echo "SWEEP DONE fail=$fail"
