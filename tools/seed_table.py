#!/usr/bin/env python3
"""seed_table.py — markdown table of the kept seeded changes (title = first heading of the
author's README, detection = meta.json) for DESIGN.md section 11.4."""
import glob, json, os, re
print("| seed | change (author's title) | detected by | strengthened? |")
print("|------|--------------------------|-------------|---------------|")
for d in sorted(glob.glob('/verif/seeded/C*-*m[0-9]*/')):
    name = os.path.basename(d.rstrip('/'))
    m = json.load(open(d + 'meta.json'))
    title = ""
    sup = " (superseded by a later fix, see meta.json)" if m.get('superseded') else ""
    for l in (m.get('needs') or "").split("\n"):
        l = l.strip()
        if l.startswith("#"):
            title = re.sub(r"^#+\s*", "", l)
            title = re.sub(r"^(C\d+[- ]?)?[mM]\d+\s*[—:\-–]*\s*", "", title)
            break
    first = (m.get('retests') or [{}])[0].get('previous_detected_by')
    st = ""
    EARLY = {"C01-m2": "missed", "C02-m1": "missed", "C03-m3": "missed"}  # strengthened before retests were recorded
    if name in EARLY:
        st = "yes (first run: %s)" % EARLY[name]
    elif m.get('retests') and sorted(first or []) != sorted(m.get('detected_by') or []):
        st = "yes (first run: %s)" % (", ".join(first) if first else "missed")
    print("| %s | %s | %s | %s |" % (name, title.replace("|", "/")[:110], (", ".join(m.get('detected_by') or []) or "**none**") + sup, st))
