#!/usr/bin/env python3
"""retest_seed.py <seed-dir-name> <PROP…> — re-run checks against a kept seeded change (after the
checks were strengthened) and merge the result into its meta.json (history kept in "retests")."""
import json, os, subprocess, sys
name, checks = sys.argv[1], sys.argv[2:]
d = os.path.join("/verif/seeded", name)
meta = json.load(open(os.path.join(d, "meta.json")))
r = subprocess.run("python3 /verif/tools/try_seed.py %s %s" % (os.path.join(d, "patch.diff"), " ".join(checks)),
                   shell=True, capture_output=True, text=True)
try:
    ran = json.loads(r.stdout.strip().split("\n")[-1])
except Exception:
    print("try_seed failed:", r.stdout[-500:], r.stderr[-300:]); sys.exit(2)
meta.setdefault("retests", []).append({"previous_detected_by": meta.get("detected_by", []), "checks_run": ran})
cr = meta.get("checks_run") or {}
cr.update(ran)
meta["checks_run"] = cr
meta["detected_by"] = [p for p, v in cr.items() if isinstance(v, dict) and v.get("exit") == 1 and v.get("violations")]
json.dump(meta, open(os.path.join(d, "meta.json"), "w"), indent=1)
print(name, "detected by", meta["detected_by"])
