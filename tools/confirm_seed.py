#!/usr/bin/env python3
"""confirm_seed.py <PROP> <k> [check props…] — confirm a sub-agent's seeded change in a scratch
worktree (compiles, existing suite passes, demo fails with it and passes without it), run our
checks against it on /repo, and keep it under /verif/seeded/<PROP>-m<k>/."""
import json, os, re, shutil, subprocess, sys
prop, k = sys.argv[1], sys.argv[2]
checks = sys.argv[3:] or [prop]
rnd = os.environ.get("SEED_ROUND", "")        # "" = round 1; "2" = round 2: /tmp/seed2-<P>-out, kept as <P>-r2m<k>
src = "/tmp/seed%s-%s-out/m%s" % (rnd, prop, k)
wt = "/tmp/confirm-%s-m%s" % (prop, k)
tag = ("r%sm" % rnd) if rnd else "m"
ENV = dict(os.environ, GOFLAGS="-mod=mod", GOPROXY="off", GOSUMDB="off", GOTOOLCHAIN="local")
def sh(cmd, cwd=None):
    return subprocess.run(cmd, shell=True, capture_output=True, text=True, cwd=cwd, env=ENV)
patch = os.path.join(src, "patch.diff")
if not os.path.exists(patch):
    print("no patch at", patch); sys.exit(2)
sh("git -C /repo worktree remove --force %s" % wt)
r = sh("git -C /repo worktree add -f %s HEAD" % wt)
meta = {"property": prop, "source": "independent sub-agent given only the property text", "patch": "patch.diff"}
try:
    demos = [f for f in os.listdir(src) if f.endswith(".go")]
    demo = demos[0] if demos else None
    place = ""
    if demo:
        txt = open(os.path.join(src, demo)).read()
        pkg = re.search(r"^package\s+(\w+)", txt, re.M).group(1)
        place = {"datalog": "datalog", "datalog_test": "datalog", "parser": "parser", "parser_test": "parser"}.get(pkg, ".")
        if pkg == "main":
            place = "cmd_demo"
    def run_demo():
        if not demo:
            return None
        d = os.path.join(wt, place)
        os.makedirs(d, exist_ok=True)
        shutil.copy(os.path.join(src, demo), os.path.join(d, "zz_seed_demo_test.go" if demo.endswith("_test.go") else demo))
        if demo.endswith("_test.go"):
            out = sh("go test -vet=off -count=1 -run . ./%s 2>&1 | tail -15" % place, cwd=wt)
            # only the demo's own tests matter: rerun restricted to names in the demo
            names = re.findall(r"func (Test\w+)", txt)
            out = sh("go test -vet=off -count=1 -run '^(%s)$' ./%s 2>&1 | tail -25" % ("|".join(names), place), cwd=wt)
        else:
            out = sh("go run ./%s 2>&1 | tail -25" % place, cwd=wt)
        os.remove(os.path.join(d, "zz_seed_demo_test.go" if demo.endswith("_test.go") else demo))
        ok = (out.returncode == 0) and ("FAIL" not in out.stdout)
        return ok, out.stdout[-1500:]
    base = run_demo()
    a = sh("git apply %s" % patch, cwd=wt)
    rebased = None
    if a.returncode != 0:
        # written against an older HEAD (before later fix commits): three-way merge, and keep
        # the change as a patch against the current HEAD
        a = sh("git apply -3 %s" % patch, cwd=wt)
        if a.returncode == 0 and "with conflicts" not in (a.stderr + a.stdout):
            rebased = sh("git diff HEAD", cwd=wt).stdout
            meta["rebased_onto"] = sh("git rev-parse --short HEAD", cwd=wt).stdout.strip()
        else:
            a.returncode = 1
    meta["applies"] = a.returncode == 0
    b = sh("go build ./... 2>&1", cwd=wt)
    meta["compiles"] = b.returncode == 0
    suite_ok = False
    for attempt in range(3):
        t = sh("go test -vet=off -count=1 ./... 2>&1 | tail -30", cwd=wt)
        if "FAIL" not in t.stdout:
            suite_ok = True; break
        if "world runtime limit: timeout" not in t.stdout:
            break
    meta["existing_suite_passes_with_change"] = suite_ok
    if not suite_ok:
        meta["suite_output"] = t.stdout[-1500:]
    mut = run_demo()
    meta["demo"] = demo
    meta["demo_place"] = place
    meta["demo_passes_without_change"] = base[0] if base else None
    meta["demo_fails_with_change"] = (not mut[0]) if mut else None
    if mut:
        meta["demo_output_with_change"] = mut[1][-800:]
finally:
    sh("git -C /repo worktree remove --force %s" % wt)
    shutil.rmtree(wt, ignore_errors=True)
confirmed = meta.get("applies") and meta.get("compiles") and meta.get("existing_suite_passes_with_change") and meta.get("demo_passes_without_change") and meta.get("demo_fails_with_change")
meta["confirmed"] = bool(confirmed)
print(json.dumps({k: v for k, v in meta.items() if k not in ("demo_output_with_change", "suite_output")}))
if not confirmed:
    print("NOT CONFIRMED"); print(meta.get("demo_output_with_change", "")[-600:]); print(meta.get("suite_output", "")[-600:])
    sys.exit(1)
# run our checks against it
patch_for_try = patch
if rebased:
    os.makedirs("/verif/.work", exist_ok=True)
    patch_for_try = "/verif/.work/rebased-%s-%s.diff" % (prop, k)
    open(patch_for_try, "w").write(rebased)
r = sh("python3 /verif/tools/try_seed.py %s %s" % (patch_for_try, " ".join(checks)))
print(r.stdout[-1500:])
try:
    ran = json.loads(r.stdout.strip().split("\n")[-1])
except Exception:
    ran = {"error": r.stdout[-500:]}
meta["checks_run"] = ran
meta["detected_by"] = [p for p, v in ran.items() if isinstance(v, dict) and v.get("exit") == 1 and v.get("violations")]
readme = os.path.join(src, "README.md")
dst = "/verif/seeded/%s-%s%s" % (prop, tag, k)
os.makedirs(dst, exist_ok=True)
if rebased:
    shutil.copy(patch, os.path.join(dst, "patch.orig.diff"))
    open(os.path.join(dst, "patch.diff"), "w").write(rebased)
else:
    shutil.copy(patch, os.path.join(dst, "patch.diff"))
if demo:
    shutil.copy(os.path.join(src, demo), os.path.join(dst, demo + ".txt"))   # .txt: not compiled by anything under /verif
if os.path.exists(readme):
    meta["needs"] = open(readme).read()[:3000]
json.dump(meta, open(os.path.join(dst, "meta.json"), "w"), indent=1)
print("kept as", dst, "detected by", meta["detected_by"])
