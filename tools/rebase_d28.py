#!/usr/bin/env python3
"""rebase_d28.py <seed-name>… — rebase kept seeds whose patches conflict with fix 53cccc5 (the
block loop of Authorize: `v.world.ResetRules()` moved onto each block's clone). The seed's own
hunk is kept; the old rule reset it carried is dropped and every clone of the authorizer's world
it makes gets its rules removed, which is what the repaired code does. Conflicts of any other
shape are left alone and reported."""
import json, os, re, shutil, subprocess, sys
ENV = dict(os.environ, GOFLAGS="-mod=mod", GOPROXY="off", GOSUMDB="off", GOTOOLCHAIN="local")
WT = "/tmp/rebase-wt"
def sh(c, cwd=WT): return subprocess.run(c, shell=True, capture_output=True, text=True, cwd=cwd, env=ENV)
sh("git -C /repo worktree remove --force %s" % WT, cwd="/"); sh("git -C /repo worktree add -f %s HEAD -q" % WT, cwd="/")
OLD = "	// remove the rules from the vrifier and authority blocks\n	// so they are not affected by facts created by later blocks\n	v.world.ResetRules()\n"
def fix(theirs):
    t = theirs.replace(OLD + "\n", "").replace(OLD, "")
    # statements that clone the authorizer's world into a variable
    t = re.sub(r"(?m)^(\s*)(\w+)( :?= )v\.world\.Clone\(\)\n", lambda m: "%s%s%sv.world.Clone()\n%s%s.ResetRules()\n" % (m.group(1), m.group(2), m.group(3), m.group(1), m.group(2)), t)
    return t
for name in sys.argv[1:]:
    sd = "/verif/seeded/%s/" % name
    sh("git reset -q --hard")
    r = sh("git apply -3 %spatch.diff" % sd)
    files = sh("git diff --name-only --diff-filter=U").stdout.split()
    ok = True
    for f in files:
        s = open(os.path.join(WT, f)).read()
        while "<<<<<<< ours\n" in s:
            i = s.index("<<<<<<< ours\n"); j = s.index("=======\n", i); e = s.index(">>>>>>> theirs\n", j)
            ours = s[i + 13:j]; theirs = s[j + 8:e]
            if "block_world.ResetRules()" not in ours and "each block gets a copy" not in ours and ours.strip() != "":
                ok = False; break
            s = s[:i] + fix(theirs) + s[e + 15:]
        if not ok: break
        if "v.world.Clone()" in s and ".ResetRules()" not in s:
            ok = False
        open(os.path.join(WT, f), "w").write(s); sh("gofmt -w " + f)
    if not ok or not files:
        print(name, "NOT REBASED (conflict of another shape)" if files else "no conflict / cannot apply: " + r.stderr[:120]); continue
    b = sh("go build ./...")
    d = sh("git diff HEAD").stdout
    if b.returncode != 0 or not d:
        print(name, "NOT REBASED: build", (b.stdout + b.stderr)[:200]); continue
    if not os.path.exists(sd + "patch.orig.diff"): shutil.copy(sd + "patch.diff", sd + "patch.orig.diff")
    open(sd + "patch.diff", "w").write(d)
    m = json.load(open(sd + "meta.json")); m["rebased_onto"] = "53cccc5 (tools/rebase_d28.py)"; json.dump(m, open(sd + "meta.json", "w"), indent=1)
    print(name, "rebased")
sh("git reset -q --hard"); sh("git -C /repo worktree remove --force %s" % WT, cwd="/")
