"""Per-property registry: Lean modules carrying the theorems, pipeline options,
property-specific trusted-base lines."""

TRUSTED_BASE = [
    "Lean 4.33.0 kernel (thorough tier: leanchecker re-check of the compiled .olean files)",
    "axioms accepted: propext, Classical.choice, Quot.sound only (#print axioms on every registered theorem, every run); no sorry/admit/native_decide/bv_decide/own axioms (source grep, every run)",
    "the statement of each theorem as a faithful rendering of the property (Props/<id>.lean)",
    "hand-written model Model/*.lean tied to /repo by (a) tables regenerated from the running library by `harness extract` and proved equal to the model's (Props/Tables.lean), (b) differential correspondence on generated cases: real Go code in-process vs compiled Lean driver, canonicalised outputs",
    "Go toolchain go1.23.5, google.golang.org/protobuf, crypto/ed25519, regexp, math/big: used as-is, not verified",
]

PROPS = {
    "C05": {
        "modules": ["BiscuitModel.Props.C05"],
        "reference": True,
        "shards": {"quick": 1, "thorough": 12},
        "trusted": ["wall-clock run limit is outside the model (cases run with a generous WithMaxDuration)",
                    "odometer of combine() modelled by lexicographic enumeration (solve); emission order compared on every QUERY case"],
    },
    "C06": {
        "modules": ["BiscuitModel.Props.C06"],
        "reference": True,
        "shards": {"quick": 1, "thorough": 12},
        "trusted": ["regexp engine is an oracle (stdlib regexp called directly by the harness)",
                    "math/big and strings.* are modelled by Int and byte-list functions"],
    },
}
