"""Per-property registry: Lean modules carrying the theorems, pipeline options,
property-specific trusted-base lines."""

TRUSTED_BASE = [
    "Lean 4.33.0 kernel (thorough tier: leanchecker re-check of the compiled .olean files)",
    "axioms accepted: propext, Classical.choice, Quot.sound only (#print axioms on every registered theorem, every run); no sorry/admit/native_decide/bv_decide/own axioms (source grep, every run)",
    "the statement of each theorem as a faithful rendering of the property (Props/<id>.lean)",
    "hand-written model Model/*.lean tied to /repo by (a) tables regenerated from the running library by `harness extract` and proved equal to the model's (Props/Tables.lean), (b) differential correspondence on generated cases: real Go code in-process vs compiled Lean driver, canonicalised outputs",
    "Go toolchain go1.23.5, google.golang.org/protobuf, crypto/ed25519, regexp, math/big: used as-is, not verified",
]

PROPS = {
    "C02": {
        "modules": ["BiscuitModel.Props.C02"],
        "reference": False,
        "shards": {"quick": 1, "thorough": 12},
        "trusted": ["value-level model of Authorize (interning invisible; header-copy World.Clone treated as a value copy, see C03/C08 heap statements)",
                    "wall-clock run limit outside the model"],
    },
    "C03": {
        "modules": ["BiscuitModel.Props.C03"],
        "reference": False,
        "shards": {"quick": 1, "thorough": 12},
        "trusted": ["value-level model of Authorize/Query; World.Clone's slice-header copy is covered by the differential check with steered fact-set capacities, not by a theorem yet"],
    },
    "C04": {
        "modules": ["BiscuitModel.Props.C04"],
        "reference": True,
        "shards": {"quick": 1, "thorough": 12},
        "trusted": ["the fragment hypothesis WithinFragment (every run and query application completes) delimits the theorem; outside it the model still follows the code and is compared differentially",
                    "interning between token table and authorizer table is covered by the correspondence (cases enter through builders, Serialize, Unmarshal, AuthorizerFor), not by an end-to-end simulation theorem"],
    },
    "C07": {
        "modules": ["BiscuitModel.Props.C07"],
        "reference": True,
        "oracle_pass": True,
        "shards": {"quick": 1, "thorough": 12},
        "trusted": ["google.golang.org/protobuf is not verified: Model/Wire is an independent encoder/decoder written from pb/biscuit.proto and compared byte-for-byte with what the library serializes (decode, resolve, re-encode blocks and envelope)",
                    "round-trip theorems carry explicit size side conditions (values fit their wire types; total encoding below 2^64 bytes)"],
    },
    "C12": {
        "modules": ["BiscuitModel.Props.C12"],
        "reference": False,
        "shards": {"quick": 1, "thorough": 12},
        "trusted": ["theorems hold inside the error-free fragment (WithinFragment), as the property states; variable renaming is covered by the correspondence and the witness search, not by a theorem",
                    "string-level model: interning order is invisible (results compared resolved)"],
    },
    "C18": {
        "modules": ["BiscuitModel.Props.C18"],
        "reference": False,
        "shards": {"quick": 1, "thorough": 12},
        "trusted": ["string-level save/load plus wire-level snapshot message (symbol re-indexing) for a fresh target authorizer, as the property states; loading into a non-fresh authorizer is outside the property",
                    "protobuf-go's handling of malformed snapshot bytes is exercised (no panic), not modelled"],
    },
    "C11": {
        "modules": ["BiscuitModel.Props.C11"],
        "reference": True,
        "shards": {"quick": 1, "thorough": 8},
        "trusted": ["PARTIAL for clause (d): the Go scheduler, timers and goroutine lifetime are runtime behaviour the model cannot exhibit; tie = goroutine profile after every case",
                    "the duration limit is outside the model; observed by wall-clock on the implementation only"],
    },
    "C13": {
        "modules": ["BiscuitModel.Props.C13"],
        "reference": False,
        "shards": {"quick": 1, "thorough": 12},
        "trusted": ["string-level state machine; baseSymbols is invisible at this level (covered by correspondence)"],
    },
    "C05": {
        "modules": ["BiscuitModel.Props.C05"],
        "reference": True,
        "shards": {"quick": 1, "thorough": 12},
        "trusted": ["wall-clock run limit is outside the model (cases run with a generous WithMaxDuration)",
                    "odometer of combine() modelled by lexicographic enumeration (solve); emission order compared on every QUERY case"],
    },
    "C06": {
        "modules": ["BiscuitModel.Props.C06"],
        "reference": True,
        "shards": {"quick": 1, "thorough": 12},
        "trusted": ["regexp engine is an oracle (stdlib regexp called directly by the harness)",
                    "math/big and strings.* are modelled by Int and byte-list functions"],
    },
}
