#!/usr/bin/env python3
"""Regenerates /verif/MANIFEST.json from runner/props.py and runner/manifest_text.py."""
import json, os, sys
sys.path.insert(0, os.path.dirname(os.path.abspath(__file__)))
from props import PROPS
from manifest_text import TEXT, PENDING_REASON, NOTES

VERIF = os.path.dirname(os.path.dirname(os.path.abspath(__file__)))
baseline = json.load(open("/root/.vp/BASELINE.json"))["cmd"]
all_ids = [json.loads(l)["id"] for l in open(os.path.join(VERIF, "properties.jsonl"))]

checks = []
for pid in all_ids:
    if pid not in PROPS or pid not in TEXT:
        continue
    t = TEXT[pid]
    checks.append({
        "property_id": pid,
        "quick_cmd": "./check %s --tier quick" % pid,
        "thorough_cmd": "./check %s --tier thorough" % pid,
        "evidence_file": "/verif/evidence/%s.json" % pid,
        "replay_cmd_template": "./check %s --replay {path}" % pid,
        "engine": "lean-model+correspondence",
        "level_claimed": {"category": "proof", "text": t["level"], "design_ref": "DESIGN.md section 5, " + pid},
        "level_note": t["note"],
        "technique": t["technique"],
    })
manifest = {
    "version": 1,
    "setup_cmd": "./check --setup",
    "hooks": {
        "guard": "verif",
        "enable": "go build -tags verif (the harness module replaces github.com/biscuit-auth/biscuit-go/v2 => /repo and is always built with -tags verif)",
        "baseline_off_cmd": baseline,
        "source_commits": [],
        "add_only": True,
    },
    "engines": [
        {"name": "lean-model", "path": "lean/BiscuitModel", "serves_properties": [c["property_id"] for c in checks],
         "kind_free_text": "Lean 4 executable model (Model/), declarative specs (Spec/), proofs (Proofs/), property theorems (Props/), tables regenerated from the source (Generated/), compiled line-protocol driver (Driver/)"},
        {"name": "harness", "path": "harness", "serves_properties": [c["property_id"] for c in checks],
         "kind_free_text": "Go program linking /repo's working tree: generators, in-process execution of the real code, witness search, table extractor, ed25519/regexp oracles"},
        {"name": "runner", "path": "runner", "serves_properties": [c["property_id"] for c in checks],
         "kind_free_text": "python3 orchestration: rebuild, proof audit (#print axioms, source grep, leanchecker), correspondence diff, known-finding matching, evidence"},
    ],
    "checks": checks,
    "notes": NOTES,
    "not_applicable": [{"property_id": pid, "reason": PENDING_REASON.get(pid, "check under construction in this session; planned level: proof (DESIGN.md section 5)")}
                       for pid in all_ids if pid not in [c["property_id"] for c in checks]],
}
json.dump(manifest, open(os.path.join(VERIF, "MANIFEST.json"), "w"), indent=1)
print("MANIFEST.json: %d checks, %d not claimed" % (len(checks), len(manifest["not_applicable"])))
