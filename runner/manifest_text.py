"""Per-property wording for MANIFEST.json."""

NOTES = ("Every check rebuilds the Go harness from /repo's working tree, regenerates the source-derived tables, "
         "re-checks the Lean theorems of the property (lake build + #print axioms + source grep), then runs the "
         "correspondence and witness search. Honours VERIF_SEED and VERIF_TIER. Known findings: known_findings.json.")

PENDING_REASON = {}

COMMON_NOTE = ("Trusted: Lean kernel; axioms limited to propext/Classical.choice/Quot.sound (audited every run); the hand-written "
               "model, tied to the code by regenerated tables and by differential correspondence whose reach is bounded by the "
               "generators (distribution in the evidence file); Go toolchain and standard library. ")

TEXT = {
    "C14": {
        "level": "Theorems (Props/C14.lean), token level: parse_render_partial (every well-formed expression tree — any nesting, `!`, method calls with expression arguments, "
                 "parentheses, sets — rendered with the minimum of parentheses parses back to itself and the parser stops at its end), postfix_of_parse, the precedence table "
                 "instance by instance (mul_over_add, sub_left_assoc, and_over_or, cmp_over_and, not_over_mul, method_binds_tightest), comparison_nonassoc, the named conversion "
                 "errors (unbound parameter, odd hex, variable in set, malformed dates) incl. expr_error_propagates, or_is_alternatives, sample_parses. Props/C14Items.lean, whole "
                 "statements: parseItems_render (every list of well-formed facts, rules, checks with `or` alternatives and policies, rendered with `;` terminators, parses back to "
                 "itself with the model's own fuel), parseItem_render, policy_rejected (no policy inside a block), empty_body_rejected, missing_terminator_rejected. Props/C14Lexer.lean, "
                 "character level: lex_spell (every list of well-formed tokens, each written followed by one space, lexes back to itself under the first-match rule order), "
                 "tokWF_exact (the well-formedness predicate is exactly the set of tokens that re-lex), parseBlockText_spell / parseAuthorizerText_spell (text entry points = lexer then "
                 "token parser). Props/C14Text.lean composes them: parseBlockText_roundtrip / parseAuthorizerText_roundtrip / parseSingleText_roundtrip (every well-formed statement list written as TEXT "
                 "and read by the model's text entry points gives back exactly the statements; itemLexOK is exactly 'every rendered token re-lexes'). Props/C14Layout.lean: lex_spellWith (any layout — blanks of any kind between tokens, and none wherever needSep says the junction is harmless, e.g. `right(\"a\", $x)`, `$u.length()`, `!$x` — lexes back to the tokens), with witnesses that the junctions it refuses really lex differently. Props/TablesGrammar.lean: the parser's lexer rules (names, regular expressions, order) and every grammar production (struct tags read by "
                 "reflection) regenerated on every run and compared with reviewed copies; the literal lists of the Lean lexer proved to spell the source's regular expressions. Tied by texts rendered from "
                 "random abstract syntax with random layout compared with the generator's AST and the Lean grammar model, error and deviation streams, token corruptions, raw "
                 "strings, and first use of every parsed element.",
        "note": COMMON_NOTE + "Character level is proved for every admissible layout (lex_spellWith); the round-trip composition (C14Text) uses the one-space layout. participle modelled, not verified. Three deviations from GRAMMAR.md are recorded as known findings.",
        "technique": "Lean 4 proof (continuation-style induction over an 8-level recursive-descent parser) + differential correspondence + grammar-based generation",
    },
    "C15": {
        "level": "Theorems (Props/C15.lean), token level: print_is_render / print_is_render_stack (the string-stack printer inverts the postfix emission for every tree), "
                 "print_parse_roundtrip_partial (printed expression parses back to the same operator sequence), wf_opsOK, print_total, parens_are_preserved, date print/parse "
                 "samples. Props/C15Text.lean, CHARACTER level, end to end for the printable domain (decidable predicates with _iff characterisations): printPred/Rule/Check_layout "
                 "(the printer's text is an admissible layout of the rendered tokens of the quoted tree), lex_print*, parse_printFact / parse_printRule / parse_printCheck (the model's text "
                 "entry point reads the printed text back as the quoted statement), print_parse_denote_fact / _rule / _check (printed text denotes the same fact / rule / check, sets in "
                 "printed order), printDate_roundtrip for every instant before year 10000 (civil_from_days / days_from_civil inverse), and a proved failing example for every exclusion "
                 "(quotes in strings, invalid UTF-8, year >= 10000, empty sets, ill-formed names, unparenthesised precedence). Tied by PRINT cases (Lean printer text = "
                 "Biscuit.Code() text, same before/after serialization, block position 1 or 2) and by re-parsing every printed statement with the library's parser.",
        "note": COMMON_NOTE + "Not covered by the character-level theorems: the `Block { }` wrapper of printBlockCode, policies at content level (the printer has none), the library's #index print of strings inside sets, date literals as method receivers (conservative).",
        "technique": "Lean 4 proof (stack-machine invariant, composition with parse_render) + differential correspondence + round-trip witness search",
    },
    "C08": {
        "level": "Theorems (Props/C08.lean) on a model of Go slices (backing arrays with capacity, in-place vs reallocating append, arbitrary growth policy): step_preserves_owned, "
                 "family_frame / builders_frame / family_frame_history (no operation changes what any live token or other builder reads), siblings_independent; pinned witness "
                 "header_clone_breaks_siblings (D4) and deep_clone_keeps_siblings by rfl. Props/C08Builder.lean (D20, reference cells): buildCopy_frame (whatever is added to a builder "
                 "after Build, the built token reads what it read), buildCopy_twice, buildShared_changes (witness of the pinned pointer sharing). Tied by random family histories (several builders from one parent, interleaved adds, "
                 "append to parent, seal, reload, lookups) with an observation panel on every live token after every operation, and the Lean wire model decoding every final token.",
        "note": COMMON_NOTE + "Modelled, not verified: Go slice semantics; absence of other aliasing is checked dynamically only.",
        "technique": "Lean 4 proof (ownership invariant over a heap model, induction over histories) + differential correspondence + observation-stability search",
    },
    "C10": {
        "level": "Theorems (Props/C10.lean), PARTIAL as scoped in the note: decode_verify_authorize_no_panic_partial (for every byte string, scheme, key and authorizer state the "
                 "pipeline unmarshal -> chain walk -> symbol resolution -> authorize ends in a rejection or a verdict, never a panic outcome), guard lemmas str_guard / seed_guard / "
                 "resolve_guard / run_panic_from_eval / authorize_no_panic / print_no_panic, append/seal_bad_secret_is_error, op_without_kind_rejected; pinned witnesses D5, D6. "
                 "Site-inventory tie (Props/TablesPanicSites) regenerated by go/ast. Tied by worker-isolated adversarial tokens signed by an attacker key, byte mutations of "
                 "library and sample tokens, random bytes, each through the full operation panel; the Lean Unmarshal model must agree on accept/reject.",
        "note": COMMON_NOTE + "Partial: only the listed kinds of panic site are represented; runtime limits, memory and protobuf-go are outside the model.",
        "technique": "Lean 4 proof (explicit panic outcomes proved unreachable) + go/ast site inventory tie + process-isolated differential fuzz-style correspondence",
    },
    "C19": {
        "level": "Theorems (Props/C19.lean), PARTIAL: footprint_frozen_partial (no operation writes a backing array of a live token), payloadFresh_writes_fresh / keeps_heap, "
                 "frozen_implies_race_free (for any interleaving and thread count), shared_reads_stable; pinned witnesses getBlockID_writes_shared_pinned (D4) and "
                 "verify_writes_shared_pinned (D13). Tied by the Go race detector on the real code: 8-16 goroutines x randomised operation mixes on one shared unmarshalled "
                 "token, shared parsed values and a shared parser, GOMAXPROCS 2..16, plus per-goroutine results vs sequential results.",
        "note": COMMON_NOTE + "Partial: Go memory model, scheduler and race-detector completeness are outside the model.",
        "technique": "Lean 4 proof (footprint + commutation argument on a heap model) + Go race detector under real concurrency",
    },
    "C01": {
        "level": "Theorems (Props/C01.lean) for every signature scheme, root key and envelope of any length: verifyChain_iff / accept_iff (the chain walk accepts iff every "
                 "link is signed by its predecessor's announced key and the proof matches the last announced key), payload_injective / sealPayload_injective (the signed bytes "
                 "bind every field), accepted_is_issued and its corollaries unissued_link_rejected / foreign_proof_rejected / wrong_secret_rejected under an explicit "
                 "unforgeability hypothesis, built_tokens_verify (every build/append/seal history verifies). Tied by CHAIN cases: 24 kinds of structural mutation of library-built "
                 "token families decided by the Lean chain walk, which computes the signed payloads itself, with stdlib ed25519 as oracle.",
        "note": COMMON_NOTE + "Modelled, not verified: ed25519 (oracle; unforgeability is a hypothesis of the theorem, not an axiom).",
        "technique": "Lean 4 proof (induction over the block chain, symbolic forgery argument) + differential correspondence with an ed25519 oracle",
    },
    "C09": {
        "level": "Theorems (Props/C09.lean): seal_keeps_blocks, seal_same_content, seal_revocation_same, seal_verifies, append_sealed_fails, seal_sealed_fails, "
                 "seal_result_is_sealed, sealed_tamper_rejected (explicit unforgeability hypothesis), reload_identity_partial with a proved counterexample for the missing "
                 "length condition. Tied by sealed/unsealed twins (verification, 4-content Authorize panel, revocation ids, Append/Seal refusal, before and after "
                 "Serialize/Unmarshal) and seal-focused CHAIN mutations.",
        "note": COMMON_NOTE + "Same cryptographic hypotheses as C01.",
        "technique": "Lean 4 proof (envelope algebra + wire round trip) + differential correspondence + twin witness search",
    },
    "C16": {
        "level": "Theorems (Props/C16.lean): derive_keeps_rootKeyId and rootKeyId_invariant over all derivation histories (append / seal / reload), build_reports_id, "
                 "selectKey_none / selectKey_some_ok / selectKey_some_absent / selectKey_ignores_default (exactly the key registered under the token's id, never the default, "
                 "never another id), selectKey_only_own_entries (entries under other ids have no influence), selectKey_registered (converse, for a key map), acceptWithKeys_uses_selected, derived_selects_creation_key / derived_accept_under_creation_key (after any history the chain is verified under the key selected by the creation id); pinned witnesses pinned_append_drops_id / pinned_seal_drops_id (D12). Tied by derivation histories reading "
                 "RootKeyID() after every step and by key-lookup CHAIN cases over 7 map/default scenarios.",
        "note": COMMON_NOTE + "ed25519 as oracle.",
        "technique": "Lean 4 proof (invariant over derivation histories, decision logic stated outright) + differential correspondence",
    },
    "C17": {
        "level": "Theorems (Props/C17.lean): revids_count, revid_is_block_signature, derive_revids, derive_keeps_LibWF, revids_prefix, revids_count_history (one more id per append, none for seal/reload) and revids_take_ancestor over all derivation histories, reload_revids, "
                 "revids_distinct_conditional (under explicit hypotheses on the scheme and distinct seeds). Tied by family histories reading RevocationIds() after every "
                 "operation, the Lean wire decoder finding the same signatures in Serialize(), and global uniqueness per signing event across the run.",
        "note": COMMON_NOTE + "Uniqueness is conditional on stated hypotheses about ed25519 and entropy.",
        "technique": "Lean 4 proof (List.IsPrefix invariant over histories) + differential correspondence + global uniqueness search",
    },
    "C20": {
        "level": "Theorems (Props/C20.lean) for every read script (any chunking, error with or after the last bytes): short_source_fails, build/append_reports_entropy_failure, "
                 "enough_source_succeeds, build/append_key_from_delivered, draw_consumes_32, history_ok_all_sources_enough / history_short_source_fails (a derivation history returns a token only if every attenuation's source delivered 32 bytes); pinned witness pinned_short_source_panics (D14). Tied by the COMPLETE fault grid "
                 "3 operations x 32 failure points x 6 reader behaviours plus success scripts, each compared with the model and checked against stdlib ed25519.",
        "note": COMMON_NOTE + "Modelled, not verified: stdlib GenerateKey's reading discipline (io.ReadFull of 32 bytes).",
        "technique": "Lean 4 proof (induction over read scripts) + exhaustive fault-grid correspondence",
    },
    "C07": {
        "level": "Theorems (Props/C07.lean): varint/field-list/term/predicate/rule/block round trips of an independent protobuf model written from the published schema, "
                 "operator-code tables mutually inverse with the published enum numbering, symInsert_resolves / prefix stability, buildBlock_resolves and "
                 "build_then_resolve (what the builders intern is, block for block, what the published symbol rules resolve, version 3), version_gate. Tied to the "
                 "code by decoding every serialized token with the Lean model, comparing with the content fed to the builders, and re-encoding blocks and envelope byte-for-byte.",
        "note": COMMON_NOTE + "Modelled, not verified: protobuf-go (replaced by Model/Wire and compared byte-for-byte), proto.Marshal determinism for these map-free messages.",
        "technique": "Lean 4 proof (encode/decode round trips by induction, symbol-table invariants) + byte-exact differential correspondence",
    },
    "C12": {
        "level": "Theorems (Props/C12.lean): run_perm and applyRule_perm (engine results are invariant, as sets, under permutation of facts and rules; error-freeness too), "
                 "authorize_perm (same verdict incl. failed ids under permuted facts/rules/queries at every scope), authorize_perm_checks, addFact_idempotent/present, "
                 "authorize_twice, policy_order_matters (order of policies rightly matters). Props/C12Rename.lean: applyRule_rename, run_rename(Each), authorize_rename, query_rename "
                 "(exact equality of state and verdict under any renaming injective on each rule's own variables; no fragment hypothesis) and merge_changes_verdict (non-injective "
                 "renaming can change the verdict). Props/C12Sets.lean + C12Canon.lean (finding D19): construction keeps each set element once (dedup_nodup, mem_dedup); on such sets "
                 "Set.Equal is extensional and length / intersection / contains respect it (setEqual_iff, length_congr, intersect_congr), raw_sets_disagree (witness on raw lists); "
                 "canon_eq_iff_same_members (two writings of one set have the same canonical representative, which is what lets the engine model compare values structurally). "
                 "Tied by presentation variants of AUTHSEQ scenarios incl. variable renamings and a directed stream of one set written in two ways.",
        "note": COMMON_NOTE + "Permutation theorems hold inside the error-free fragment, as the property states; renaming theorems hold everywhere.",
        "technique": "Lean 4 proof (membership-based characterisation + Nodup/Perm counting) + differential correspondence + relational witness search",
    },
    "C18": {
        "level": "Theorems (Props/C18.lean): snapshot_restores (load(fresh, save s) = s for every content), snapshot_equiv (every continuation on every token), "
                 "snapshot_keeps_policy_order, save_refused_when_dirty, authorize_sets_dirty / query_sets_dirty (on every path, also when the evaluation stops with an error: finding D25), save_refused_after_authorize / _after_query, Props/C18Gate.lean (finding D26): snapshotDeclared is what LoadPolicies now checks (snapshotDeclared_as_block: the scratch block handed to checkDeclaredSymbols), resolveSnapshot_iff (the model's reading accepts exactly the snapshots that have the right shape and pass that gate), built_snapshot_declared (the gate never refuses what SerializePolicies writes), nine proved D26 witnesses, snapshot_build_then_resolve (symbol re-indexing), policies_roundtrip, "
                 "load_rejects_other_versions. Tied by save/load inside AUTHSEQ histories (same and different token), byte-exact SNAP decode/re-encode of "
                 "SerializePolicies output by the Lean model, and malformed snapshots (no panic).",
        "note": COMMON_NOTE + "Fresh target authorizer only, as the property states.",
        "technique": "Lean 4 proof (state equality, wire round trip, symbol invariants) + byte-exact differential correspondence + relational witness search",
    },
    "C02": {
        "level": "Theorems (Props/C02.lean) for all tokens, blocks and authorizer states: attenuation_monotone, attenuation_monotone_suffix, "
                 "refusal_is_stable, failed_checks_prefix, run_error_is_stable, authorityPhase_indep_blocks, on the model of Authorize that follows the "
                 "code's evaluation order. Props/C02Wire.lean (finding D21), index level: resolveBlockL_stable / resolveTokenL_append (a block whose symbols are declared by itself or "
                 "earlier blocks resolves identically whatever later blocks declare), wire_attenuation_monotone (C02 for tokens as they are on the wire, through the library's "
                 "whole-table resolution), unmarshal_ok_declared (the gate Unmarshal now applies), undeclared_symbol_widens_without_gate (proved witness of the repaired defect). "
                 "Props/C02Gate.lean (finding D24): buildBlockMsgs_declared / append_built_declared (every block a Builder or BlockBuilder produces over the table it is then used with passes the "
                 "declared-symbols rule that New, Append and Unmarshal apply: the rule never refuses honest use), built_token_attenuation_monotone, unmarshal_accepts_built, "
                 "built_over_longer_table_refused (the D24 situation). "
                 "Tied to the code by AUTHSEQ cases on pairs (T, T+B) with adversarial B, through builders, Serialize, "
                 "Unmarshal and AuthorizerFor; byte-level pairs whose authority block refers to an undeclared symbol; GATE cases (a block built over one table handed to New / Append over the same table, a prefix, an extension, a permutation, an unrelated table: accepted / overlap / undeclared and the accepted block bytes must be the model's); witness search evaluates the statement on the implementation.",
        "note": COMMON_NOTE + "Modelled, not verified: wall-clock limit. The gate of the theorems is the gate of the code (blocksDeclaredV_eq; variable names included since fix c9a639e): unmarshal_attenuation_monotone holds for every token Unmarshal lets through.",
        "technique": "Lean 4 proof (prefix/accumulation induction over the block loop) + differential correspondence + relational witness search",
    },
    "C03": {
        "level": "Theorems (Props/C03.lean): state_indep_of_blocks, query_indep_of_blocks, verdict_decomposition (verdict = authority phase + one independent "
                 "result per block), other_blocks_unaffected, failed_ids_other_blocks, checkfree_block_is_inert, authority_visible_everywhere; value level. "
                 "Tied by AUTHSEQ triples (replace a block's facts/rules; insert check-free probe blocks contributing exactly what other scopes ask for).",
        "note": COMMON_NOTE + "Modelled, not verified: World.Clone's slice-header copy is treated as a value copy (benign for Authorize's access pattern; exercised differentially).",
        "technique": "Lean 4 proof (decomposition of the verdict) + differential correspondence + relational witness search",
    },
    "C04": {
        "level": "Theorems (Props/C04.lean) against a declarative specification (Spec/Decision.lean: scopes as derivability closures, checks as disjunctions, "
                 "first matching policy): authorize_ok_iff, authorize_denied_iff, authorize_nomatch_iff, authorize_checksFailed_iff (precedence), failed_ids_exact, "
                 "fragment_no_run_error; built on C05's least-model theorem. Props/C04Content.lean (findings D27-D29: the verdict follows from the content, not from the path by which it arrived): "
                 "load_eq_addAll (LoadPolicies = typing the snapshot in; checks and policies given before stay in force), authorize_after_addFact / _addRule / _addCheck / _addPolicy / _load "
                 "(a used authorizer's second answer is the answer of a new authorizer holding the same content), verdict_of_content, closure_absorb, run_between; the repaired defects kept as proved "
                 "witnesses (d29_pinned_accepts, second_authorize_pinned). The model's verdict is the reference for AUTHSEQ cases run through the real API, including content typed in and then loaded, "
                 "and second Authorize calls compared with a new authorizer.",
        "note": COMMON_NOTE + "Theorems hold inside the stated fragment (WithinFragment); interning modelled at string level.",
        "technique": "Lean 4 proof of equivalence between evaluation-order model and declarative decision procedure + differential correspondence",
    },
    "C11": {
        "level": "Theorems (Props/C11.lean) for clauses (a),(b),(c): run_zero_iterations, ok_is_fixpoint, ok_below_fact_limit, fact_limit_sound, run_monotone, "
                 "iter_limit_means_growth, authorize_ok_runs_completed, authorize_fails_on_authority_limit, limits_preserved, fresh_limits, query_uses_limits. "
                 "Clause (d) (no stranded goroutine) on the protocol model Model/Chan (Props/C11d.lean): apply_no_strand_partial, run_no_strand_partial, apply/run_steps_decrease, pinned witnesses apply_strands_pinned / run_strands_pinned (D8) — PARTIAL: tied to the code by the goroutine profile after every case. Tied by an exhaustive "
                 "limit grid on chain programs, ill-formed programs, random programs under small limits, all three authorizer constructors, and timed heavy joins.",
        "note": COMMON_NOTE + "Partial: Go scheduler/timers/goroutine lifetime are outside the model; duration limit observed only on the implementation.",
        "technique": "Lean 4 proof (fuel induction on the run loop) + differential correspondence + goroutine-profile observation",
    },
    "C13": {
        "level": "Theorems (Props/C13.lean) over all operation histories: base_world_invariant, reset_eq_fresh, reset_forgets (every continuation after Reset behaves "
                 "as on a fresh authorizer); pinned-behaviour witness reset_leaks_pinned (D9) and reset_clean_repaired by decide. Tied by multi-round AUTHSEQ "
                 "histories; witness search replays each round on a fresh authorizer.",
        "note": COMMON_NOTE + "Modelled, not verified: baseSymbols (string-level model).",
        "technique": "Lean 4 proof (state invariant by induction over histories) + differential correspondence + relational witness search",
    },
    "C05": {
        "level": "Theorems (Props/C05.lean) over the executable engine model, for all programs, fact lists and sizes: run_ok_closure "
                 "(an error-free run yields exactly the least model, duplicate-free), applyRule_exact/queryRule_exact (QueryRule returns "
                 "exactly the head instances of satisfying substitutions), derivable_is_least, run_ok_is_fixpoint. Props/C05Odometer.lean: the join "
                 "enumerator of combine()/advanceIndexes transcribed literally (current, indexes, carry) and proved, for every match table and size, to emit exactly the "
                 "position-wise matching index tuples in strict lexicographic order, once each (combos_eq_spec, mem_combos_iff, combos_sorted, combos_nodup), and "
                 "solve_eq_odometer (the engine model's join equals odometer + variable extraction). The model is tied to datalog.World by differential RUN/QUERY/ODO "
                 "cases through the public API plus an in-harness brute-force evaluator.",
        "note": COMMON_NOTE + "The wall-clock limit and goroutines are outside the model.",
        "technique": "Lean 4 proof by induction (least-fixpoint characterisation) + differential correspondence with the Go engine",
    },
    "C06": {
        "level": "Theorems (Props/C06.lean) over the executable stack machine, for all operator sequences and operands: eval_no_panic, "
                 "arith_exact/arith_never_wraps, goDiv_exact/goDiv_wraps (BitVec 64 signed division), typing_table (17x6x6, closed), "
                 "stack discipline, set and string operation specs; pinned-behaviour witnesses D1-D3 kept as theorems. Tied to "
                 "(*Expression).Evaluate by the full operator x operand-pool product, random typed trees and malformed sequences, "
                 "plus a math/big witness search.",
        "note": COMMON_NOTE + "Modelled, not verified: regexp (oracle), math/big, strings.* (their byte-list counterparts are the spec).",
        "technique": "Lean 4 proof (case analysis, BitVec arithmetic, induction over op lists) + differential correspondence",
    },
}
