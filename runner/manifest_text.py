"""Per-property wording for MANIFEST.json."""

NOTES = ("Every check rebuilds the Go harness from /repo's working tree, regenerates the source-derived tables, "
         "re-checks the Lean theorems of the property (lake build + #print axioms + source grep), then runs the "
         "correspondence and witness search. Honours VERIF_SEED and VERIF_TIER. Known findings: known_findings.json.")

PENDING_REASON = {}

COMMON_NOTE = ("Trusted: Lean kernel; axioms limited to propext/Classical.choice/Quot.sound (audited every run); the hand-written "
               "model, tied to the code by regenerated tables and by differential correspondence whose reach is bounded by the "
               "generators (distribution in the evidence file); Go toolchain and standard library. ")

TEXT = {
    "C05": {
        "level": "Theorems (Props/C05.lean) over the executable engine model, for all programs, fact lists and sizes: run_ok_closure "
                 "(an error-free run yields exactly the least model, duplicate-free), applyRule_exact/queryRule_exact (QueryRule returns "
                 "exactly the head instances of satisfying substitutions), derivable_is_least, run_ok_is_fixpoint. The model is tied to "
                 "datalog.World by differential RUN/QUERY cases through the public API plus an in-harness brute-force evaluator.",
        "note": COMMON_NOTE + "Modelled, not verified: the odometer of combine() is modelled by lexicographic enumeration; the wall-clock limit and goroutines are outside the model.",
        "technique": "Lean 4 proof by induction (least-fixpoint characterisation) + differential correspondence with the Go engine",
    },
    "C06": {
        "level": "Theorems (Props/C06.lean) over the executable stack machine, for all operator sequences and operands: eval_no_panic, "
                 "arith_exact/arith_never_wraps, goDiv_exact/goDiv_wraps (BitVec 64 signed division), typing_table (17x6x6, closed), "
                 "stack discipline, set and string operation specs; pinned-behaviour witnesses D1-D3 kept as theorems. Tied to "
                 "(*Expression).Evaluate by the full operator x operand-pool product, random typed trees and malformed sequences, "
                 "plus a math/big witness search.",
        "note": COMMON_NOTE + "Modelled, not verified: regexp (oracle), math/big, strings.* (their byte-list counterparts are the spec).",
        "technique": "Lean 4 proof (case analysis, BitVec arithmetic, induction over op lists) + differential correspondence",
    },
}
