"""Orchestration: build from /repo's working tree, proof audit, correspondence
diff, witness-search verdicts, known-finding matching, evidence."""
import fcntl
import hashlib
import json
import os
import re
import shutil
import subprocess
import sys
import time

from props import PROPS, TRUSTED_BASE

VERIF = os.path.dirname(os.path.dirname(os.path.abspath(__file__)))
REPO = os.environ.get("VERIF_REPO") or os.environ.get("VP_RUN_REPO") or "/repo"
LEAN = os.path.join(VERIF, "lean", "BiscuitModel")
HARNESS = os.path.join(VERIF, "harness")
BIN = os.path.join(HARNESS, "bin")
WORK = os.path.join(VERIF, ".work")
REPLAYS = os.path.join(VERIF, "replays")
# VERIF_EVIDENCE_DIR: tools that run a check against a deliberately changed tree (try_seed)
# send the evidence of that run elsewhere, so that evidence/ always describes /repo as it is
EVIDENCE = os.environ.get("VERIF_EVIDENCE_DIR") or os.path.join(VERIF, "evidence")
DRIVER = os.path.join(LEAN, ".lake", "build", "bin", "driver")
ALLOWED_AXIOMS = {"propext", "Classical.choice", "Quot.sound"}
FORBIDDEN = re.compile(r"\bsorry\b|\badmit\b|^axiom\s|native_decide|bv_decide|implemented_by|\bunsafe\s|maxHeartbeats\s+0")

GOENV = dict(os.environ, GOFLAGS="-mod=mod", GOPROXY="off", GOSUMDB="off", GOTOOLCHAIN="local",
             CGO_ENABLED=os.environ.get("CGO_ENABLED", "1"))


def sh(cmd, cwd=None, env=None, timeout=None, stdin=None):
    p = subprocess.run(cmd, cwd=cwd, env=env, stdout=subprocess.PIPE, stderr=subprocess.STDOUT,
                       timeout=timeout, stdin=stdin)
    return p.returncode, p.stdout.decode("utf-8", "replace")


class Lock:
    def __init__(self, name):
        os.makedirs(WORK, exist_ok=True)
        self.path = os.path.join(WORK, name + ".lock")

    def __enter__(self):
        self.f = open(self.path, "w")
        fcntl.flock(self.f, fcntl.LOCK_EX)
        return self

    def __exit__(self, *a):
        fcntl.flock(self.f, fcntl.LOCK_UN)
        self.f.close()


def repo_fingerprint():
    """Hash of the working tree's Go sources + go.mod: when it has not changed,
    the harness binaries on disk are still the build of the current tree."""
    h = hashlib.sha256()
    for root, dirs, files in os.walk(REPO):
        dirs[:] = sorted(d for d in dirs if d not in (".git",))
        for f in sorted(files):
            if f.endswith((".go", ".mod", ".sum", ".proto")):
                p = os.path.join(root, f)
                h.update(p.encode())
                with open(p, "rb") as fh:
                    h.update(fh.read())
    for root, dirs, files in os.walk(os.path.join(HARNESS, "cmd")):
        dirs.sort()
        for f in sorted(files):
            p = os.path.join(root, f)
            h.update(p.encode())
            with open(p, "rb") as fh:
                h.update(fh.read())
    return h.hexdigest()


def build_harness(race=False):
    """go build the harness against /repo's current working tree (tag verif)."""
    with Lock("gobuild"):
        os.makedirs(BIN, exist_ok=True)
        name = "harness-race" if race else "harness"
        stamp = os.path.join(BIN, name + ".stamp")
        fp = repo_fingerprint()
        out = os.path.join(BIN, name)
        if os.path.exists(out) and os.path.exists(stamp) and open(stamp).read() == fp:
            return True, "up to date"
        if os.path.exists(out):
            os.remove(out)
        shutil.copyfile(os.path.join(REPO, "go.sum"), os.path.join(HARNESS, "go.sum"))
        modflag = []
        if REPO != "/repo":
            # a snapshot of the repository (background sweeps): same module file, other replace target
            alt = os.path.join(HARNESS, "go.alt.mod")
            with open(alt, "w") as f:
                f.write(open(os.path.join(HARNESS, "go.mod")).read().replace("=> /repo", "=> " + REPO))
            shutil.copyfile(os.path.join(REPO, "go.sum"), os.path.join(HARNESS, "go.alt.sum"))
            modflag = ["-modfile=" + alt]
        cmd = ["go", "build", "-tags", "verif"] + modflag + (["-race"] if race else []) + ["-o", out, "./cmd/harness"]
        rc, log = sh(cmd, cwd=HARNESS, env=GOENV, timeout=600)
        if rc != 0:
            return False, log
        with open(stamp, "w") as f:
            f.write(fp)
        return True, log


def regenerate_tables():
    """Run the extractor against the current tree; rewrite Generated/*.lean only when
    the content changed (so an unchanged tree costs no rebuild)."""
    gen_dir = os.path.join(LEAN, "BiscuitModel", "Generated")
    os.makedirs(gen_dir, exist_ok=True)
    tmp = os.path.join(WORK, "generated")
    shutil.rmtree(tmp, ignore_errors=True)
    os.makedirs(tmp)
    rc, log = sh([os.path.join(BIN, "harness"), "extract", "-repo", REPO, "-out", tmp], env=GOENV, timeout=300)
    if rc != 0:
        return False, log, []
    changed = []
    for f in sorted(os.listdir(tmp)):
        new = open(os.path.join(tmp, f)).read()
        dst = os.path.join(gen_dir, f)
        old = open(dst).read() if os.path.exists(dst) else None
        if old != new:
            with open(dst, "w") as fh:
                fh.write(new)
            changed.append(f)
    return True, log, changed


def lake_build(targets):
    with Lock("lake"):
        rc, log = sh(["lake", "build"] + targets, cwd=LEAN, timeout=3000)
    return rc == 0, log


def strip_comments(src):
    src = re.sub(r"/-.*?-/", "", src, flags=re.S)
    return "\n".join(l.split("--")[0] for l in src.split("\n"))


def lean_sources():
    out = []
    for root, dirs, files in os.walk(os.path.join(LEAN, "BiscuitModel")):
        for f in files:
            if f.endswith(".lean"):
                out.append(os.path.join(root, f))
    return sorted(out)


def module_closure(modules):
    """Source files of the given modules and of everything of this project they import."""
    seen, todo = set(), list(modules)
    while todo:
        m = todo.pop()
        if m in seen or not m.startswith("BiscuitModel"):
            continue
        path = os.path.join(LEAN, m.replace(".", "/") + ".lean")
        if not os.path.exists(path):
            continue
        seen.add(m)
        for line in open(path):
            mm = re.match(r"\s*import\s+(\S+)", line)
            if mm:
                todo.append(mm.group(1))
    return sorted(os.path.join(LEAN, m.replace(".", "/") + ".lean") for m in seen)


def forbidden_hits(modules=None):
    hits = []
    for p in (module_closure(modules) if modules else lean_sources()):
        body = strip_comments(open(p).read())
        for i, line in enumerate(body.split("\n"), 1):
            if FORBIDDEN.search(line):
                hits.append("%s:%d: %s" % (os.path.relpath(p, LEAN), i, line.strip()))
    return hits


def theorems_of(module):
    """(namespace-qualified) theorem names declared in a Props module."""
    path = os.path.join(LEAN, module.replace(".", "/") + ".lean")
    src = strip_comments(open(path).read())
    ns = []
    names = []
    for line in src.split("\n"):
        m = re.match(r"\s*namespace\s+(\S+)", line)
        if m:
            ns.append(m.group(1))
            continue
        m = re.match(r"\s*end\s+(\S+)", line)
        if m and ns and ns[-1] == m.group(1):
            ns.pop()
            continue
        if re.match(r"\s*private\s+theorem\s", line):
            continue  # private helpers cannot be named from outside; they are covered through their users
        m = re.match(r"\s*(?:protected\s+)?theorem\s+([^\s:({\[]+)", line)
        if m:
            names.append(".".join(ns + [m.group(1)]))
    return names


def audit(prop, modules, workdir):
    """#print axioms on every theorem of the property's Props modules."""
    names = []
    for m in modules:
        names += theorems_of(m)
    src = "".join("import %s\n" % m for m in modules) + "".join("#print axioms %s\n" % n for n in names)
    path = os.path.join(workdir, "Audit.lean")
    with open(path, "w") as f:
        f.write(src)
    with Lock("lake"):
        rc, log = sh(["lake", "env", "lean", path], cwd=LEAN, timeout=1200)
    results = {}
    # output: 'X' depends on axioms: [a, b]   |  'X' does not depend on any axioms
    # (a theorem name may itself end in primes: match lazily up to the fixed wording)
    for m in re.finditer(r"^'([^\n]+?)' depends on axioms: \[([^\]]*)\]", log, flags=re.M):
        axs = set(a.strip() for a in m.group(2).replace("\n", " ").split(",") if a.strip())
        results[m.group(1)] = axs
    for m in re.finditer(r"^'([^\n]+?)' does not depend on any axioms", log, flags=re.M):
        results[m.group(1)] = set()
    ok, bad = [], []
    for n in names:
        if n in results and results[n] <= ALLOWED_AXIOMS:
            ok.append(n)
        else:
            bad.append((n, sorted(results.get(n, {"<not checked>"}))))
    return names, ok, bad, log if rc != 0 else ""


def load_known():
    p = os.path.join(VERIF, "known_findings.json")
    if not os.path.exists(p):
        return []
    return json.load(open(p)).get("findings", [])


def run_pipeline(prop, tier, seed, workdir, shard=None):
    """harness → cases/go.out/stats → driver → lean.out → diffs."""
    spec = PROPS[prop]
    out = workdir if shard is None else os.path.join(workdir, "shard%d" % shard)
    os.makedirs(out, exist_ok=True)
    binname = "harness-race" if spec.get("race") else "harness"
    cmd = [os.path.join(BIN, binname), "run", "-prop", prop, "-tier", tier, "-seed", str(seed), "-out", out]
    corpus = os.path.join(VERIF, "corpus", prop + ".txt")
    if os.path.exists(corpus) and (shard is None or shard == 0):
        cmd += ["-corpus", corpus]
    env = dict(GOENV, VERIF_DIR=VERIF, VERIF_REPO=REPO)
    with open(os.path.join(out, "harness.log"), "w") as logf:
        p = subprocess.run(cmd, env=env, stdout=logf, stderr=subprocess.STDOUT,
                           timeout=spec.get("timeout", {}).get(tier, 3600))
    if p.returncode != 0 or not os.path.exists(os.path.join(out, "stats.json")):
        tail = open(os.path.join(out, "harness.log"), errors="replace").read()[-4000:]
        return {"crash": "harness exited %d: %s" % (p.returncode, tail), "dir": out}
    stats = json.load(open(os.path.join(out, "stats.json")))
    diffs = []
    ncases = 0
    cases_path = os.path.join(out, "cases.txt")
    if os.path.getsize(cases_path) > 0:
        stages = spec.get("oracle_pass", False)
        src = cases_path
        if stages:
            # two-pass: the model first says which external answers it needs
            need = os.path.join(out, "need.txt")
            with open(src, "rb") as fin, open(need, "wb") as fout:
                subprocess.run([DRIVER, "--need"], stdin=fin, stdout=fout, check=True, timeout=3600)
            answered = os.path.join(out, "answered.txt")
            with open(need, "rb") as fin, open(answered, "wb") as fout:
                subprocess.run([os.path.join(BIN, "harness"), "oracle"], stdin=fin, stdout=fout, check=True,
                               timeout=3600, env=env)
            src = answered
        with open(src, "rb") as fin, open(os.path.join(out, "lean.out"), "wb") as fout:
            rc = subprocess.run([DRIVER], stdin=fin, stdout=fout, timeout=3600).returncode
        if rc != 0:
            return {"crash": "lean driver exited %d" % rc, "dir": out}
        go = {}
        for line in open(os.path.join(out, "go.out"), errors="replace"):
            k, _, v = line.rstrip("\n").partition(" ")
            go[k] = v
        lean = {}
        for line in open(os.path.join(out, "lean.out"), errors="replace"):
            k, _, v = line.rstrip("\n").partition(" ")
            lean[k] = v
        ncases = len(go)
        miss = 0
        bad = [k for k in go if lean.get(k) != go[k]]
        if bad:
            lines = {}
            want = set(bad)
            for line in open(cases_path, errors="replace"):
                parts = line.rstrip("\n").split(" ", 2)
                if len(parts) == 3 and parts[1] in want:
                    lines[parts[1]] = (parts[0], parts[2])
            for k in bad:
                lv = lean.get(k, "<no output>")
                if lv.startswith("oracle-miss"):
                    miss += 1
                    continue
                verb, case = lines.get(k, ("?", "?"))
                if case.endswith(" (lenient))") and not (go[k].startswith("ok ") and lv.startswith("ok ")):
                    # corrupted texts: the implementation may be more lenient than the documented
                    # grammar (or reject what the model accepts); only "both accept" must agree
                    stats["lenient_skipped"] = stats.get("lenient_skipped", 0) + 1
                    continue
                diffs.append({"id": k, "verb": verb, "case": case, "go": go[k], "model": lv})
        stats["oracle_miss"] = miss
    stats["correspondence_cases"] = ncases
    return {"stats": stats, "diffs": diffs, "dir": out}


def diff_key(prop, d):
    """Key of a correspondence disagreement: property/verb:model→go outcome classes."""
    def cls(s):
        w = s.split(" ")
        head = w[0] if w else ""
        if head in ("err", "panic", "reject", "died") and len(w) > 1:
            head += " " + w[1]
        return head.split("[")[0][:40]
    return "%s/diff:%s:%s->%s" % (prop, d["verb"], cls(d["model"]), cls(d["go"]))


def write_replay(prop, seed, n, payload):
    os.makedirs(REPLAYS, exist_ok=True)
    path = os.path.join(REPLAYS, "%s-%d-%d.json" % (prop, seed, n))
    with open(path, "w") as f:
        json.dump(payload, f, indent=1)
    return path


def check(prop, tier, seed):
    t0 = time.time()
    spec = PROPS[prop]
    workdir = os.path.join(WORK, prop)
    shutil.rmtree(workdir, ignore_errors=True)
    os.makedirs(workdir, exist_ok=True)
    violations = []   # dicts: key, desc, replay (payload), nofail (bool)
    notes = []

    # 1. build harness from the current tree
    ok, log = build_harness(race=False)
    if ok and spec.get("race"):
        ok, log = build_harness(race=True)
    if not ok:
        violations.append({"key": prop + "/build", "desc": "harness does not build against /repo's working tree",
                           "replay": {"broken": "go build", "log": log[-6000:]}, "nofail": True})
        return finish(prop, tier, seed, t0, spec, violations, None, [], [], [], notes)

    # 2. regenerate tables from the source; 3. rebuild proofs + driver
    gen_ok, gen_log, changed = regenerate_tables()
    if not gen_ok:
        violations.append({"key": prop + "/extract", "desc": "table extractor failed on the current tree",
                           "replay": {"broken": "extractor", "log": gen_log[-6000:]}, "nofail": True})
    if changed:
        notes.append("generated tables changed: " + ", ".join(changed))
    modules = spec["modules"]
    b_ok, b_log = lake_build(modules + ["driver"])
    names, proved, bad = [], [], []
    if not b_ok:
        # which modules fail? try each alone so that the replay names the theorem file
        failing = []
        for m in modules:
            mok, mlog = lake_build([m])
            if not mok:
                failing.append((m, mlog[-5000:]))
        d_ok, d_log = lake_build(["driver"])
        for m in modules:
            names += theorems_of(m)
        violations.append({"key": prop + "/proof", "desc": "Lean proof obligations no longer check: " +
                           ", ".join(m for m, _ in failing) if failing else "lake build failed",
                           "replay": {"broken": "lake build", "modules": [m for m, _ in failing],
                                      "log": (failing[0][1] if failing else b_log[-5000:])}, "nofail": True})
        if not d_ok:
            return finish(prop, tier, seed, t0, spec, violations, None, names, [], [], notes)
    else:
        names, proved, bad, alog = audit(prop, modules, workdir)
        for n, axs in bad:
            violations.append({"key": prop + "/axioms:" + n, "desc": "theorem %s depends on %s" % (n, axs),
                               "replay": {"broken": "axiom audit", "theorem": n, "axioms": axs, "log": alog[-3000:]},
                               "nofail": True})
        hits = forbidden_hits(modules + ["BiscuitModel.Driver.Main"])
        if hits:
            violations.append({"key": prop + "/forbidden", "desc": "forbidden construct in Lean sources",
                               "replay": {"broken": "source audit", "hits": hits[:50]}, "nofail": True})
        if tier == "thorough":
            with Lock("lake"):
                rc, clog = sh(["lake", "env", "leanchecker"] + modules, cwd=LEAN, timeout=3000)
            if rc != 0:
                violations.append({"key": prop + "/leanchecker", "desc": "leanchecker rejected compiled modules",
                                   "replay": {"broken": "leanchecker", "log": clog[-4000:]}, "nofail": True})
            else:
                notes.append("leanchecker re-checked: " + " ".join(modules))

    # 4. correspondence + witness search
    shards = spec.get("shards", {}).get(tier, 1)
    results = []
    if shards == 1:
        results.append(run_pipeline(prop, tier, seed, workdir))
    else:
        from concurrent.futures import ThreadPoolExecutor
        with ThreadPoolExecutor(max_workers=min(shards, 14)) as ex:
            futs = [ex.submit(run_pipeline, prop, tier, seed * 1000 + k, workdir, k) for k in range(shards)]
            results = [f.result() for f in futs]
    merged = None
    proof_broken = any(v["key"].split("/")[1].split(":")[0] in ("proof", "axioms", "forbidden", "leanchecker", "extract")
                       for v in violations)
    witness = []
    diffs = []
    for r in results:
        if "crash" in r:
            violations.append({"key": prop + "/harness-crash", "desc": r["crash"][:300],
                               "replay": {"broken": "harness", "log": r["crash"]}, "nofail": True})
            continue
        st = r["stats"]
        witness += st.get("violations") or []
        diffs += r["diffs"]
        if merged is None:
            merged = st
        else:
            for k in ("evaluations", "correspondence_cases", "oracle_miss"):
                merged[k] = merged.get(k, 0) + st.get(k, 0)
            merged["distinct_nontrivial"] += st["distinct_nontrivial"]  # shards use different seeds
            for k, v in (st.get("histogram") or {}).items():
                merged["histogram"][k] = merged["histogram"].get(k, 0) + v
    for w in witness:
        violations.append({"key": w["key"], "desc": w["desc"], "replay": w["replay"], "nofail": False})
    # correspondence disagreements
    if diffs:
        bykey = {}
        for d in diffs:
            bykey.setdefault(diff_key(prop, d), []).append(d)
        for k, ds in bykey.items():
            d0 = min(ds, key=lambda d: len(d["case"]))
            payload = {"broken": "correspondence", "verb": d0["verb"], "case": d0["case"], "go": d0["go"],
                       "model": d0["model"], "count": len(ds)}
            if spec.get("reference"):
                # the model is the proved reference semantics: the case is the failing input
                violations.append({"key": k, "desc": "library and proved model disagree on %d case(s), e.g. %s: go=%s model=%s"
                                   % (len(ds), d0["id"], d0["go"][:80], d0["model"][:80]), "replay": payload,
                                   "nofail": False})
            else:
                violations.append({"key": k, "desc": "correspondence %s broken on %d case(s), e.g. %s: go=%s model=%s"
                                   % (d0["verb"], len(ds), d0["id"], d0["go"][:80], d0["model"][:80]),
                                   "replay": payload, "nofail": not witness})
    # a broken proof with a concrete failing input found elsewhere is reported with that input
    if proof_broken and any(not v["nofail"] for v in violations):
        pass
    return finish(prop, tier, seed, t0, spec, violations, merged, names, proved, bad, notes)


def finish(prop, tier, seed, t0, spec, violations, stats, names, proved, bad, notes):
    known = [k for k in load_known() if k.get("property") == prop and k.get("status") == "known"]
    reported = []
    known_hit = {}
    for v in violations:
        hit = None
        for k in known:
            if v["key"] == k["key"] or (k.get("key_prefix") and v["key"].startswith(k["key_prefix"])):
                hit = k
                break
        if hit is not None:
            known_hit.setdefault(hit["key"], (hit, 0))
            known_hit[hit["key"]] = (hit, known_hit[hit["key"]][1] + 1)
        else:
            reported.append(v)
    for key, (k, n) in sorted(known_hit.items()):
        print("KNOWN-FINDING: property=%s %s [%s, %d occurrence(s) this run]" % (prop, k["description"], key, n))
    # de-duplicate by key, keep first
    seen = {}
    for v in reported:
        seen.setdefault(v["key"], v)
    reported = list(seen.values())
    # failing inputs first
    reported.sort(key=lambda v: (v["nofail"], v["key"]))
    n = 0
    for v in reported[:25]:
        n += 1
        path = write_replay(prop, seed, n, {"property": prop, "key": v["key"], "what": v["desc"], "replay": v["replay"],
                                            "tier": tier, "seed": seed})
        suffix = " no-failing-input-found" if v["nofail"] else ""
        print("VIOLATION property=%s replay=%s key=%s %s%s" % (prop, path, v["key"], v["desc"][:200].replace("\n", " "), suffix))
    wall = time.time() - t0
    obligations = len(names)
    discharged = len(proved)
    cov = {
        "obligations": obligations,
        "discharged": discharged,
        "checker_cmd": "cd lean/BiscuitModel && lake build %s && lake env lean Audit.lean  (#print axioms on every theorem; %s)"
                       % (" ".join(spec["modules"]), "plus lake env leanchecker" if tier == "thorough" else "leanchecker in thorough tier"),
        "trusted_base": TRUSTED_BASE + spec.get("trusted", []),
        "theorems": names,
        "theorems_not_discharged": [b[0] for b in bad] if bad else ([] if discharged == obligations else names),
        "evaluations": (stats or {}).get("evaluations", 0),
        "distinct_nontrivial": (stats or {}).get("distinct_nontrivial", 0),
        "correspondence_cases": (stats or {}).get("correspondence_cases", 0),
        "oracle_miss": (stats or {}).get("oracle_miss", 0),
        "rule": (stats or {}).get("rule", ""),
        "samples": (stats or {}).get("samples") or [{"note": "no case executed"}],
        "histogram": (stats or {}).get("histogram", {}),
        "extra": (stats or {}).get("extra", {}),
        "notes": notes + ((stats or {}).get("notes") or []),
        "known_findings_hit": sorted(known_hit.keys()),
        "violations_reported": [v["key"] for v in reported],
        "exhaustive": bool(spec.get("exhaustive", False)),
    }
    ev = {
        "property_id": prop,
        "tier": tier,
        "seed": seed,
        "level": "proof",
        "coverage": cov,
        "assumptions": spec.get("assumptions", []),
        "wall_s": round(wall, 2),
        "violations": len(reported),
    }
    os.makedirs(EVIDENCE, exist_ok=True)
    with open(os.path.join(EVIDENCE, prop + ".json"), "w") as f:
        json.dump(ev, f, indent=1)
    shutil.rmtree(os.path.join(WORK, prop), ignore_errors=True)
    print("check %s tier=%s seed=%d: theorems %d/%d, evaluations %d, distinct non-trivial %d, violations %d, %.1fs"
          % (prop, tier, seed, discharged, obligations, cov["evaluations"], cov["distinct_nontrivial"], len(reported), wall))
    return 1 if reported else 0


def setup():
    ok, log = build_harness(False)
    if not ok:
        print(log)
        return 1
    ok, log = build_harness(True)
    if not ok:
        print(log)
        return 1
    gen_ok, gen_log, changed = regenerate_tables()
    if not gen_ok:
        print(gen_log)
        return 1
    ok, log = lake_build([])
    print(log[-3000:])
    return 0 if ok else 1


def replay(prop, path):
    data = json.load(open(path))
    rp = data.get("replay", data)
    ok, log = build_harness(False)
    if not ok:
        print(log)
        return 1
    if "case" in rp and "verb" in rp:
        rc, out = sh([os.path.join(BIN, "harness"), "replay", rp["verb"], rp["case"]], env=GOENV, timeout=600)
        go = out.strip().split("\n")[-1] if out.strip() else "<none>"
        line = "%s replay %s\n" % (rp["verb"], rp["case"])
        p = subprocess.run([DRIVER], input=line.encode(), stdout=subprocess.PIPE, timeout=600)
        model = p.stdout.decode().strip().partition(" ")[2]
        print("library: %s" % go)
        print("model:   %s" % model)
        if "want" in rp:
            print("expected: %s" % rp["want"])
        same = (go == model) and ("want" not in rp or rp["want"] == go)
        print("agree" if same else "DISAGREE")
        return 0 if same else 1
    print(json.dumps(rp, indent=1)[:4000])
    return 0


def main(argv):
    if not argv:
        print(__doc__)
        return 2
    if argv[0] == "--setup":
        return setup()
    prop = argv[0]
    if prop not in PROPS:
        print("unknown property", prop)
        return 2
    tier = os.environ.get("VERIF_TIER", "quick")
    seed = int(os.environ.get("VERIF_SEED", "1") or "1")
    i = 1
    while i < len(argv):
        if argv[i] == "--tier":
            tier = argv[i + 1]
            i += 2
        elif argv[i] == "--replay":
            return replay(prop, argv[i + 1])
        elif argv[i] == "--seed":
            seed = int(argv[i + 1])
            i += 2
        else:
            i += 1
    if tier not in ("quick", "thorough"):
        tier = "quick"
    return check(prop, tier, seed)
